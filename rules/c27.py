"""C27 Database transactions retry only transient errors, atomically.

  R1  decision shape of retry_transient_mysql_errors: an exception is re-raised iff the classifier returns a falsy value, otherwise the
      loop comes round again; the classifier is EVALUATED over the finite domain {OperationalError, InternalError, other MySQL error,
      non-MySQL error} x {every error code it or the statement mentions, one other code}: it answers truthy exactly for
      InternalError{1205} and OperationalError{1040, 1213, 2003, 2013} (isinstance through the import table, code sets through module
      constants, levels by name however imported; walrus / local / `is None` / guard-clause spellings of the wrapper's test and
      `x += 1` vs `x = x + 1` are the same thing)
  R2  the retry encloses the whole transaction: in transaction() and in every retried Database method the retry wrapper is outside
      `async with db.start()`; nothing that receives an already open Transaction is retried; async generators are not retried
  R3  Transaction exit: rollback when an exception is propagating, commit otherwise, connection released in `finally`, shielded from
      cancellation; the context manager forwards the exception type
      (R2/R3/R6 resolve the wrapper functions by what the outer function returns, parameters by position, with-targets and cursor /
      transaction variables by binding, commit / rollback by an abstract walk over `exception propagating` x free tests; same-class
      helpers of _aexit_1 are inlined)
  R4  cross-language atomicity: a stored procedure that issues START TRANSACTION (implicit commit of the caller's transaction) is never
      CALLed on an open Transaction after a write; procedures CALLed from inside other procedures contain no transaction statements;
      every path through a procedure that starts a transaction ends it exactly once (COMMIT or ROLLBACK) - abstract execution over the
      number of open transactions that follows IF / ELSEIF / ELSE, labelled blocks with LEAVE (guard clauses), RETURN, SIGNAL; a
      failing end state counts only when it is reached on a path that does not decide one condition both ways
  R5  inside Transaction a failing statement aborts the transaction: every `try` that encloses a statement execution re-raises on every
      handler path (no `return`/`break`/`continue` in its `finally`, no contextlib.suppress around it); no statement-executing function
      is retried (decorator) or sleeps-and-retries (a statement re-issued inside an open transaction runs after InnoDB may already have
      rolled the transaction back).  "Executes a statement" is a flow fact (engines/c27facts.ExecFlow): `cursor.execute/executemany/
      callproc` called directly, through a local alias, through a parameter of a helper method / module-level function that receives
      the cursor or the bound method (`await self._execute(cursor.execute, sql, args)`), through a lambda / nested def / partial, or by
      calling another executing unit; a cursor or bound method handed to code outside the module is declined.  The message names an
      abstract error (truth table of R7) for which the handler does not raise
  R6  one Database operation == one transaction: every Database method opens at most one transaction per call (one `self.start()` or one
      call of another transaction-opening method), never inside a loop; the array of execute_many reaches a single Transaction.execute_many
  R7  the error that reaches the retry classifier is the one the driver raised (DB layer, gear/gear/database.py): every `except`
      handler between the retry wrapper and the statements is evaluated over the finite abstract domain of the caught error
      {OperationalError, InternalError} x {code in / not in the retry table} + other MySQL error + non-MySQL error (tests on the
      classifier, isinstance and `exc.args[0]` are interpreted on that domain, other tests are free booleans; every error code a test
      mentions is its own class of the domain; boolean helpers on the exception -- module-level functions, methods, imported from
      another repository module -- and helpers called as statements that may raise are inlined into the table first): on every path a
      retryable error leaves the handler as the same exception or as another retryable one, a non-retryable one is never replaced by
      an error the classifier accepts, and a retryable one is not swallowed; no statement of the layer fabricates an error the
      classifier accepts outside a handler.  Functions only ever scheduled as background tasks are outside the retry path.
  R8  the same decision for application code that runs inside a retried transaction (functions decorated with @transaction /
      @retry_transient_mysql_errors and functions that receive an open `tx`), whole repository in the thorough tier
Not decided: MySQL/InnoDB behaviour itself; which error codes the server actually emits.
"""
from __future__ import annotations

import ast
import builtins
from typing import Any, Dict, FrozenSet, List, Optional, Set, Tuple

from engines import absdom, c27facts as cf, pyfacts as pf
from engines import sqlfront as sf
from engines.inline import inline_methods
from engines.common import AnalysisError, AnchorRemoved, Ctx
from engines.sqlast import N, text

META = dict(
    category='other',
    text='Decision table of the retry wrapper over the classifier outcome, exact comparison of the retryable-code tables with the statement, nesting order of '
         'retry vs. transaction at every retried site, exit discipline of Transaction, and the SQL-side rule that procedures which start their own transaction '
         'cannot split a Python transaction.',
    note='Trusted: Python AST/CFG, SQL parser; MySQL implicit-commit semantics of START TRANSACTION; aiomysql commit/rollback.',
    technique='static analysis: predicate truth table over an abstract error domain (helpers inlined) + may-flow of cursor/execute callables through helpers + decorator nesting order + CFG checks + cross-language call rule over the SQL program',
    design_ref='DESIGN.md §3 C27',
)

DB = 'gear/gear/database.py'
WANT_INTERNAL = {1205}
WANT_OPERATIONAL = {1040, 1213, 2003, 2013}
LOGLEVELS = {'logging.DEBUG': 10, 'logging.INFO': 20, 'logging.WARNING': 30, 'logging.ERROR': 40, 'logging.CRITICAL': 50, 'logging.NOTSET': 0}


def _int_tuple(e: ast.expr) -> Optional[Set[int]]:
    if isinstance(e, (ast.Tuple, ast.List, ast.Set)) and all(isinstance(x, ast.Constant) and isinstance(x.value, int) for x in e.elts):
        return {x.value for x in e.elts}
    return None


LEVEL_NAMES = {'DEBUG': 10, 'INFO': 20, 'WARNING': 30, 'WARN': 30, 'ERROR': 40, 'CRITICAL': 50, 'FATAL': 50, 'NOTSET': 0}
_DECLINES: List[str] = []


def _defer(msg: str) -> None:
    """Something this run cannot decide: remembered; the other rules still run; the run ends as ANALYSIS-ERROR (exit 2) unless a
    violation with positive evidence was found."""
    if msg not in _DECLINES:
        _DECLINES.append(msg)


def _docless(body: List[ast.stmt]) -> List[ast.stmt]:
    return [s for s in body if not (isinstance(s, ast.Expr) and isinstance(s.value, ast.Constant))]


def _module_const(m: pf.Module, e: ast.expr) -> ast.expr:
    """Follow a bare module-level name to its (single) defining expression."""
    for _ in range(3):
        if isinstance(e, ast.Name):
            try:
                e = m.global_assign(e.id)
            except AnalysisError:
                return e
        else:
            break
    return e


def _truthy_level(m: pf.Module, e: Optional[ast.expr], code: Optional[int]) -> Optional[bool]:
    """Truthiness of the value the classifier returns: a logging level (by its name, however imported), an int / None literal, or
    `<module dict>.get(<error code>, <default>)`.  None = not resolved."""
    if e is None:
        return False
    if isinstance(e, ast.Constant):
        return bool(e.value)
    d = pf.dotted(e)
    if d is not None:
        last = d.split('.')[-1]
        if last in LEVEL_NAMES and ('.' in d or last in m.imports()):
            return LEVEL_NAMES[last] != 0
        if '.' not in d:
            v = _module_const(m, e)
            if v is not e:
                return _truthy_level(m, v, code)
        return None
    if isinstance(e, ast.Call) and isinstance(e.func, ast.Attribute) and e.func.attr == 'get' and len(e.args) == 2 and not e.keywords:
        table = _module_const(m, e.func.value)
        if isinstance(table, ast.Dict) and all(isinstance(k, ast.Constant) for k in table.keys):
            for k, v in zip(table.keys, table.values):
                if code is not None and k.value == code:
                    return _truthy_level(m, v, code)
            return _truthy_level(m, e.args[1], code)
    return None


def _classifier_table(ctx: Ctx, m: pf.Module) -> Dict[str, Set[int]]:
    """Evaluate exception_log_level_if_retryable over the finite abstract domain {OperationalError, InternalError} x {every error code
    the function or the statement mentions, one other code} + other MySQL error + non-MySQL error: which (class, code) get a truthy
    answer.  The function's tests are interpreted (isinstance through the import table, `exc.args[0] in <tuple / module constant>`,
    `==`), locals are expanded; any other test declines."""
    cl = m.func(CLASSIFIER)
    ctx.need(cl.args.args, 'exception_log_level_if_retryable: no parameter')
    nm = cl.args.args[0].arg
    body = _docless(cl.body)
    notb = _Tables(set(), set())
    notb.names = {}
    atoms = absdom.collect_test_atoms(body)
    exp = {absdom.atom_key(a): pf.expand_locals(cl, a) for a in atoms}
    mentioned: Set[int] = set(WANT_INTERNAL) | set(WANT_OPERATIONAL)
    for a in exp.values():
        for sub in absdom.bool_atoms(a):
            ct = _code_test(sub, nm)
            if ct is not None:
                cs = _code_set(m, ct[0], ct[1], notb)
                ctx.need(cs is not None, f'exception_log_level_if_retryable: the code set of `{pf.nsrc(sub)}` is not a literal / module constant')
                mentioned |= cs
    other = max(mentioned) + 100000
    accepted: Dict[str, Set[int]] = {'OperationalError': set(), 'InternalError': set(), 'OtherMySQL': set(), 'NonMySQL': set()}

    def value(a: ast.AST, cls: str, code: int) -> bool:
        a = exp.get(absdom.atom_key(a), a)
        if isinstance(a, (ast.BoolOp, ast.UnaryOp)):
            return absdom.eval_bool(a, lambda x: value(x, cls, code))
        ct = _code_test(a, nm)
        if ct is not None:
            cs = _code_set(m, ct[0], ct[1], notb)
            if cs is None:
                raise AnalysisError(f'exception_log_level_if_retryable: `{pf.nsrc(a)}` not resolved')
            r = code in cs
            return (not r) if isinstance(ct[0], (ast.NotEq, ast.NotIn)) else r
        if isinstance(a, ast.Call) and pf.dotted(a.func) == 'isinstance' and len(a.args) == 2 and pf.nsrc(a.args[0]) == nm:
            tk = _type_kinds(m, a.args[1])
            if tk is None:
                raise AnalysisError(f'exception_log_level_if_retryable: class in `{pf.nsrc(a)}` not resolved')
            may, full = tk
            k = (cls, True)
            if k in full or (cls, False) in full:
                return True
            if k not in may and (cls, False) not in may:
                return False
        raise AnalysisError(f'exception_log_level_if_retryable: test `{pf.nsrc(a)}` is not interpreted')

    for cls in accepted:
        for code in sorted(mentioned) + [other]:
            o = absdom.walk_block(body, lambda a, cls=cls, code=code: value(a, cls, code))
            ctx.need(o.kind in ('return', 'fall'), f'exception_log_level_if_retryable: a path ends in `{o.kind}`')
            ret = o.node.value if (o.kind == 'return' and o.node is not None) else None
            t = _truthy_level(m, ret, code)
            ctx.need(t is not None, f'exception_log_level_if_retryable: truthiness of `{pf.nsrc(ret) if ret is not None else None}` not resolved')
            if t:
                accepted[cls].add(code if code != other else -1)
    return accepted


def _classifier_polarity(w: pf.FuncDef, exc_name: Optional[str], a: ast.AST) -> Optional[bool]:
    """a is true exactly when the classifier's answer for the caught exception is truthy (True) / falsy (False); None: another test.
    Sees through the walrus, a local holding the answer, `is None` / `is not None`, `not`, bool()."""
    cur, pol = a, True
    for _ in range(8):
        if isinstance(cur, ast.NamedExpr):
            cur = cur.value
        elif isinstance(cur, ast.UnaryOp) and isinstance(cur.op, ast.Not):
            cur, pol = cur.operand, not pol
        elif isinstance(cur, ast.Compare) and len(cur.ops) == 1 and isinstance(cur.comparators[0], ast.Constant) and cur.comparators[0].value is None:
            if isinstance(cur.ops[0], (ast.Is, ast.Eq)):
                cur, pol = cur.left, not pol
            elif isinstance(cur.ops[0], (ast.IsNot, ast.NotEq)):
                cur = cur.left
            else:
                return None
        elif isinstance(cur, ast.Call) and isinstance(cur.func, ast.Name) and cur.func.id == 'bool' and len(cur.args) == 1:
            cur = cur.args[0]
        elif isinstance(cur, ast.Name):
            d = pf.single_def(w, cur.id)
            if not isinstance(d, ast.expr):
                return None
            cur = d
        elif isinstance(cur, ast.Call) and (pf.dotted(cur.func) or '').split('.')[-1] == CLASSIFIER and len(cur.args) == 1 and not cur.keywords \
                and isinstance(cur.args[0], ast.Name) and cur.args[0].id == exc_name:
            return pol
        else:
            return None
    return None


def _is_increment(st: ast.stmt) -> bool:
    """`x += k`  or  `x = x + k` / `x = k + x`."""
    if isinstance(st, ast.AugAssign) and isinstance(st.op, ast.Add) and isinstance(st.target, ast.Name):
        return True
    if isinstance(st, ast.Assign) and len(st.targets) == 1 and isinstance(st.targets[0], ast.Name) and isinstance(st.value, ast.BinOp) and isinstance(st.value.op, ast.Add):
        return any(isinstance(x, ast.Name) and x.id == st.targets[0].id for x in (st.value.left, st.value.right))
    return False


def r1(ctx: Ctx, m: pf.Module) -> None:
    acc = _classifier_table(ctx, m)
    cl = m.func(CLASSIFIER)

    def show(s: Set[int]) -> List[Any]:
        return sorted('any other code' if c == -1 else c for c in s) if all(c != -1 for c in s) else sorted(c for c in s if c != -1) + ['any other code']
    op, it = acc['OperationalError'], acc['InternalError']
    ctx.check(op == WANT_OPERATIONAL, 'R1', f'{DB}::operational_error_retry_codes', f'retryable OperationalError codes are {show(op)}; the statement allows connection limit 1040, deadlock 1213, '
              f'cannot connect 2003, lost connection 2013 only (difference: +{show(op - WANT_OPERATIONAL)} -{show(WANT_OPERATIONAL - op)}; a code missing here is either not in the table or mapped to a falsy level, '
              'which the wrapper re-raises)', m.path, cl.lineno)
    ctx.check(it == WANT_INTERNAL, 'R1', f'{DB}::internal_error_retry_codes', f'retryable InternalError codes are {show(it)}; the statement allows lock wait timeout 1205 only '
              f'(difference: +{show(it - WANT_INTERNAL)} -{show(WANT_INTERNAL - it)})', m.path, cl.lineno)
    ctx.check(not acc['OtherMySQL'] and not acc['NonMySQL'], 'R1', f'{DB}::exception_log_level_if_retryable::arms',
              f'the classifier also accepts {"other MySQL error classes" if acc["OtherMySQL"] else ""} {"non-MySQL exceptions" if acc["NonMySQL"] else ""}: they would be retried', m.path, cl.lineno)
    ctx.ok('R1', f'{DB}::exception_log_level_if_retryable::truthy levels', 'every accepted (class, code) is answered with a truthy level (evaluated per code, included in the two code-set instances)')
    # the wrapper's decision table
    outer = m.func('retry_transient_mysql_errors')
    _wq, w = _returned_inner(m, 'retry_transient_mysql_errors')
    loops = [s for s in w.body if isinstance(s, ast.While)]
    ctx.need(len(loops) == 1 and isinstance(loops[0].test, ast.Constant) and loops[0].test.value is True, 'retry wrapper: while True not found')
    trs = [s for s in loops[0].body if isinstance(s, ast.Try)]
    ctx.need(len(trs) == 1, 'retry wrapper: try not found in the loop')
    tr = trs[0]
    before = loops[0].body[:loops[0].body.index(tr)]
    ctx.need(not any(isinstance(x, (ast.Return, ast.Raise, ast.Break, ast.Continue)) for b in before for x in ast.walk(b)), 'retry wrapper: control flow before the try')
    ctx.need(len(tr.handlers) == 1 and tr.handlers[0].type is not None and pf.nsrc(tr.handlers[0].type) == 'Exception' and not tr.finalbody and not tr.orelse, 'retry wrapper: try shape')
    h = tr.handlers[0]
    atoms = absdom.collect_test_atoms(h.body)
    pols = {absdom.atom_key(a): _classifier_polarity(w, h.name, a) for a in atoms}
    ctx.need(atoms and all(v is not None for v in pols.values()), f'retry wrapper decides on {[k for k, v in pols.items() if v is None] or "nothing"}')
    res = {}
    nodes = {}
    for v in (False, True):
        o = absdom.walk_block(h.body, lambda a, v=v: v if pols[absdom.atom_key(a)] else not v)
        res[v] = o.kind
        nodes[v] = o.node
    good = res[False] == 'raise' and res[True] in ('fall', 'continue')
    if good and nodes[False] is not None and nodes[False].exc is not None and not (isinstance(nodes[False].exc, ast.Name) and nodes[False].exc.id == h.name):
        _defer(f'retry wrapper: a non-retryable error leaves as `{pf.nsrc(nodes[False])}`, not as the caught exception')
    ctx.check(good, 'R1', f'{DB}::retry_transient_mysql_errors::decision', f'classifier falsy -> {res[False]}, truthy -> {res[True]}; expected re-raise / retry', m.path, h.lineno)
    after = loops[0].body[loops[0].body.index(tr) + 1:]
    if res[True] == 'continue':
        after = []
    top_exit = [x for x in after if isinstance(x, (ast.Return, ast.Break, ast.Raise))]
    nested_exit = [x for b in after for x in ast.walk(b) if isinstance(x, (ast.Return, ast.Break, ast.Raise))]
    canonical = len(after) == 2 and _is_increment(after[0]) and isinstance(after[1], ast.Expr) and isinstance(after[1].value, ast.Await)
    if top_exit:
        ctx.bad('R1', f'{DB}::retry_transient_mysql_errors::backoff', f'after a retryable error the loop body runs `{pf.nsrc(top_exit[0])}`: the operation is not attempted again', m.path, loops[0].lineno)
    elif nested_exit and not canonical:
        _defer('retry wrapper: the statements after the try contain a conditional exit from the retry loop; whether a retryable error is always retried is not decided')
    else:
        ctx.ok('R1', f'{DB}::retry_transient_mysql_errors::backoff', [pf.nsrc(x) for x in after])
    # what is re-invoked
    fname = outer.args.args[0].arg if outer.args.args else None
    va, kw = (w.args.vararg.arg if w.args.vararg else None), (w.args.kwarg.arg if w.args.kwarg else None)
    calls = [c for b in tr.body for c in ast.walk(b) if isinstance(c, ast.Call) and isinstance(c.func, ast.Name) and c.func.id == fname]
    cons = f'{DB}::retry_transient_mysql_errors::re-invokes f'
    if len(calls) != 1 or fname is None:
        _defer('retry wrapper: the call of the wrapped function inside the try was not recognised')
    else:
        c = calls[0]
        full = len(c.args) == 1 and isinstance(c.args[0], ast.Starred) and isinstance(c.args[0].value, ast.Name) and c.args[0].value.id == va and \
            len(c.keywords) == 1 and c.keywords[0].arg is None and isinstance(c.keywords[0].value, ast.Name) and c.keywords[0].value.id == kw
        ctx.check(full, 'R1', cons, f'the retried call is `{pf.nsrc(c)}`, not {fname}(*{va}, **{kw}): a retry does not repeat the operation the caller asked for', m.path, tr.lineno)


def _returned_inner(m: pf.Module, qual: str) -> Tuple[str, pf.FuncDef]:
    """The nested function that `qual` returns (`def outer(..): def inner(..): ..; return inner`), whatever it is called."""
    outer = m.func(qual)
    inner = {f.name: f for f in outer.body if isinstance(f, (ast.FunctionDef, ast.AsyncFunctionDef))}
    rets = [s_.value for s_ in outer.body if isinstance(s_, ast.Return) and s_.value is not None]
    names = {r.id for r in rets if isinstance(r, ast.Name)}
    hit = [n for n in names if n in inner]
    if len(hit) != 1 or len(rets) != 1:
        raise AnalysisError(f'anchor vanished: {m.rel}::{qual} does not return one nested function')
    return f'{qual}.{hit[0]}', inner[hit[0]]


def _retried(fn: pf.FuncDef) -> bool:
    return any((pf.dotted(d) or '').split('.')[-1] == 'retry_transient_mysql_errors' for d in fn.decorator_list)


def _start_withs(fn: pf.FuncDef, receivers: Set[str]) -> List[ast.AsyncWith]:
    out = []
    for w in ast.walk(fn):
        if isinstance(w, (ast.AsyncWith, ast.With)):
            for i in w.items:
                c = pf.resolve_expr(fn, i.context_expr)
                if isinstance(c, ast.Call) and isinstance(c.func, ast.Attribute) and c.func.attr == 'start' and isinstance(c.func.value, ast.Name) and c.func.value.id in receivers:
                    out.append(w)
    return out


def _db_opening_methods(m: pf.Module) -> Tuple[Dict[str, pf.FuncDef], Set[str]]:
    """Database methods that open a transaction: `self.start()` directly, or through another such method."""
    dbc = m.cls('Database')
    meths = {f.name: f for f in dbc.body if isinstance(f, (ast.AsyncFunctionDef, ast.FunctionDef))}
    opening: Set[str] = set()
    changed = True
    while changed:
        changed = False
        for n, f in meths.items():
            if n in opening or n == 'start' or not f.args.args:
                continue
            me = f.args.args[0].arg
            for c in pf.walk_shallow(f):
                if isinstance(c, ast.Call) and isinstance(c.func, ast.Attribute) and isinstance(c.func.value, ast.Name) and c.func.value.id == me and (c.func.attr == 'start' or c.func.attr in opening):
                    opening.add(n)
                    changed = True
                    break
    return meths, opening


def r2(ctx: Ctx, m: pf.Module) -> None:
    tr_outer = m.func('transaction')
    tf = m.func('transaction.transformer')
    twq, tw = _returned_inner(m, 'transaction.transformer')
    cons = f'{DB}::transaction'
    dbname = tr_outer.args.args[0].arg if tr_outer.args.args else None
    fun = tf.args.args[0].arg if tf.args.args else None
    retried = _retried(tw)
    body = _docless(tw.body)
    withs = _start_withs(tw, {dbname} if dbname else set())
    canonical = False
    pure = [s_ for s_ in body if isinstance(s_, (ast.Assign, ast.AnnAssign)) and not any(isinstance(x, (ast.Await, ast.Yield, ast.YieldFrom)) for x in ast.walk(s_))]
    rest = [s_ for s_ in body if s_ not in pure]
    if retried and len(rest) == 1 and isinstance(rest[0], ast.AsyncWith) and withs == [rest[0]] and isinstance(rest[0].items[0].optional_vars, ast.Name):
        tx = rest[0].items[0].optional_vars.id
        calls = [c for c in ast.walk(rest[0]) if isinstance(c, ast.Call) and isinstance(c.func, ast.Name) and c.func.id == fun]
        inner = [s for s in ast.walk(rest[0]) if isinstance(s, (ast.Try, ast.While, ast.For, ast.AsyncFor))]
        canonical = len(calls) == 1 and bool(calls[0].args) and isinstance(calls[0].args[0], ast.Name) and calls[0].args[0].id == tx and not inner
    if canonical:
        ctx.ok('R2', cons + '::retry outside start', 'retry decorator around `async with <db>.start() as tx: .. fun(tx, ..)`')
    else:
        # positive evidence for "the retry is not around the whole transaction"
        why = None
        inside_retry = [c for w_ in withs for c in ast.walk(w_) if isinstance(c, ast.Call) and (pf.dotted(c.func) or '').split('.')[-1] == 'retry_transient_mysql_errors']
        if inside_retry:
            why = f'`{pf.nsrc(inside_retry[0])[:80]}` applies the retry INSIDE `async with {dbname}.start()`: a retry re-runs the statements in a transaction that already failed (after a deadlock InnoDB has rolled it back)'
        for w_ in withs:
            for t in (x for x in ast.walk(w_) if isinstance(x, ast.Try)):
                if not any(isinstance(c, ast.Call) and isinstance(c.func, ast.Name) and c.func.id == fun for b in t.body for c in ast.walk(b)):
                    continue
                for h in t.handlers:
                    atoms = absdom.collect_test_atoms(h.body)
                    if len(atoms) > 6:
                        continue
                    keys = [absdom.atom_key(a) for a in atoms]
                    for val in absdom.valuations(keys):
                        o = absdom.walk_block(h.body, lambda a, val=val: val[absdom.atom_key(a)])
                        if o.kind != 'raise' and why is None:
                            why = (f'inside `async with {dbname}.start()` the handler `except {pf.nsrc(h.type) if h.type is not None else ""}` (line {h.lineno}) can end without raising '
                                   f'(`{o.kind}`): the error of the transaction body is swallowed while the transaction is open, the `async with` exits normally and COMMITs the partial attempt before it is run again')
        if why is None and not retried and withs and not any(isinstance(x, (ast.While, ast.For, ast.Try)) for x in ast.walk(tw)) and \
                not any((pf.dotted(d.func) if isinstance(d, ast.Call) else pf.dotted(d) or '').split('.')[-1] not in ('wraps',) for d in tw.decorator_list):
            why = 'transaction() does not retry at all: the wrapper opens the transaction and runs the function once, without the retry decorator'
        if why is not None:
            ctx.bad('R2', cons + '::retry outside start', 'the retry wrapper is not applied around `async with db.start() as tx: return await fun(tx, ...)`: ' + why, m.path, tw.lineno)
        else:
            _defer('transaction(): the shape of transformer.wrapper is not recognised; whether the retry encloses the whole transaction is not decided')
    meths, opening = _db_opening_methods(m)
    n = 0
    for name, fn in meths.items():
        is_gen = any(isinstance(x, (ast.Yield, ast.YieldFrom)) for x in pf.walk_shallow(fn))
        if not _retried(fn):
            continue
        n += 1
        c2 = f'{DB}::Database.{name}'
        ctx.check(not is_gen, 'R2', c2 + '::not a generator', 'an async generator is retried: rows already yielded would be yielded again', m.path, fn.lineno)
        if name in ('async_init',):
            continue
        params = fn.args.args[1:] + fn.args.kwonlyargs
        takes_tx = [a.arg for a in params if a.annotation is not None and 'Transaction' in pf.nsrc(a.annotation)] or [a.arg for a in params if a.arg == 'tx']
        if takes_tx:
            ctx.bad('R2', c2 + '::owns its transaction', f'a retried method takes an open transaction (`{takes_tx[0]}`): the retry re-executes on a connection whose transaction is in an unknown state', m.path, fn.lineno)
        elif name in opening:
            ctx.ok('R2', c2 + '::owns its transaction', 'opens its transaction inside the retry')
        else:
            direct = [c for c in ast.walk(fn) if isinstance(c, ast.Call) and isinstance(c.func, ast.Attribute) and c.func.attr in cf.EXEC_ATTRS]
            if direct:
                ctx.bad('R2', c2 + '::owns its transaction', f'a retried method does not open its own transaction inside the retry: `{pf.nsrc(direct[0])[:80]}` issues the statement on a cursor outside any '
                        'Transaction (no START TRANSACTION / COMMIT / ROLLBACK discipline of Transaction applies to it)', m.path, fn.lineno)
            else:
                _defer(f'Database.{name}: retried, but neither `self.start()` nor a statement execution was found in it')
    ctx.need(n >= 8, f'only {n} retried Database methods found')
    # whole-repository: nothing that takes an open Transaction is retried directly
    dirs = ['batch', 'gear', 'auth', 'ci', 'monitoring', 'web_common'] if ctx.tier == 'thorough' else ['batch/batch', 'gear/gear', 'auth/auth', 'ci/ci']
    k = 0
    for rel in pf.walk_py(dirs):
        mm = pf.load(rel)
        if 'retry_transient_mysql_errors' not in mm.src:
            continue
        for q, fn in mm.functions():
            if _retried(fn):
                k += 1
                params = [a.arg for a in fn.args.args]
                anns = [pf.nsrc(a.annotation) for a in fn.args.args if a.annotation is not None]
                bad = 'tx' in params or any('Transaction' in x for x in anns)
                if rel == DB and q == twq:
                    continue
                ctx.check(not bad, 'R2', f'{rel}::{q}::retried function takes no open transaction', 'a function receiving an open Transaction is retried: the retry re-executes on a connection whose '
                          'transaction is in an unknown state', mm.path, fn.lineno)
    ctx.unit('retried_functions', k)


def _calls_named(node: ast.AST, attr: str) -> List[ast.Call]:
    return [c for c in ast.walk(node) if isinstance(c, ast.Call) and isinstance(c.func, ast.Attribute) and c.func.attr == attr]


def _norm_sql(s: str) -> str:
    return ' '.join(s.upper().replace(';', ' ').split())


def _str_alternatives(m: pf.Module, fn: pf.FuncDef, e: ast.expr, depth: int = 0) -> Optional[List[str]]:
    """The string literals an expression can denote: a literal, a local / module constant holding one, either arm of a conditional expression."""
    if depth > 4:
        return None
    e = _module_const(m, pf.resolve_expr(fn, e))
    s_ = pf.const_str(e)
    if s_ is not None:
        return [s_]
    if isinstance(e, ast.IfExp):
        a, b = _str_alternatives(m, fn, e.body, depth + 1), _str_alternatives(m, fn, e.orelse, depth + 1)
        return None if a is None or b is None else a + b
    return None


def r3(ctx: Ctx, m: pf.Module) -> None:
    m0 = m
    try:
        m, _il = inline_methods(m0, 'Transaction', '_aexit_1')
    except Exception:   # the inliner is best effort: fall back to the function as written
        m = m0
    fn = m.func('Transaction._aexit_1')
    cons = f'{DB}::Transaction._aexit_1'
    trs = [s for s in fn.body if isinstance(s, ast.Try)]
    ctx.need(len(trs) == 1 and len(fn.args.args) >= 2, '_aexit_1: try not found')
    tr = trs[0]
    exc_param = fn.args.args[1].arg
    atoms = absdom.collect_test_atoms(tr.body)
    ctx.need(len(atoms) <= 6, '_aexit_1: too many tests')

    def exc_pol(a: ast.AST) -> Optional[bool]:
        """True: a <=> an exception is propagating; False: the opposite; None: another test."""
        cur, pol = a, True
        for _ in range(4):
            if isinstance(cur, ast.UnaryOp) and isinstance(cur.op, ast.Not):
                cur, pol = cur.operand, not pol
            elif isinstance(cur, ast.Compare) and len(cur.ops) == 1 and isinstance(cur.comparators[0], ast.Constant) and cur.comparators[0].value is None:
                if isinstance(cur.ops[0], (ast.IsNot, ast.NotEq)):
                    cur = cur.left
                elif isinstance(cur.ops[0], (ast.Is, ast.Eq)):
                    cur, pol = cur.left, not pol
                else:
                    return None
            elif isinstance(cur, ast.Name):
                if cur.id == exc_param:
                    return pol
                d = pf.single_def(fn, cur.id)
                if not isinstance(d, ast.expr):
                    return None
                cur = d
            else:
                return None
        return None
    pols = {absdom.atom_key(a): exc_pol(a) for a in atoms}
    free = [k for k, v in pols.items() if v is None]
    wrong = None
    did = {True: set(), False: set()}
    for exc in (True, False):
        for val in absdom.valuations(free):
            o = absdom.walk_block(tr.body, lambda a, exc=exc, val=val: (exc if pols[absdom.atom_key(a)] else not exc) if pols[absdom.atom_key(a)] is not None else val[absdom.atom_key(a)])
            ops = {c.func.attr for s in o.executed for c in ast.walk(s) if isinstance(c, ast.Call) and isinstance(c.func, ast.Attribute) and c.func.attr in ('commit', 'rollback')}
            did[exc] |= ops
            if exc and 'commit' in ops and wrong is None:
                wrong = f'with an exception propagating ({exc_param} set{", " + str(val) if val else ""}) the transaction is COMMITted'
            if not exc and 'rollback' in ops and wrong is None:
                wrong = f'without an exception ({exc_param} falsy{", " + str(val) if val else ""}) the transaction is rolled back'
    if wrong is None and ('rollback' not in did[True] or 'commit' not in did[False]):
        if not _calls_named(fn, 'rollback') and not _calls_named(fn, 'commit'):
            _defer('_aexit_1: commit / rollback calls not found (moved into a helper?)')
        else:
            wrong = f'on exit with an exception the calls made are {sorted(did[True]) or "none"}, without one {sorted(did[False]) or "none"}'
    if wrong is not None or ('rollback' in did[True] and 'commit' in did[False]):
        ctx.check(wrong is None, 'R3', cons + '::rollback or commit', 'on exit the transaction is not rolled back exactly when an exception is propagating and committed otherwise: ' + (wrong or ''), m.path, fn.lineno)
    # release in finally: the connection context manager (or a local holding it) is handed to some call inside `finally`
    ccm = {'conn_context_manager'}
    for n_, vals in pf.assignments(fn).items():
        if any(isinstance(v, ast.Attribute) and v.attr == 'conn_context_manager' for v in vals):
            ccm.add(n_)

    def releases(stmts: List[ast.stmt]) -> bool:
        for s_ in stmts:
            for c in ast.walk(s_):
                if isinstance(c, ast.Call) and any((isinstance(x, ast.Name) and x.id in ccm) or (isinstance(x, ast.Attribute) and x.attr == 'conn_context_manager') for a_ in c.args for x in ast.walk(a_)):
                    return True
        return False
    if releases(tr.finalbody):
        ctx.ok('R3', cons + '::release in finally', 'connection context manager handed to a release call in finally')
    elif releases(fn.body):
        ctx.bad('R3', cons + '::release in finally', 'the connection is not released in `finally`: when commit / rollback raises, the connection is never handed back', m.path, fn.lineno)
    else:
        _defer('_aexit_1: the release of the connection was not recognised')
    swallow = None
    for h in tr.handlers:
        hat = absdom.collect_test_atoms(h.body)
        if len(hat) > 6:
            continue
        for val in absdom.valuations([absdom.atom_key(a) for a in hat]):
            o = absdom.walk_block(h.body, lambda a, val=val: val[absdom.atom_key(a)])
            if o.kind != 'raise' and swallow is None:
                swallow = f'`except {pf.nsrc(h.type) if h.type is not None else ""}` at line {h.lineno} ends in `{o.kind}`'
    ctx.check(swallow is None, 'R3', cons + '::errors propagate', f'a failing commit/rollback is swallowed (the caller would believe the transaction committed): {swallow}', m.path, fn.lineno)
    # shielded
    m = m0
    ae = m.func('Transaction._aexit')
    inner_calls = [c for c in ast.walk(ae) if isinstance(c, ast.Call) and isinstance(c.func, ast.Attribute) and c.func.attr == '_aexit_1']
    par = m.parents()
    if not inner_calls:
        _defer('Transaction._aexit: the call of _aexit_1 was not found')
    else:
        def shielded(c: ast.Call) -> Optional[bool]:
            p = par.get(c)
            if isinstance(p, ast.Call) and (pf.dotted(p.func) or '').split('.')[-1] == 'shield' and c in p.args:
                return True
            if isinstance(p, ast.Await):
                return False
            if isinstance(p, (ast.Assign, ast.AnnAssign)):
                tgt = p.targets[0] if isinstance(p, ast.Assign) else p.target
                if isinstance(tgt, ast.Name):
                    uses = [x for x in ast.walk(ae) if isinstance(x, ast.Name) and x.id == tgt.id and isinstance(x.ctx, ast.Load)]
                    if uses and all(isinstance(par.get(u), ast.Call) and (pf.dotted(par[u].func) or '').split('.')[-1] == 'shield' for u in uses):
                        return True
            return None
        vs = [shielded(c) for c in inner_calls]
        if any(v is False for v in vs):
            ctx.bad('R3', f'{DB}::Transaction._aexit::shielded', 'commit/rollback is not shielded from cancellation: `_aexit_1(..)` is awaited directly, a cancelled request abandons the transaction half-way', m.path, ae.lineno)
        elif all(v for v in vs):
            ctx.ok('R3', f'{DB}::Transaction._aexit::shielded', 'asyncio.shield(self._aexit_1(..))')
        else:
            _defer('Transaction._aexit: whether _aexit_1 runs under asyncio.shield is not decided')
    cm = m.func('TransactionAsyncContextManager.__aexit__')
    fw = [c for c in ast.walk(cm) if isinstance(c, ast.Call) and isinstance(c.func, ast.Attribute) and c.func.attr == '_aexit']
    first = cm.args.args[1].arg if len(cm.args.args) > 1 else None
    if len(fw) != 1 or first is None:
        _defer('TransactionAsyncContextManager.__aexit__: the call of Transaction._aexit was not found')
    else:
        a0 = fw[0].args[0] if fw[0].args else next((k.value for k in fw[0].keywords if k.arg == 'exc_type'), None)
        ctx.check(isinstance(a0, ast.Name) and a0.id == first, 'R3', f'{DB}::TransactionAsyncContextManager.__aexit__', f'the exception type is not forwarded to the transaction exit (`{pf.nsrc(fw[0])}`): '
                  'a failed block would be committed', m.path, cm.lineno)
    ai = m.func('Transaction.async_init')
    starts = []
    for c in ast.walk(ai):
        if isinstance(c, ast.Call) and isinstance(c.func, ast.Attribute) and c.func.attr in cf.EXEC_ATTRS and c.args:
            for s_ in _str_alternatives(m, ai, c.args[0]) or []:
                starts.append(_norm_sql(s_))
    want = sorted(['START TRANSACTION READ ONLY', 'START TRANSACTION'])
    if not starts:
        _defer('Transaction.async_init: no literal statement found')
    else:
        ctx.check(sorted(set(starts)) == want, 'R3', f'{DB}::Transaction.async_init::starts transaction', f'a new Transaction issues {starts}', m.path, ai.lineno)
    di = m.func('Database.async_init')
    cp = [c for c in ast.walk(di) if isinstance(c, ast.Call) and (pf.dotted(c.func) or '').split('.')[-1] == 'create_database_pool']
    if len(cp) != 1:
        _defer('Database.async_init: the create_database_pool call was not found')
    else:
        kws = [k for k in cp[0].keywords if k.arg == 'autocommit']
        val: Optional[ast.expr] = kws[0].value if kws else None
        if val is None and not any(k.arg is None for k in cp[0].keywords):
            # the default of the parameter
            try:
                pool_fn = m.func('create_database_pool')
                names = [a.arg for a in pool_fn.args.args]
                if 'autocommit' in names:
                    i = names.index('autocommit') - (len(names) - len(pool_fn.args.defaults))
                    if len(cp[0].args) > names.index('autocommit'):
                        val = cp[0].args[names.index('autocommit')]
                    elif i >= 0:
                        val = pool_fn.args.defaults[i]
            except AnalysisError:
                val = None
        val = pf.resolve_expr(di, val) if val is not None else None
        if isinstance(val, ast.Constant) and isinstance(val.value, bool):
            ctx.check(val.value is False, 'R3', f'{DB}::Database.async_init::autocommit off', 'the pool is not created with autocommit=False (statements of a failed attempt would persist)', m.path, cp[0].lineno)
        else:
            _defer('Database.async_init: the value of autocommit is not a literal')


_Path = Tuple[Tuple[str, bool], ...]          # the IF decisions taken: (canonical condition text, polarity)
_MAX_WITNESSES = 48


class _TxnStates:
    """number of open transactions (-1 = closed twice / opened twice) -> some decision paths that lead there"""

    def __init__(self) -> None:
        self.d: Dict[int, List[_Path]] = {}

    def add(self, s: int, path: _Path) -> None:
        w = self.d.setdefault(s, [])
        if len(w) < _MAX_WITNESSES and path not in w:
            w.append(path)

    def merge(self, other: '_TxnStates') -> None:
        for s, ps in other.d.items():
            for p in ps:
                self.add(s, p)

    def items(self):
        return [(s, p) for s, ps in sorted(self.d.items()) for p in ps]


def _is_terminal_error(st: N) -> bool:
    # SIGNAL / RESIGNAL end the path with an error: what the caller's connection does with the open transaction is not a fact of this routine
    return st.kind in ('signal', 'resignal') or (st.kind == 'other' and str(getattr(st, 'text', '')).lstrip().upper().startswith(('RESIGNAL', 'SIGNAL')))


def _txn_exec(body: List[N], entry: _TxnStates, routine: str) -> Tuple[_TxnStates, Dict[Tuple[str, str], _TxnStates]]:
    """Abstract execution of a statement list over the number of open transactions.  Returns (states that fall through the end of the
    list, states that leave it early keyed by ('leave'|'iterate', label)).  RETURN / LEAVE of the routine's own outermost label end the
    routine; the caller of this function adds them to the final states."""
    cur = entry
    exits: Dict[Tuple[str, str], _TxnStates] = {}

    def out(kind: str, label: str, sts: _TxnStates) -> None:
        exits.setdefault((kind, (label or '').lower()), _TxnStates()).merge(sts)

    for st in body:
        if not cur.d:
            break
        nxt = _TxnStates()
        if st.kind == 'txn':
            for s, p in cur.items():
                if s < 0:
                    nxt.add(s, p)
                elif st.what == 'START TRANSACTION':
                    nxt.add(s + 1 if s == 0 else -1, p)
                else:
                    nxt.add(s - 1 if s == 1 else -1, p)
        elif st.kind == 'if':
            neg: _Path = ()
            for c, b in st.branches:
                sub = _TxnStates()
                for s, p in cur.items():
                    sub.add(s, p + neg + ((text(c), True),))
                f, ex = _txn_exec(b, sub, routine)
                nxt.merge(f)
                for (k, lab), sts in ex.items():
                    out(k, lab, sts)
                neg = neg + ((text(c), False),)
            sub = _TxnStates()
            for s, p in cur.items():
                sub.add(s, p + neg)
            if st.orelse is not None:
                f, ex = _txn_exec(st.orelse, sub, routine)
                nxt.merge(f)
                for (k, lab), sts in ex.items():
                    out(k, lab, sts)
            else:
                nxt.merge(sub)
        elif st.kind == 'block':
            f, ex = _txn_exec(st.body, cur, routine)
            nxt.merge(f)
            lab = (getattr(st, 'label', None) or '').lower()
            for (k, l2), sts in ex.items():
                if k == 'leave' and lab and l2 == lab:
                    nxt.merge(sts)
                else:
                    out(k, l2, sts)
        elif st.kind in ('loop', 'while', 'repeat'):
            lab = (getattr(st, 'label', None) or '').lower()
            for s, p in cur.items():
                one = _TxnStates()
                one.add(s, p)
                f, ex = _txn_exec(st.body, one, routine)
                again = [s2 for s2, _ in f.items()] + [s2 for (k, l2), sts in ex.items() if k == 'iterate' and lab and l2 == lab for s2, _ in sts.items()]
                if any(s2 != s for s2 in again):
                    # the next iteration would start with another number of open transactions: needs a loop invariant we do not compute
                    raise AnalysisError(f'{routine}: a loop changes the number of open transactions from one iteration to the next; transaction balance through this loop is not decided')
                if st.kind != 'loop':
                    nxt.add(s, p)          # WHILE / REPEAT end when their condition says so
                elif not any(k == 'leave' and lab and l2 == lab for (k, l2) in ex):
                    nxt.add(s, p)          # LOOP left by a handler / not at all: as before, continue with the loop-invariant state
                for (k, l2), sts in ex.items():
                    if lab and l2 == lab:
                        if k == 'leave':
                            nxt.merge(sts)
                    else:
                        out(k, l2, sts)
        elif st.kind == 'leave':
            out('leave', st.label, cur)
            cur = _TxnStates()
            continue
        elif st.kind == 'iterate':
            out('iterate', st.label, cur)
            cur = _TxnStates()
            continue
        elif st.kind == 'return':
            out('leave', '<routine>', cur)
            cur = _TxnStates()
            continue
        elif _is_terminal_error(st):
            cur = _TxnStates()
            continue
        else:
            nxt = cur
        cur = nxt
    return cur, exits


def _feasible(path: _Path) -> bool:
    """No condition is decided both ways on the path (the analysis is path-insensitive; a failing path that takes `IF c` and later the
    ELSE of the same `c` is not evidence)."""
    seen: Dict[str, bool] = {}
    for c, pol in path:
        if seen.setdefault(c, pol) != pol:
            return False
    return True


def _txn_paths(body: List[N], routine: str = '?') -> Tuple[List[int], List[int]]:
    """(numbers of open transactions possible when the routine ends; the subset reached on a path without contradictory decisions).
    -1 marks a double close / close without open / nested START.  A LEAVE whose label is not a block or loop inside the body can only
    name the routine's own outermost block (MySQL rejects unknown labels): it ends the routine."""
    entry = _TxnStates()
    entry.add(0, ())
    fall, exits = _txn_exec(body, entry, routine)
    final = _TxnStates()
    final.merge(fall)
    for (k, lab), sts in exits.items():
        if k == 'leave':
            final.merge(sts)
        else:
            raise AnalysisError(f'{routine}: ITERATE {lab} outside a loop of that label')
    ends = sorted(final.d)
    feasible = sorted(s for s, ps in final.d.items() if any(_feasible(p) for p in ps))
    return ends, feasible


def _is_open_transaction(m: pf.Module, fn: Optional[pf.FuncDef], receiver: str) -> bool:
    """Does `receiver` name an already open Transaction inside fn?  A parameter of a function decorated with @transaction(..) (its first
    one) or annotated Transaction, the target of `async with <x>.start(..) as t`, or - by the repository's convention - a plain name `tx`."""
    last = receiver.split('.')[-1]
    if '.' in receiver:
        return last == 'tx'
    for f in ([fn] if fn is not None else []):
        cur: Optional[ast.AST] = f
        par = m.parents()
        while cur is not None:
            if isinstance(cur, (ast.FunctionDef, ast.AsyncFunctionDef)):
                params = cur.args.posonlyargs + cur.args.args + cur.args.kwonlyargs
                for i_, a in enumerate(params):
                    if a.arg != receiver:
                        continue
                    if a.annotation is not None and 'Transaction' in pf.nsrc(a.annotation):
                        return True
                    decos = {((pf.dotted(d.func) if isinstance(d, ast.Call) else pf.dotted(d)) or '').split('.')[-1] for d in cur.decorator_list}
                    if i_ == 0 and 'transaction' in decos:
                        return True
                for w in ast.walk(cur):
                    if isinstance(w, (ast.AsyncWith, ast.With)):
                        for it in w.items:
                            if isinstance(it.optional_vars, ast.Name) and it.optional_vars.id == receiver and isinstance(it.context_expr, ast.Call) \
                                    and isinstance(it.context_expr.func, ast.Attribute) and it.context_expr.func.attr == 'start':
                                return True
            cur = par.get(cur)
    return last == 'tx'


def r4(ctx: Ctx) -> None:
    prog = sf.load_program()
    starts: Set[str] = set()
    for name, r in prog.routines.items():
        sts = list(sf.all_statements(r.ast.body))
        has = any(st.kind == 'txn' for st in sts)
        if any(st.kind == 'txn' and st.what == 'START TRANSACTION' for st in sts):
            starts.add(name)
        if r.kind == 'procedure' and has:
            ends, feasible = _txn_paths(r.ast.body, name)
            bad_ends = [s for s in feasible if s != 0]
            # a failing end state reached only on paths that decide one condition both ways is not evidence: decline
            ctx.need(bad_ends or ends == [0] or not ends, f'{name}: the only paths that leave {[s for s in ends if s != 0]} transactions open / close twice decide the same condition both ways; '
                     'transaction balance is not decided path-sensitively')
            ctx.check(not bad_ends, 'R4', f'sql::{name}::balanced transaction', f'some path through {name} leaves {ends} transactions open / closes twice: every path must end the transaction it started exactly once',
                      r.file, r.line)
        if r.kind in ('trigger', 'function'):
            ctx.check(not has, 'R4', f'sql::{name}::no transaction statements', f'{r.kind} {name} contains transaction statements', r.file, r.line)
    # procedures called from procedures must not touch the transaction
    for name, r in prog.routines.items():
        for st in sf.all_statements(r.ast.body):
            if st.kind == 'call':
                callee = st.name
                if callee in prog.routines:
                    has = any(x.kind == 'txn' for x in sf.all_statements(prog.routines[callee].ast.body))
                    ctx.check(not has, 'R4', f'sql::{name}::CALL {callee}', f'{callee} is called from inside {name}\'s transaction but issues transaction statements itself (the outer transaction would be '
                              'committed half way)', r.file, r.line_of(st))
    # Python: CALL on an open Transaction
    n_tx = n_db = 0
    for rel in pf.walk_py(['batch/batch', 'auth/auth', 'ci/ci', 'gear/gear']):
        m = pf.load(rel)
        if 'CALL ' not in m.src:
            continue
        for e in sf.embedded_in(m):
            if e.sql_text is None:
                continue
            for st in e.stmts():
                if st.kind != 'call':
                    continue
                if st.name not in prog.routines:
                    continue
                if _is_open_transaction(m, e.fn, e.receiver):
                    n_tx += 1
                    if st.name in starts:
                        # no write on the same transaction can have run before it in the same function
                        g = pf.cfg(e.fn) if e.fn is not None else None
                        here = g.node_of(e.call) if g is not None else []
                        earlier = []
                        for x in sf.embedded_in(m):
                            if x.fn is not e.fn or x is e or x.receiver != e.receiver or x.sql_text is None or not any(sf.written_tables(s2) or s2.kind == 'call' for s2 in x.stmts()):
                                continue
                            xn = g.node_of(x.call) if g is not None else []
                            if xn and here and any(h_.id in g.reachable_from(a_) for a_ in xn for h_ in here):
                                earlier.append(x)
                        ctx.check(not earlier, 'R4', f'{rel}::{e.qual}::tx CALL {st.name}', f'CALL {st.name} (which issues START TRANSACTION, implicitly committing) runs on an open Transaction after '
                                  f'the write at line {earlier[0].lineno if earlier else 0}: that write is committed even if the Python transaction later rolls back', m.path, e.lineno)
                    else:
                        ctx.ok('R4', f'{rel}::{e.qual}::tx CALL {st.name}', 'procedure has no transaction statements')
                else:
                    n_db += 1
                    ctx.ok('R4', f'{rel}::{e.qual}::db CALL {st.name}', 'fresh connection per call', nontrivial=True)
    ctx.need(n_tx >= 1 and n_db >= 8, f'CALL sites: {n_tx} on a Transaction, {n_db} on the Database')
    ctx.unit('call_sites', n_tx + n_db)


EXEC_ATTRS = cf.EXEC_ATTRS
BACKOFF_NAMES = ('sleep_before_try', 'sleep', 'retry_transient_errors', 'retry_transient_mysql_errors', 'retry_all_errors', 'retry_long_running')
PLAIN_DECORATORS = ('staticmethod', 'classmethod', 'wraps', 'abstractmethod', 'overload')
BENIGN_CURSOR_CALLEES = ('debug', 'info', 'warning', 'error', 'exception', 'log', 'print', 'repr', 'str', 'id', 'type', 'isinstance')


def _swallowing_finally(tr: ast.Try) -> Optional[ast.stmt]:
    """A `return` (or a `break`/`continue` that leaves the finally block) inside `finally` discards the exception in flight."""
    def rec(stmts: List[ast.stmt], in_loop: bool) -> Optional[ast.stmt]:
        for st in stmts:
            if isinstance(st, ast.Return) or (isinstance(st, (ast.Break, ast.Continue)) and not in_loop):
                return st
            if isinstance(st, (ast.FunctionDef, ast.AsyncFunctionDef, ast.ClassDef)):
                continue
            loop = in_loop or isinstance(st, (ast.For, ast.AsyncFor, ast.While))
            for fld in ('body', 'orelse', 'finalbody'):
                b = getattr(st, fld, None)
                if isinstance(b, list) and b and isinstance(b[0], ast.stmt):
                    r = rec(b, loop)
                    if r is not None:
                        return r
            for h in getattr(st, 'handlers', []) or []:
                r = rec(h.body, loop)
                if r is not None:
                    return r
        return None
    return rec(tr.finalbody, False)


def _stored_then_raised(m: pf.Module, t: ast.Try, h: ast.ExceptHandler) -> bool:
    """`except E as exc: saved = exc` (nothing else that leaves the handler) with an unconditional `raise saved` as the next effective
    statement after the `try`: the error still propagates on every path."""
    if not h.name:
        return False
    saved: Set[str] = set()
    for st in h.body:
        if isinstance(st, ast.Assign) and len(st.targets) == 1 and isinstance(st.targets[0], ast.Name) and isinstance(st.value, ast.Name) and st.value.id == h.name:
            saved.add(st.targets[0].id)
        elif not isinstance(st, (ast.Expr, ast.Pass)):
            return False
    if not saved or t.finalbody or t.orelse or len(t.handlers) != 1:
        return False
    parent = m.parents().get(t)
    for fld in ('body', 'orelse', 'finalbody'):
        blk = getattr(parent, fld, None)
        if isinstance(blk, list) and t in blk:
            for st in blk[blk.index(t) + 1:]:
                if isinstance(st, (ast.Expr, ast.Pass)) and not any(isinstance(x, ast.Await) for x in ast.walk(st)):
                    continue
                return isinstance(st, ast.Raise) and isinstance(st.exc, ast.Name) and st.exc.id in saved
    return False


def _retry_decorator(flow: 'cf.ExecFlow', m: pf.Module, d: ast.expr) -> Optional[bool]:
    """True: the decorator re-invokes / retries the function; False: known not to; None: unknown."""
    name = pf.dotted(d.func) if isinstance(d, ast.Call) else pf.dotted(d)
    last = (name or '').split('.')[-1]
    if 'retry' in last.lower() or 'retri' in last.lower():
        return True
    if last in PLAIN_DECORATORS:
        return False
    if name and '.' not in name:
        for st in m.tree.body:
            if isinstance(st, (ast.FunctionDef, ast.AsyncFunctionDef)) and st.name == name:
                return True if any(isinstance(x, (ast.While, ast.For, ast.AsyncFor)) for x in ast.walk(st)) else None
    return None


def r5(ctx: Ctx, m: pf.Module) -> None:
    tb = _tables(m)
    flow = cf.ExecFlow(m, 'Transaction', exclude_funcs=('retry_transient_mysql_errors', 'transaction'))
    # units that issue a statement on the open transaction: executing Transaction methods and the module-level helpers they reach
    reach: Set[cf.Key] = {k for k in flow.executing if k[0] == 'm'}
    work = list(reach)
    while work:
        k = work.pop()
        for c in ast.walk(flow.units[k]):
            if isinstance(c, ast.Call):
                cal = flow._callee(c, k)
                if cal is not None and cal in flow.executing and cal not in reach:
                    reach.add(cal)
                    work.append(cal)
    ctx.need(len([k for k in reach if k[0] == 'm']) >= 7, f'Transaction: only {sorted(flow.label(k) for k in reach)} execute statements')
    ctx.unit('executing_units', len(reach))
    helper_params = {flow.label(k): sorted(flow.exec_params[k] | flow.cursor_params[k]) for k in reach if flow.exec_params[k] | flow.cursor_params[k]}
    if helper_params:
        ctx.extra_cov['c27_execute_helpers'] = helper_params

    for k in sorted(reach):
        f = flow.units[k]
        n = f.name
        cons = f'{DB}::{flow.label(k)}'
        verdicts = [(d, _retry_decorator(flow, m, d)) for d in f.decorator_list]
        unknown = [pf.nsrc(d) for d, v in verdicts if v is None]
        retried = [pf.nsrc(d) for d, v in verdicts if v]
        ctx.check(not retried, 'R5', cons + '::not retried', f'{flow.label(k)} executes statements on the open transaction and is wrapped in `@{retried[0] if retried else ""}`: the statement would be re-issued on a '
                  'transaction in an unknown state', m.path, f.lineno)
        ctx.need(not unknown or retried, f'{flow.label(k)}: decorator {unknown} on a statement-executing function is not recognised')
        sleeps = [c for c in ast.walk(f) if isinstance(c, ast.Call) and ((pf.dotted(c.func) or '').split('.')[-1] in BACKOFF_NAMES
                                                                          or (isinstance(c.func, ast.Call) and (pf.dotted(c.func.func) or '').split('.')[-1] in BACKOFF_NAMES))]
        ctx.check(not sleeps, 'R5', cons + '::no in-transaction back-off', f'{n} sleeps/retries inside the open transaction (line {sleeps[0].lineno if sleeps else 0}): statement-level retry is not atomic -- after a deadlock or lock '
                  'wait timeout the server has rolled back earlier statements, and the re-issued statement is then committed without them', m.path, f.lineno)
        tries = [t for t in ast.walk(f) if isinstance(t, ast.Try) and flow.executes(k, ast.Module(body=t.body, type_ignores=[]))]
        bad: List[Tuple[ast.Try, str]] = []
        for t in tries:
            for h in t.handlers:
                if not flow.always_raises(k, h.body) and not _stored_then_raised(m, t, h):
                    bad.append((t, f'the handler `except {pf.nsrc(h.type) if h.type is not None else ""}` (line {h.lineno}) has a path that does not re-raise' + _nonraising_witness(m, t, h, tb)))
                    break
            fin = _swallowing_finally(t)
            if fin is not None:
                bad.append((t, f'`{pf.nsrc(fin)}` in its `finally` (line {fin.lineno}) discards the exception in flight'))
        for w in ast.walk(f):
            if isinstance(w, (ast.With, ast.AsyncWith)) and any(isinstance(i.context_expr, ast.Call) and (pf.dotted(i.context_expr.func) or '').split('.')[-1] == 'suppress' for i in w.items) \
                    and flow.executes(k, ast.Module(body=w.body, type_ignores=[])):
                bad.append((w, f'`with {pf.nsrc(w.items[0].context_expr)}` suppresses the error of the statement'))  # type: ignore[arg-type]
        ctx.check(not bad, 'R5', cons + '::statement failure aborts', f'{n}: the block at line {bad[0][0].lineno if bad else 0} encloses a statement execution and {bad[0][1] if bad else ""}: a failed '
                  'statement is swallowed or re-issued inside the still-open transaction (after a deadlock InnoDB has already rolled the whole transaction back: the statements before it are lost, '
                  'the re-issued one and those after it are committed, and the caller sees success)', m.path, f.lineno)
    # a cursor / bound execute method handed to code outside this module cannot be followed
    for k, c, what in flow.escapes:
        if k not in reach and not (k[0] == 'm'):
            continue
        callee = (pf.dotted(c.func) or pf.nsrc(c.func)).split('.')[-1]
        if callee in BACKOFF_NAMES or (what == 'cursor' and callee in BENIGN_CURSOR_CALLEES):
            continue
        raise AnalysisError(f'{flow.label(k)}: `{pf.nsrc(c)[:100]}` hands a cursor / statement-executing callable to `{pf.nsrc(c.func)}`, which is not defined in {DB}')


def _exclusive(m: pf.Module, a: ast.AST, b: ast.AST, stop: ast.AST) -> bool:
    """a and b sit in different arms of one `if` (so at most one of them runs per call)."""
    par = m.parents()

    def arms(x: ast.AST) -> List[Tuple[int, str]]:
        out = []
        cur = x
        while cur is not stop and cur in par:
            p = par[cur]
            if isinstance(p, ast.If):
                if any(cur is s_ for s_ in p.body):
                    out.append((id(p), 'body'))
                elif any(cur is s_ for s_ in p.orelse):
                    out.append((id(p), 'orelse'))
            cur = p
        return out
    aa, bb = dict(arms(a)), dict(arms(b))
    return any(k in bb and bb[k] != v for k, v in aa.items())


def r6(ctx: Ctx, m: pf.Module) -> None:
    meths, opening = _db_opening_methods(m)

    def opens_of(fn) -> List[Tuple[ast.AST, str]]:
        out: List[Tuple[ast.AST, str]] = []
        me = fn.args.args[0].arg if fn.args.args else 'self'
        for c in pf.walk_shallow(fn):
            if isinstance(c, ast.Call) and isinstance(c.func, ast.Attribute) and isinstance(c.func.value, ast.Name) and c.func.value.id == me:
                if c.func.attr == 'start':
                    out.append((c, 'self.start()'))
                elif c.func.attr in opening:
                    out.append((c, f'self.{c.func.attr}()'))
        return out
    ctx.need(len(opening) >= 9, f'Database: only {sorted(opening)} open transactions')
    for n in sorted(opening):
        f = meths[n]
        cons = f'{DB}::Database.{n}'
        ops = opens_of(f)
        par = m.parents()
        in_loop = []
        for c, what in ops:
            x = c
            while x is not f:
                p = par[x]
                if isinstance(p, (ast.For, ast.AsyncFor, ast.While)) and x is not getattr(p, 'iter', None) or isinstance(p, (ast.ListComp, ast.SetComp, ast.DictComp, ast.GeneratorExp)):
                    in_loop.append((c, what))
                    break
                x = p
        # two openings count as two transactions per call only when both can run in one call
        together = [(a, b) for i_, (a, _) in enumerate(ops) for (b, _) in ops[i_ + 1:] if not _exclusive(m, a, b, f)]
        ctx.check(not together and not in_loop, 'R6', cons + '::one transaction per operation', f'{n} opens {len(ops)} transactions per call ({[w for _, w in ops]}{", in a loop" if in_loop else ""}): a failure between two of '
                  'them leaves the earlier ones committed -- the operation is no longer all-or-nothing', m.path, f.lineno)
    em = meths.get('execute_many')
    ctx.need(em is not None, 'Database.execute_many not found')
    me = em.args.args[0].arg if em.args.args else 'self'
    fwd = [c for c in ast.walk(em) if isinstance(c, ast.Call) and isinstance(c.func, ast.Attribute) and c.func.attr == 'execute_many' and not (isinstance(c.func.value, ast.Name) and c.func.value.id == me)]
    arr = em.args.args[2].arg if len(em.args.args) > 2 else None
    cons = f'{DB}::Database.execute_many::whole array in one transaction'
    if not any(w == 'self.start()' for _, w in opens_of(em)):
        ctx.ok('R6', cons, 'delegates to another single-transaction method (covered by one transaction per operation)')
    elif len(fwd) == 1 and arr is not None:
        a1 = fwd[0].args[1] if len(fwd[0].args) >= 2 else next((k.value for k in fwd[0].keywords if k.arg in ('args_array', 'args')), None)
        a1 = pf.resolve_expr(em, a1) if a1 is not None else None
        if isinstance(a1, ast.Name) and a1.id == arr:
            ctx.ok('R6', cons, f'{pf.nsrc(fwd[0])}')
        elif a1 is not None and arr in pf.names_in(a1) and isinstance(a1, (ast.Subscript, ast.ListComp, ast.GeneratorExp)):
            ctx.bad('R6', cons, f'Database.execute_many does not hand its whole argument array to a single Transaction.execute_many (`{pf.nsrc(fwd[0])[:90]}` passes a part of it)', m.path, em.lineno)
        else:
            _defer('Database.execute_many: what is forwarded to Transaction.execute_many is not recognised')
    else:
        _defer('Database.execute_many: the forwarding call to Transaction.execute_many was not found')


# --------------------------------------------------------------------------------------
# R7 / R8: no handler on the retry path changes the retryability of the error the classifier sees
# --------------------------------------------------------------------------------------
# abstract domain of the caught exception: (class, retryable by the classifier)
K_OP_T, K_OP_F, K_IN_T, K_IN_F, K_OTHER, K_NON = ('OperationalError', True), ('OperationalError', False), ('InternalError', True), ('InternalError', False), ('OtherMySQL', False), ('NonMySQL', False)
KINDS = (K_OP_T, K_OP_F, K_IN_T, K_IN_F, K_OTHER, K_NON)
MYSQL_KINDS = frozenset(KINDS[:5])
WITNESS = {K_OP_T: 'pymysql.err.OperationalError(1213, "Deadlock found when trying to get lock")', K_OP_F: 'pymysql.err.OperationalError(1317, "Query execution was interrupted")',
           K_IN_T: 'pymysql.err.InternalError(1205, "Lock wait timeout exceeded")', K_IN_F: 'pymysql.err.InternalError(1030, "Got error 28 from storage engine")',
           K_OTHER: 'pymysql.err.IntegrityError(1062, "Duplicate entry")', K_NON: 'asyncio.TimeoutError()'}
# pymysql.err hierarchy (trusted): MySQLError > {Warning, Error > {InterfaceError, DatabaseError > {DataError, OperationalError, IntegrityError, InternalError, ProgrammingError, NotSupportedError}}}
MYSQL_ROOTS = ('MySQLError', 'Error')
MYSQL_LEAVES = ('IntegrityError', 'ProgrammingError', 'DataError', 'NotSupportedError', 'InterfaceError', 'Warning')
BUILTIN_EXC = {n for n in dir(builtins) if isinstance(getattr(builtins, n), type) and issubclass(getattr(builtins, n), BaseException)}


def _exc_class(m: pf.Module, e: Optional[ast.expr], depth: int = 0) -> Optional[str]:
    """'ANY' (Exception/BaseException), 'mysql:<Class>', 'nonmysql', or None when the class cannot be resolved."""
    if e is None:
        return 'ANY'
    d = pf.dotted(e)
    if d is None or depth > 4:
        return None
    parts = d.split('.')
    imp = m.imports()
    if parts[0] in imp:
        full = (imp[parts[0]] + ('.' + '.'.join(parts[1:]) if parts[1:] else '')).lstrip('.')
        if full.split('.')[0] in ('pymysql', 'aiomysql'):
            name = full.split('.')[-1]
            if name in MYSQL_ROOTS + MYSQL_LEAVES + ('DatabaseError', 'OperationalError', 'InternalError'):
                return 'mysql:' + name
            return None
        return 'nonmysql'
    if len(parts) == 1:
        for c in m.tree.body:
            if isinstance(c, ast.ClassDef) and c.name == d:
                bs = [_exc_class(m, b, depth + 1) for b in c.bases]
                if not bs or any(b is None for b in bs):
                    return None
                my = [b for b in bs if b.startswith('mysql:')]
                return my[0] if my else 'nonmysql'
        if d in ('Exception', 'BaseException'):
            return 'ANY'
        if d in BUILTIN_EXC:
            return 'nonmysql'
    return None


def _kinds_of(cls: str) -> Tuple[FrozenSet, FrozenSet]:
    """(kinds an instance test on the class may accept, kinds it accepts entirely)."""
    if cls == 'ANY':
        return frozenset(KINDS), frozenset(KINDS)
    if cls == 'nonmysql':
        return frozenset([K_NON]), frozenset()
    name = cls.split(':')[1]
    if name in MYSQL_ROOTS:
        return MYSQL_KINDS, MYSQL_KINDS
    if name == 'DatabaseError':
        return MYSQL_KINDS, frozenset([K_OP_T, K_OP_F, K_IN_T, K_IN_F])
    if name == 'OperationalError':
        return frozenset([K_OP_T, K_OP_F]), frozenset([K_OP_T, K_OP_F])
    if name == 'InternalError':
        return frozenset([K_IN_T, K_IN_F]), frozenset([K_IN_T, K_IN_F])
    return frozenset([K_OTHER]), frozenset()


def _type_kinds(m: pf.Module, t: Optional[ast.expr]) -> Optional[Tuple[FrozenSet, FrozenSet]]:
    elts = t.elts if isinstance(t, ast.Tuple) else [t]
    may: Set = set()
    full: Set = set()
    for e in elts:
        c = _exc_class(m, e)
        if c is None:
            return None
        a, b = _kinds_of(c)
        may |= a
        full |= b
    return frozenset(may), frozenset(full)


class _Tables:
    def __init__(self, op: Set[int], it: Set[int]):
        self.codes = {'OperationalError': op, 'InternalError': it}
        self.names = {'operational_error_retry_codes': 'OperationalError', 'internal_error_retry_codes': 'InternalError'}


ERRTEXT = {1213: 'Deadlock found when trying to get lock', 1205: 'Lock wait timeout exceeded', 1040: 'Too many connections', 2003: "Can't connect to MySQL server", 2013: 'Lost connection to MySQL server during query',
           1317: 'Query execution was interrupted', 1030: 'Got error 28 from storage engine', 1062: 'Duplicate entry', 1064: 'You have an error in your SQL syntax', 1146: "Table doesn't exist"}
CLASSIFIER = 'exception_log_level_if_retryable'


def _mod_of(m: pf.Module, a: ast.AST) -> pf.Module:
    """Atoms that come from an inlined predicate helper are resolved in the module that defines the helper."""
    return getattr(a, cf.MOD_ATTR, m)


def _code_set(m: pf.Module, op: ast.cmpop, right: ast.expr, tb: _Tables) -> Optional[Set[int]]:
    """The set S of error codes such that `exc.args[0] <op> right` is `code in S` (Eq/In) resp. `code not in S` (NotEq/NotIn)."""
    if isinstance(op, (ast.Eq, ast.NotEq)):
        if isinstance(right, ast.Constant) and isinstance(right.value, int) and not isinstance(right.value, bool):
            return {right.value}
        return None
    if isinstance(op, (ast.In, ast.NotIn)):
        cs = _int_tuple(right)
        if cs is not None:
            return cs
        d = pf.dotted(right)
        if d is None:
            return None
        last = d.split('.')[-1]
        if '.' not in d:
            try:
                cs = _int_tuple(m.global_assign(d))
            except AnalysisError:
                cs = None
            if cs is not None:
                return cs
        if last in tb.names:
            return set(tb.codes[tb.names[last]])
    return None


def _code_test(a: ast.AST, nm: str) -> Optional[Tuple[ast.cmpop, ast.expr]]:
    if isinstance(a, ast.NamedExpr):
        a = a.value
    if isinstance(a, ast.Compare) and len(a.ops) == 1:
        left = a.left.value if isinstance(a.left, ast.NamedExpr) else a.left
        if pf.nsrc(left) == f'{nm}.args[0]':
            return a.ops[0], a.comparators[0]
    return None


def _mentioned_codes(m: pf.Module, atoms: List[ast.AST], nm: Optional[str], tb: _Tables) -> Set[int]:
    out: Set[int] = set()
    if nm is None:
        return out
    for a in atoms:
        ct = _code_test(a, nm)
        if ct is not None:
            cs = _code_set(_mod_of(m, a), ct[0], ct[1], tb)
            if cs is not None:
                out |= cs
    return out


def _refine(kinds: Set, mentioned: Set[int], tb: _Tables) -> List[Tuple]:
    """Abstract error kinds (class, accepted by the classifier, code): every code a test of the handler mentions is its own class, the
    remaining codes of a class fall into `retryable, not mentioned` / `not retryable, not mentioned` (code None)."""
    out: List[Tuple] = []
    for b in KINDS:
        if b not in kinds:
            continue
        if b[0] in tb.codes:
            table = tb.codes[b[0]]
            for c in sorted(mentioned):
                if (c in table) == b[1]:
                    out.append((b[0], b[1], c))
            if not b[1] or (table - mentioned):
                out.append((b[0], b[1], None))
        else:
            out.append((b[0], b[1], None))
    return out


def _witness(k: Tuple, tb: _Tables, mentioned: Set[int]) -> str:
    if k[0] in tb.codes:
        code = k[2] if len(k) > 2 else None
        if code is None:
            table = tb.codes[k[0]]
            pool = [c for c in (1213, 1205, 2013, 1040, 2003) + tuple(sorted(table)) if c in table] if k[1] else [c for c in (1317, 1030, 1064, 1146, 1105, 1792) if c not in table]
            pool = [c for c in pool if c not in mentioned]
            code = pool[0] if pool else None
        if code is not None:
            return f'pymysql.err.{k[0]}({code}, "{ERRTEXT.get(code, "...")}")'
    return WITNESS[(k[0], k[1])]


def _atom_value(m: pf.Module, a: ast.AST, nm: Optional[str], k: Tuple, tb: _Tables) -> Optional[bool]:
    """Value of a handler test atom on the abstract caught exception k = (class, retryable, code | None), None = not determined by k (free boolean)."""
    m = _mod_of(m, a)
    if isinstance(a, ast.NamedExpr):
        a = a.value
    if nm is None:
        return None
    cl = f'{CLASSIFIER}({nm})'
    if pf.nsrc(a) == cl or (isinstance(a, ast.Call) and len(a.args) == 1 and not a.keywords and pf.nsrc(a.args[0]) == nm and (pf.dotted(a.func) or '').split('.')[-1] == CLASSIFIER):
        return k[1]
    if isinstance(a, ast.Compare) and len(a.ops) == 1:
        left, op, right = a.left, a.ops[0], a.comparators[0]
        if isinstance(left, ast.NamedExpr):
            left = left.value
        if pf.nsrc(left) == cl and isinstance(right, ast.Constant) and right.value is None and isinstance(op, (ast.Is, ast.IsNot, ast.Eq, ast.NotEq)):
            return (not k[1]) if isinstance(op, (ast.Is, ast.Eq)) else k[1]
        if pf.nsrc(left) == f'{nm}.args[0]' and k[0] in tb.codes:
            cs = _code_set(m, op, right, tb)
            if cs is None:
                return None
            code = k[2] if len(k) > 2 else None
            # code None: some code no test of the handler mentions (every resolvable comparator set is part of `mentioned`)
            res = (code in cs) if code is not None else False
            return (not res) if isinstance(op, (ast.NotEq, ast.NotIn)) else res
    if isinstance(a, ast.Call) and pf.dotted(a.func) == 'isinstance' and len(a.args) == 2 and pf.nsrc(a.args[0]) == nm:
        tk = _type_kinds(m, a.args[1])
        if tk is None:
            return None
        may, full = tk
        if (k[0], k[1]) not in may:
            return False
        if (k[0], k[1]) in full:
            return True
    return None


def _raised_retryable(m: pf.Module, e: ast.expr, tb: _Tables) -> Optional[bool]:
    """Does the classifier accept the freshly constructed exception `e`?  None = cannot tell."""
    cls = _exc_class(m, e.func if isinstance(e, ast.Call) else e)
    if cls is None:
        return None
    if cls in ('ANY', 'nonmysql'):
        return False
    name = cls.split(':')[1]
    if name not in tb.codes:
        return False
    if isinstance(e, ast.Call) and e.args and isinstance(e.args[0], ast.Constant) and isinstance(e.args[0].value, int) and not e.keywords:
        return e.args[0].value in tb.codes[name]
    if isinstance(e, ast.Call) and not e.args and not e.keywords:
        return False    # exc.args == () -> the classifier's exc.args[0] raises IndexError: not retried either
    return None


class _Row:
    """One row of a handler's truth table: abstract error kind x valuation of the undetermined tests -> outcome."""
    def __init__(self, k: Tuple, full: Dict[str, bool], outcome: absdom.Outcome, free_mentions: List[str]):
        self.k, self.full, self.outcome, self.free_mentions = k, full, outcome, free_mentions


def _handler_table(m: pf.Module, tr: ast.Try, h: ast.ExceptHandler, tb: _Tables) -> Tuple[List[_Row], Set[int], int, List[str]]:
    """(rows, codes mentioned, number of test atoms, predicate helpers inlined).  Raises AnalysisError when the handler cannot be tabulated."""
    tk = _type_kinds(m, h.type) if h.type is not None else (frozenset(KINDS), frozenset(KINDS))
    if tk is None:
        raise AnalysisError(f'handler `except {pf.nsrc(h.type)}` at line {h.lineno}: exception class not resolved')
    kinds = set(tk[0])
    for prev in tr.handlers:
        if prev is h:
            break
        pk = _type_kinds(m, prev.type) if prev.type is not None else (frozenset(KINDS), frozenset(KINDS))
        if pk is not None:
            kinds -= pk[1]
    nm = h.name
    body0, inlined0 = cf.inline_handler_helpers(m, h)
    body, inlined = cf.inline_handler_tests(m, body0, nm, keep=(CLASSIFIER,))
    inlined = inlined0 + inlined
    atoms = absdom.collect_test_atoms(body)
    mentioned = _mentioned_codes(m, atoms, nm, tb)
    rows: List[_Row] = []
    for k in _refine(kinds, mentioned, tb):
        det = {absdom.atom_key(a): _atom_value(m, a, nm, k, tb) for a in atoms}
        free = [key for key, v in det.items() if v is None]
        if len(free) > 8:
            raise AnalysisError(f'handler at line {h.lineno}: {len(free)} undetermined tests')
        free_mentions = [key for key in free if nm and any(isinstance(n, ast.Name) and n.id == nm for a in atoms if absdom.atom_key(a) == key for n in ast.walk(a))]
        for val in absdom.valuations(free):
            full = dict(det)
            full.update(val)
            o = absdom.walk_block(body, lambda a, full=full: bool(full[absdom.atom_key(a)]))
            rows.append(_Row(k, {key: bool(v) for key, v in full.items()}, o, free_mentions))
    return rows, mentioned, len(atoms), inlined


def _path_text(full: Dict[str, bool]) -> str:
    cond = [f'{key}={v}' for key, v in full.items()]
    return f' [path: {", ".join(cond)}]' if cond else ''


def _nonraising_witness(m: pf.Module, tr: ast.Try, h: ast.ExceptHandler, tb: _Tables) -> str:
    """Text naming an abstract error for which the handler ends without raising (for messages only; '' when the table cannot be built)."""
    try:
        rows, mentioned, _, _ = _handler_table(m, tr, h, tb)
    except AnalysisError:
        return ''
    quiet = [r for r in rows if r.outcome.kind != 'raise']
    if not quiet:
        return ''
    # prefer a row that the tests decide, and a deadlock (the case in which InnoDB rolls the whole transaction back)
    quiet.sort(key=lambda r: (bool(r.free_mentions), not (len(r.k) > 2 and r.k[2] == 1213), not r.k[1]))
    r = quiet[0]
    return f': {_witness(r.k, tb, mentioned)} raised by the statement leaves the handler by `{r.outcome.kind}`' + _path_text(r.full)


def _handler_verdict(m: pf.Module, tr: ast.Try, h: ast.ExceptHandler, tb: _Tables) -> Tuple[str, str]:
    """('ok'|'bad', text).  Raises AnalysisError when the handler cannot be decided."""
    pure = all(isinstance(s, ast.Raise) and s.exc is None for s in h.body)
    if pure:
        return 'ok', 're-raises unchanged'
    nm = h.name
    rows, mentioned, n_atoms, inlined = _handler_table(m, tr, h, tb)
    stores = [s for s in ast.walk(ast.Module(body=h.body, type_ignores=[])) if isinstance(s, (ast.Assign, ast.AnnAssign, ast.AugAssign)) and nm and s.value is not None and nm in pf.names_in(s.value)]
    problems: List[str] = []
    undecidable: List[str] = []
    for row in rows:
        k, o = row.k, row.outcome
        why = None
        wit = _witness(k, tb, mentioned)
        if o.kind == 'raise':
            ex = o.node.exc
            same = ex is None or (isinstance(ex, ast.Name) and ex.id == nm) or \
                (isinstance(ex, ast.Call) and isinstance(ex.func, ast.Attribute) and ex.func.attr == 'with_traceback' and isinstance(ex.func.value, ast.Name) and ex.func.value.id == nm)
            if same:
                continue
            r = _raised_retryable(m, ex, tb)
            if r is None:
                undecidable.append(f'`{pf.nsrc(o.node)[:90]}`: cannot tell whether the classifier accepts the raised exception')
                continue
            if r and not k[1]:
                why = (f'{wit} raised inside the `try` is replaced by `{pf.nsrc(ex)[:110]}`, which the classifier accepts: an error that is not a deadlock / lock-wait timeout / lost connection / '
                       'connection limit is retried (with unbounded back-off) and never reported to the caller')
            elif not r and k[1]:
                why = (f'{wit} raised inside the `try` is replaced by `{pf.nsrc(ex)[:110]}`, which the classifier rejects: the transient error is reported to the caller instead of the '
                       'transaction being retried')
        else:
            if k[1]:
                if stores and o.kind == 'fall':
                    undecidable.append(f'the handler stores `{nm}` and falls through; a later re-raise is not tracked')
                    continue
                why = (f'{wit} raised inside the `try` is swallowed (handler path ends in `{o.kind}`): the transient error neither reaches the retry wrapper nor aborts the attempt')
        if why is not None:
            if row.free_mentions:
                undecidable.append(f'verdict depends on tests of `{nm}` that are not interpreted: {row.free_mentions}')
            else:
                problems.append(why + _path_text(row.full))
    if undecidable and not problems:
        raise AnalysisError(f'handler `except {pf.nsrc(h.type) if h.type else ""}` at line {h.lineno}: ' + undecidable[0])
    if problems:
        return 'bad', problems[0]
    n_kinds = len({r.k for r in rows})
    return 'ok', f'{n_kinds} abstract error kinds x {n_atoms} tests' + (f' (helpers inlined: {sorted(set(inlined))})' if inlined else '') + ': retryability preserved on every path'


def _handler_sites(m: pf.Module, fns: List[Tuple[str, pf.FuncDef]]) -> List[Tuple[str, pf.FuncDef, ast.Try, ast.ExceptHandler, str]]:
    out = []
    for q, fn in fns:
        seen: Dict[str, int] = {}
        for t in sorted((t for t in pf.walk_shallow(fn) if isinstance(t, ast.Try)), key=lambda t: (t.lineno, t.col_offset)):
            for h in t.handlers:
                ty = pf.nsrc(h.type) if h.type is not None else '<bare>'
                seen[ty] = seen.get(ty, 0) + 1
                out.append((q, fn, t, h, f'except {ty}' + (f' #{seen[ty]}' if seen[ty] > 1 else '')))
    return out


def _tables(m: pf.Module) -> _Tables:
    op = _int_tuple(m.global_assign('operational_error_retry_codes'))
    it = _int_tuple(m.global_assign('internal_error_retry_codes'))
    if op is None or it is None:
        raise AnalysisError('retry code tables are not literal tuples')
    return _Tables(op, it)


BACKGROUND = ('ensure_future', 'create_task')


def r7(ctx: Ctx, m: pf.Module) -> None:
    tb = _tables(m)
    par = m.parents()
    fns = m.functions()
    # functions whose every use in the module is the direct argument of a background-task spawn are not on the retry path
    background: Set[str] = set()
    for q, fn in fns:
        if '.' in q:
            continue
        uses = [n for n in ast.walk(m.tree) if isinstance(n, ast.Name) and n.id == q and isinstance(n.ctx, ast.Load)]
        def spawned(n: ast.Name) -> bool:
            c = par.get(n)
            if not (isinstance(c, ast.Call) and c.func is n):
                return False
            sp = par.get(c)
            return isinstance(sp, ast.Call) and c in sp.args and (pf.dotted(sp.func) or '').split('.')[-1] in BACKGROUND
        if uses and all(spawned(n) for n in uses):
            background.add(q)
    scope = [(q, fn) for q, fn in fns if q != _returned_inner(m, 'retry_transient_mysql_errors')[0] and q.split('.')[0] not in background]
    n = 0
    for q, fn, tr, h, label in _handler_sites(m, scope):
        n += 1
        verdict, text_ = _handler_verdict(m, tr, h, tb)
        ctx.check(verdict == 'ok', 'R7', f'{DB}::{q}::{label}', f'{q}: {text_}', m.path, h.lineno, detail=text_)
    for q, fn in scope:
        for st in pf.walk_shallow(fn):
            if not isinstance(st, ast.Raise) or st.exc is None:
                continue
            x: ast.AST = st
            in_handler = False
            while x is not fn:
                x = par[x]
                if isinstance(x, ast.ExceptHandler):
                    in_handler = True
            if in_handler:
                continue
            r = _raised_retryable(m, st.exc, tb)
            if isinstance(st.exc, ast.Name) and r is None:
                continue    # re-raise of a stored exception object
            n += 1
            if r is None:
                c = _exc_class(m, st.exc.func if isinstance(st.exc, ast.Call) else st.exc)
                ctx.need(c is not None and c.startswith('mysql:'), f'{q}: cannot resolve the class of `{pf.nsrc(st)[:90]}`')
                raise AnalysisError(f'{q}: `{pf.nsrc(st)[:90]}` constructs a MySQL error whose code is not a literal')
            ctx.check(not r, 'R7', f'{DB}::{q}::raise {pf.nsrc(st.exc.func if isinstance(st.exc, ast.Call) else st.exc)}',
                      f'{q}: `{pf.nsrc(st)[:120]}` fabricates an error the retry classifier accepts: a condition that is not one of the transient MySQL errors makes every retried operation loop with back-off',
                      m.path, st.lineno)
    ctx.need(n >= 3, f'DB layer: only {n} handlers / raise sites found')
    ctx.unit('db_layer_handlers', n)


def _in_tx_functions(mm: pf.Module) -> List[Tuple[str, pf.FuncDef]]:
    out = []
    for q, fn in mm.functions():
        decos = [pf.dotted(d.func) if isinstance(d, ast.Call) else pf.dotted(d) for d in fn.decorator_list]
        names = {(d or '').split('.')[-1] for d in decos}
        params = [a.arg for a in fn.args.posonlyargs + fn.args.args + fn.args.kwonlyargs]
        if names & {'transaction', 'retry_transient_mysql_errors'} or 'tx' in params:
            out.append((q, fn))
    return out


def r8(ctx: Ctx, m: pf.Module) -> None:
    tb = _tables(m)
    dirs = ['batch', 'gear', 'auth', 'ci', 'monitoring', 'web_common', 'website', 'notebook'] if ctx.tier == 'thorough' else ['batch/batch', 'gear/gear', 'auth/auth', 'ci/ci']
    n = 0
    for rel in pf.walk_py(dirs):
        if rel == DB:
            continue
        try:
            mm = pf.load(rel)
        except (AnalysisError, SyntaxError):
            continue
        if 'tx' not in mm.src and 'transaction' not in mm.src:
            continue
        for q, fn, tr, h, label in _handler_sites(mm, _in_tx_functions(mm)):
            n += 1
            verdict, text_ = _handler_verdict(mm, tr, h, tb)
            ctx.check(verdict == 'ok', 'R8', f'{rel}::{q}::{label}', f'{q} runs inside a retried transaction: {text_}', mm.path, h.lineno, detail=text_)
    ctx.unit('in_transaction_handlers', n)


def run(ctx: Ctx) -> None:
    ctx.explanation = 'Retry decision table and code tables, nesting of retry around transactions at every retried site, exit discipline, and cross-language transaction rules over the SQL program.'
    ctx.rule('R1', 'retry wrapper re-raises iff the classifier is falsy; classifier == {InternalError 1205, OperationalError 1040/1213/2003/2013} with truthy levels', 7)
    ctx.rule('R2', 'retry wrapper encloses the transaction everywhere; no retried function takes an open Transaction; generators not retried', 24)
    ctx.rule('R3', 'Transaction exit: rollback on exception else commit, release in finally, shielded, errors propagate; autocommit off', 7)
    ctx.rule('R4', 'procedures: balanced transactions, no transaction statements in nested callees/triggers/functions; no implicit commit after a write on an open Transaction', 36)
    ctx.rule('R5', 'inside Transaction a failing statement aborts the transaction (seen through execute helpers that receive the cursor / bound method): no handler, finally-return or suppress swallows/re-issues, no retry decorator, no back-off', 21)
    ctx.rule('R6', 'every Database operation opens exactly one transaction per call, never in a loop; execute_many forwards its whole array', 10)
    ctx.rule('R7', 'DB layer: every handler between the retry wrapper and the statements preserves the retryability of the caught error (abstract domain class x error code, predicate helpers inlined); no fabricated transient errors', 3)
    ctx.rule('R8', 'application code inside a retried transaction: handlers neither turn a transient error into a non-retryable one nor the reverse, nor swallow it', 5)
    m = pf.load(DB)
    del _DECLINES[:]
    # every rule runs even when an earlier one meets a shape it cannot decide; a violation established with positive evidence is reported
    # (exit 1), otherwise the undecided constructs end the run as ANALYSIS-ERROR (exit 2)
    for rule in (lambda: r1(ctx, m), lambda: r2(ctx, m), lambda: r3(ctx, m), lambda: r4(ctx), lambda: r5(ctx, m), lambda: r6(ctx, m), lambda: r7(ctx, m), lambda: r8(ctx, m)):
        try:
            rule()
        except AnchorRemoved:
            raise
        except AnalysisError as ex:
            _defer(str(ex))
    if _DECLINES:
        raise AnalysisError(' || '.join(_DECLINES))
