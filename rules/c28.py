"""C28 Usernames and credential secret names are validated exactly.

Decides (from the syntax trees of auth/auth/auth_utils.py and auth/auth/auth.py, nothing is run):
  R1  validate_credentials_secret_name_input: the function body is translated into the regular language of the strings it lets
      through (decision list over its if/raise/return statements; the regex together with the matching mode actually used -
      `match` + `$` also lets one trailing newline through, `fullmatch` does not).  That language must EQUAL the specification
      label([.-]label)*, label=[a-z0-9]+ ; both directions are decided on DFAs over the induced partition of all 1,114,112 code
      points, a failure comes with a shortest witness string.
  R2  is_valid_username: same, body translated idiom by idiom (`not s`, startswith/endswith, `lit in s`, all(<char predicate>), a
      regex ...) and compared with [a-z0-9]+(-[a-z0-9]+)*.  The character predicates isascii/isdigit/islower are tabulated from
      the running interpreter for every code point.
      Both translations (engines/strpred.py) also follow label-wise rewrites - re.split / str.split on a separator class followed
      by all()/any()/a for loop with a per-label predicate (the language P (SEP P)*), the Unicode-aware str predicates
      isalnum/isalpha/isdecimal/isnumeric/isidentifier/islower/isupper/isspace as code-point tables, `x == x.lower()` as the
      language over the code points fixed by lower() - normalisation before the test (strip/lower/upper/replace/slices: the
      PREIMAGE of the tested language, because the caller stores the unnormalised value), locals holding match objects, and the
      regex flags ASCII / IGNORECASE / DOTALL.
  R3  every `INSERT INTO users` of the auth service is reached only after both validators accepted the very values inserted:
      check_valid_new_user leaves normally only through the accepting branch of is_valid_username(username), the INSERT is
      dominated by the call of check_valid_new_user, the call of the inserting closure is dominated by
      validate_credentials_secret_name_input(<the inserted secret name>), and no other INSERT INTO users exists in auth/.
      A validator applied to a normalised copy (`is_valid_username(username.strip())`) while the raw variable is inserted is
      decided through the preimage: the raw strings let through must still be exactly the specification language.
Does not decide: rows written to `users` by deployment tooling outside the auth service (ci/bootstrap_create_accounts.py,
gear.auth_utils.insert_user) and direct database access.
"""
from __future__ import annotations

import ast
from typing import Dict, List, Optional, Tuple

from engines import c28norm as cn
from engines import pyfacts as pf
from engines import relang as R
from engines import strpred as sp
from engines.common import AnalysisError, Ctx

META = dict(
    category='proof',
    text='Both validators are translated statement by statement into regular languages and compared with the specification '
         'languages by automata equivalence over the alphabet partition induced on ALL Unicode code points (both inclusion '
         'directions, shortest counterexample on failure); the call structure around INSERT INTO users is decided by '
         'dominance on the statement CFG.  Every obligation is decided exhaustively over all strings of any length, which is '
         'the right level for a property quantified over all strings.',
    note='Trusted: CPython ast and re._parser (regex syntax), the interpreter\'s own str methods as the definition of the character '
         'predicates (isascii/isdigit/isalnum/...), of the case maps (lower/upper/casefold, tabulated per code point; the one '
         'context-dependent image, final sigma, is only accepted when the language cannot tell the two images apart) and - for '
         'IGNORECASE patterns only - the platform `re` asked about one-character items per code point; engines/relang.py + '
         'engines/strpred.py (cross-checked against the platform `re` / the real str methods on sampled strings during development). Assumes the values reach the validators as `str` (check_valid_new_user tests isinstance) and '
         'that @transaction(db) runs the decorated closure body unchanged. Not decided: users rows written by tooling outside auth/.',
    technique='static analysis: AST-to-regular-language translation, DFA equivalence over a Unicode partition, CFG dominance',
    design_ref='DESIGN.md §3 C28',
)

F_UTILS = 'auth/auth/auth_utils.py'
F_AUTH = 'auth/auth/auth.py'
AUTH_DIR = 'auth/auth'

_ALNUM = R.CharSet([(ord('a'), ord('z')), (ord('0'), ord('9'))])


def spec_secret_name() -> R.Lang:
    """lowercase RFC-1123 style name: alphanumeric labels joined by single dots or hyphens."""
    label = R.plus(R.chars(_ALNUM))
    return R.lang(R.seq(label, R.star(R.seq(R.chars(R.CharSet.of('.-')), label))), 'label([.-]label)*')


def spec_username() -> R.Lang:
    """non-empty, ASCII lowercase letters and digits, single interior hyphens."""
    label = R.plus(R.chars(_ALNUM))
    return R.lang(R.seq(label, R.star(R.seq(R.chars(R.CharSet.of('-')), label))), '[a-z0-9]+(-[a-z0-9]+)*')


def _show(s: Optional[str]) -> str:
    return 'none' if s is None else ascii(s)


def _check_validator(ctx: Ctx, rule: str, m: pf.Module, fname: str, param_index: int, accept: str, spec: R.Lang, what: str, plural: str) -> R.Lang:
    fn = m.func(fname)
    params = [a.arg for a in fn.args.posonlyargs + fn.args.args]
    ctx.need(len(params) > param_index, f'{fname}: expected a string parameter at position {param_index}')
    param = params[param_index]
    # normal form first (engines/c28norm.py): error messages built in a local in front of a `raise`, `ok = <test>; if not ok:` - neither changes
    # which strings are accepted
    fn_t = cn.inline_test_locals(cn.strip_failure_only_statements(fn))
    L, tr = sp.function_language(m, fn_t, param, accept)
    # the partition is refined by the predicates a lowercase-name specification talks about, so that witnesses are representative
    cmp = R.compare(L, spec, extra=[R.NEWLINE, R.pred('str.isascii')])
    uses = '; '.join(f"`{u['call']}` with pattern {u['pattern']!r}" + (f" flags {u['flags']}" if u['flags'] else '') + f" (mode {u['mode']})"
                     for u in tr.regex_uses)
    base = f'{m.rel}::{fname}'
    how = f'; the decision is made by {uses}' if uses else ''
    if cmp.only_a is not None and not cmp.only_a.isascii():
        how += ('; the accepted string is not ASCII - the test is built from ' + ', '.join(tr.idioms[:8])
                + ', and str.isalnum/isalpha/isdigit/islower, \\w, \\d and `x == x.lower()` hold for thousands of non-ASCII code points')
    elif not uses:
        how += '; the test is built from ' + ', '.join(tr.idioms[:8])
    detail = dict(cmp.describe(), idioms=tr.idioms, regex=[{k: u[k] for k in ('call', 'mode', 'pattern')} for u in tr.regex_uses],
                  specification=spec.label)
    ctx.check(cmp.only_a is None, rule, f'{base}::accepts only {what}',
              f'accepts {_show(cmp.only_a)}, which is not {what} (specification {spec.label})'
              + how
              + ('; `match` with `$` also succeeds just before one trailing newline - use fullmatch' if any(
                  u['mode'] == 'match' for u in tr.regex_uses) and cmp.only_a is not None and cmp.only_a.endswith('\n') else ''),
              m.path, fn.lineno, detail=detail)
    ctx.check(cmp.only_b is None, rule, f'{base}::accepts every {what[2:] if what.startswith("a ") else what}',
              f'rejects {_show(cmp.only_b)}, which is {what} (specification {spec.label})' + (f'; the decision is made by {uses}' if uses else ''),
              m.path, fn.lineno, detail=detail)
    ctx.unit('validator_functions')
    ctx.unit('alphabet_classes', cmp.alphabet.n)
    return L


# --------------------------------------------------------------------------------------
# R3 must-call
# --------------------------------------------------------------------------------------


def _sql_insert_users(text: str) -> Optional[List[str]]:
    """Column list when the SQL text is an INSERT INTO users statement, else None."""
    toks = text.replace('(', ' ( ').replace(')', ' ) ').replace(',', ' , ').replace('`', ' ').split()
    up = [t.upper() for t in toks]
    for i in range(len(up) - 2):
        if up[i] == 'INSERT' and up[i + 1] == 'INTO' and toks[i + 2].lower() == 'users':
            cols: List[str] = []
            j = i + 3
            if j < len(toks) and toks[j] == '(':
                j += 1
                while j < len(toks) and toks[j] != ')':
                    if toks[j] != ',':
                        cols.append(toks[j])
                    j += 1
            return cols
    return None


def _insert_sites(m: pf.Module) -> List[Tuple[ast.Call, List[str], pf.FuncDef]]:
    out = []
    for node in ast.walk(m.tree):
        if isinstance(node, ast.Call):
            for a in list(node.args) + [k.value for k in node.keywords]:
                s = pf.const_str(a)
                if s is None and isinstance(a, ast.JoinedStr):
                    s = pf.fstring_template(a, lambda e: ' ? ')
                if s is None and isinstance(a, (ast.Name, ast.Attribute)):
                    # the statement text held in a local or a module constant (also one imported from a sibling module)
                    try:
                        s = sp.const_string(m, m.enclosing_func(node), a)
                    except AnalysisError:
                        s = None
                if s is not None:
                    cols = _sql_insert_users(s)
                    if cols is not None:
                        fn = m.enclosing_func(node)
                        if fn is None:
                            raise AnalysisError(f'{m.rel}: INSERT INTO users at module level (line {node.lineno})')
                        out.append((node, cols, fn))
    return out


def _calls_named(cfg: pf.CFG, name: str) -> List[Tuple[pf.Node, ast.Call]]:
    out = []
    for n in cfg.nodes:
        for c in pf.node_calls(n):
            if pf.dotted(c.func) == name:
                out.append((n, c))
    return out


def _no_handler_around(n: pf.Node) -> bool:
    return all(t.kind == 'raise-exit' or lab != 'exc' for t, lab in n.succ)


def _raw_language(m: pf.Module, fn: pf.FuncDef, var: str, arg: ast.AST, L: R.Lang) -> Optional[Tuple[R.Lang, str]]:
    """The validator with language L is applied to `arg`.  When arg is `var` itself or a normalised copy of it
    (var.strip().lower(), ...): the language of the RAW values of var that pass, and the text of the normalisation ('' when none).
    None when arg is something else."""
    if isinstance(arg, ast.Name) and arg.id != var:
        arg = pf.resolve_expr(fn, arg)
    tr = sp.Translator(m, fn, var)
    chain = tr.chain_of(arg)
    if chain is None:
        return None
    if not chain:
        return L, ''
    return tr.preimage(L, chain), pf.nsrc(arg)


def _check_rejecting_test(ctx: Ctx, m: pf.Module, fname: str, validator: str, param: str, L: R.Lang, spec: R.Lang) -> None:
    """fname leaves normally only when validator(param) was truthy (validator(<normalised param>): only when the raw values
    that pass are still exactly the specification language)."""
    fn = m.func(fname)
    g = pf.cfg(fn)
    cons = f'{m.rel}::{fname}::{validator}({param}) gates the normal exit'
    ctx.need(len(pf.assignments(fn).get(param, [])) == 1, f'{fname}: parameter {param} is rebound')
    tests = []
    for n in g.nodes:
        if n.kind != 'test' or n.ast is None:
            continue
        e = n.ast
        neg = False
        while isinstance(e, ast.UnaryOp) and isinstance(e.op, ast.Not):
            neg = not neg
            e = e.operand
        if isinstance(e, ast.Call) and pf.dotted(e.func) == validator and len(e.args) == 1 and not e.keywords:
            raw = _raw_language(m, fn, param, e.args[0], L)
            if raw is None:
                continue
            if raw[1]:
                cmp = R.compare(raw[0], spec, extra=[R.NEWLINE, R.pred('str.isascii')])
                if not cmp.equal:
                    w = cmp.only_a if cmp.only_a is not None else cmp.only_b
                    ctx.bad('R3', cons, f'{fname} tests {validator}({raw[1]}) - a normalised copy - but the caller stores {param} as it was passed: '
                            + (f'{_show(w)} passes the check and is inserted unchanged' if cmp.only_a is not None else f'the valid name {_show(w)} is refused'),
                            m.path, n.lineno)
                    return
            tests.append((n, neg))
    if not tests:
        mentions = [x for x in ast.walk(fn) if isinstance(x, ast.Name) and x.id == validator]
        ctx.need(not mentions, f'{fname}: {validator} is used in a shape that is not a plain `if [not] {validator}({param})` test')
        # "never tested" is evidence only when no helper of this module that receives the value could do the test
        for c in pf.calls_in(fn):
            d = pf.dotted(c.func)
            if d and '.' not in d and m.has_func(d) and any(isinstance(x, ast.Name) and x.id == param for a in list(c.args) + [k.value for k in c.keywords] for x in ast.walk(a)):
                helper = m.func(d)
                ctx.need(not any(isinstance(x, ast.Name) and x.id == validator for x in ast.walk(helper)),
                         f'{fname}: {param} is handed to {d}, which uses {validator}; the test is not followed into the helper')
        ctx.bad('R3', cons, f'{fname} never tests {validator}({param}): every username reaches the INSERT unvalidated', m.path, fn.lineno)
        return
    # the rejecting branch of each test must not reach the normal exit
    ok_tests = []
    for n, neg in tests:
        reject_label = 'T' if neg else 'F'
        leaks = False
        for t, lab in n.succ:
            if lab == reject_label:
                if t is g.exit or g.exit.id in g.reachable_from(t):
                    leaks = True
        if not leaks:
            ok_tests.append(n)
    if not ok_tests:
        n, neg = tests[0]
        ctx.bad('R3', cons, f'when {validator}({param}) is false (`{n.text()}`, rejecting branch {"T" if neg else "F"}) {fname} can still return normally: the rejecting branch does not raise on every path',
                m.path, n.lineno)
        return
    # every entry->exit path passes one of the gating tests
    p = g.path_avoiding(g.entry, lambda x: x is g.exit, lambda x: any(x is t for t in ok_tests))
    if p is not None:
        ctx.bad('R3', cons, f'there is a path through {fname} to a normal return that does not test {validator}({param}): '
                + ' -> '.join(x.text() for x in p if x.ast is not None)[:300], m.path, fn.lineno)
    else:
        ctx.ok('R3', cons, {'tests': [t.text() for t in ok_tests]})


def _guarded(ctx: Ctx, m: pf.Module, fn: pf.FuncDef, target: ast.Call, var: str, is_guard, depth: int = 0) -> Tuple[bool, str]:
    """Is the statement containing `target` (inside fn) reached only after a guard call on variable `var`?
    Either the guard dominates it inside fn, or fn is a closure over `var` that is only ever called directly from its enclosing
    function and every such call is guarded (recursively).  Returns (guarded, where-it-leaks)."""
    q = m.qualname(fn)
    g = pf.cfg(fn)
    nodes = g.node_of(target)
    ctx.need(len(nodes) == 1, f'{q}: `{pf.nsrc(target)[:60]}` not found in the CFG')
    node = nodes[0]
    guards = []
    for n in g.nodes:
        for c in pf.node_calls(n):
            if is_guard(c, var, fn):
                ctx.need(_no_handler_around(n), f'{q}: `{pf.nsrc(c)[:70]}` is called inside a try/except; its rejection may be swallowed (shape not recognised)')
                ctx.need(n.kind == 'stmt', f'{q}: `{pf.nsrc(c)[:70]}` is not a plain statement (shape not recognised)')
                guards.append(n)
    binds = pf.assignments(fn).get(var, [])
    if guards and g.dominated_by(node, lambda x: any(x is gn for gn in guards)):
        ctx.need(all(isinstance(b, ast.arg) for b in binds), f'{q}: {var} is assigned in {q}; value flow from the guard to the use is not recognised')
        if not binds:
            # free variable of a closure: it must have one binding in the enclosing scopes (guard and use then read the same value)
            scope = m.enclosing_func(fn)
            while scope is not None and var not in pf.assignments(scope):
                scope = m.enclosing_func(scope)
            ctx.need(scope is not None and len(pf.assignments(scope)[var]) == 1,
                     f'{q}: free variable {var} does not have exactly one binding in the enclosing function; value flow not recognised')
        return True, ''
    outer = m.enclosing_func(fn)
    if outer is None or binds or depth >= 3:
        return False, q
    # closure over var: look at the calls in the enclosing function
    go = pf.cfg(outer)
    refs = [n for n in pf.walk_shallow(outer) if isinstance(n, ast.Name) and n.id == fn.name and isinstance(n.ctx, ast.Load)]
    calls = [c for n in go.nodes for c in pf.node_calls(n) if pf.dotted(c.func) == fn.name]
    ctx.need(refs and len(refs) == len(calls), f'{m.qualname(outer)}: closure {fn.name} escapes (referenced other than by a direct call); shape not recognised')
    for c in calls:
        ok, where = _guarded(ctx, m, outer, c, var, is_guard, depth + 1)
        if not ok:
            return False, where
    return True, ''


def _need_no_unrecognised_use(ctx: Ctx, m: pf.Module, inner: pf.FuncDef, validator: str, var: str, is_guard) -> None:
    """"No validator call guards the INSERT" is evidence only when every use of the validator around the INSERT is a call this rule
    understands.  Decline when the validator is mentioned in the enclosing top-level function (or in a helper of this module it calls) in
    another form: aliased, passed on, called on a value whose relation to `var` is not a plain copy, or called inside a helper."""
    top = inner
    while m.enclosing_func(top) is not None:
        top = m.enclosing_func(top)  # type: ignore[assignment]
    scopes: List[pf.FuncDef] = [top]
    seen = {top.name}
    work = [top]
    while work:
        f = work.pop()
        for c in pf.calls_in(f, into_nested_defs=True):
            d = pf.dotted(c.func)
            if d and d not in seen and d != validator and m.has_func(d) and '.' not in d:
                seen.add(d)
                scopes.append(m.func(d))
                work.append(m.func(d))
    for f in scopes:
        funcs = [f] + [x for x in ast.walk(f) if isinstance(x, (ast.FunctionDef, ast.AsyncFunctionDef)) and x is not f]
        understood = set()
        for sub in funcs:
            for c in pf.calls_in(sub):
                if pf.dotted(c.func) == validator:
                    understood.add(id(c.func))
                    # a call on another variable is understood (it guards something else); a call whose argument is not a plain variable is not
                    if f is not top:
                        raise AnalysisError(f'{m.rel}::{top.name}: {validator} is called inside the helper {f.name}; whether that covers the inserted `{var}` is not followed')
        for x in ast.walk(f):
            if isinstance(x, ast.Name) and x.id == validator and id(x) not in understood:
                raise AnalysisError(f'{m.rel}::{f.name}: {validator} is referenced other than by a direct call (line {x.lineno}); not recognised')
    # direct calls in the enclosing function whose argument is neither `var` nor another plain variable
    for sub in [top] + [x for x in ast.walk(top) if isinstance(x, (ast.FunctionDef, ast.AsyncFunctionDef)) and x is not top]:
        for c in pf.calls_in(sub):
            if pf.dotted(c.func) == validator and not is_guard(c, var, sub):
                idx = 1 if validator == 'check_valid_new_user' else 0
                a = _arg_of(c, validator, idx)
                ctx.need(a is not None and isinstance(pf.resolve_expr(sub, a) if isinstance(a, ast.Name) else a, ast.Name),
                         f'{m.rel}::{sub.name}: `{pf.nsrc(c)[:70]}` - what it validates is not recognised')


def _same_value(fn: pf.FuncDef, arg: ast.AST, var: str) -> bool:
    """arg is the variable var, or a single-assignment local that is a plain copy of it."""
    if isinstance(arg, ast.Name) and arg.id != var:
        arg = pf.resolve_expr(fn, arg)
    return isinstance(arg, ast.Name) and arg.id == var


_SIGS: Dict[str, pf.FuncDef] = {}  # validator name -> definition (filled by _check_must_call); arguments are matched by parameter name


def _arg_of(c: ast.Call, callee: str, index: int) -> Optional[ast.AST]:
    """The argument `c` passes for the index-th parameter of `callee` (positional or by keyword); None when the call does not fit."""
    fd = _SIGS.get(callee)
    if fd is None:
        return None
    params = [a.arg for a in fd.args.posonlyargs + fd.args.args]
    if index >= len(params):
        return None
    b = cn.bind_call(c, fd)
    return None if b is None else b.get(params[index])


def _is_username_guard(c: ast.Call, var: str, fn: pf.FuncDef) -> bool:
    if pf.dotted(c.func) != 'check_valid_new_user':
        return False
    a = _arg_of(c, 'check_valid_new_user', 1)
    return a is not None and _same_value(fn, a, var)


def _secret_guard(m: pf.Module, L: R.Lang, spec: R.Lang, notes: List[str]):
    """Guard recogniser for validate_credentials_secret_name_input(<var or a normalised copy that lets exactly the same raw values
    through>); a normalising call that lets other raw values through is not a guard and leaves a note for the report."""
    def is_guard(c: ast.Call, var: str, fn: pf.FuncDef) -> bool:
        if pf.dotted(c.func) != 'validate_credentials_secret_name_input':
            return False
        a0 = _arg_of(c, 'validate_credentials_secret_name_input', 0)
        if a0 is None:
            return False
        try:
            raw = _raw_language(m, fn, var, a0, L)
        except AnalysisError:
            raw = None
        if raw is None:
            return False
        if not raw[1]:
            return True
        cmp = R.compare(raw[0], spec, extra=[R.NEWLINE, R.pred('str.isascii')])
        if cmp.equal:
            return True
        w = cmp.only_a if cmp.only_a is not None else cmp.only_b
        notes.append(f'`{pf.nsrc(c)}` validates a normalised copy while {var} itself is stored: '
                     + (f'{_show(w)} passes and is inserted unchanged' if cmp.only_a is not None else f'the valid name {_show(w)} is refused'))
        return False
    return is_guard


def _check_must_call(ctx: Ctx, L_secret: R.Lang, L_user: R.Lang) -> None:
    m = pf.load(F_AUTH)
    mu = pf.load(F_UTILS)
    imps = m.imports()
    for name in ('is_valid_username', 'validate_credentials_secret_name_input'):
        ctx.need(imps.get(name, '').endswith('auth_utils.' + name), f'{F_AUTH}: {name} is not imported from auth_utils ({imps.get(name)})')
        ctx.need(mu.has_func(name), f'{F_UTILS}: {name} vanished')
        ctx.need(not m.has_func(name), f'{F_AUTH}: {name} is redefined locally')
    ctx.need(m.has_func('check_valid_new_user'), f'{F_AUTH}: check_valid_new_user vanished')
    _SIGS.clear()
    _SIGS.update({'check_valid_new_user': m.func('check_valid_new_user'), 'is_valid_username': mu.func('is_valid_username'),
                  'validate_credentials_secret_name_input': mu.func('validate_credentials_secret_name_input')})

    sites = _insert_sites(m)
    ctx.need(sites, f'{F_AUTH}: no INSERT INTO users statement found')
    for call, cols, inner in sites:
        qual = m.qualname(inner)
        cons_base = f'{F_AUTH}::{qual}::INSERT INTO users'
        ctx.need('username' in cols, f'{qual}: INSERT INTO users without a username column {cols}')
        row = call.args[1] if len(call.args) >= 2 else next((k.value for k in call.keywords if k.arg in ('args', 'params', 'parameters')), None)
        if isinstance(row, ast.Name):
            ctx.need(len(pf.assignments(inner).get(row.id, [])) == 1, f'{qual}: the INSERT argument `{row.id}` does not have exactly one binding')
            row = pf.resolve_expr(inner, row)
        ctx.need(isinstance(row, (ast.Tuple, ast.List)) and len(row.elts) == len(cols) and not any(isinstance(x, ast.Starred) for x in row.elts),
                 f'{qual}: INSERT argument tuple does not line up with the column list')
        vals = dict(zip(cols, row.elts))
        u_expr = vals['username']
        ctx.need(isinstance(u_expr, ast.Name), f'{qual}: the inserted username is not a plain variable')
        ok, where = _guarded(ctx, m, inner, call, u_expr.id, _is_username_guard)  # type: ignore[union-attr]
        if not ok:
            _need_no_unrecognised_use(ctx, m, inner, 'check_valid_new_user', u_expr.id, _is_username_guard)  # type: ignore[union-attr]
        ctx.check(ok, 'R3', cons_base + '::username checked by check_valid_new_user',
                  f'the INSERT INTO users in {qual} can be reached without a preceding check_valid_new_user(tx, {u_expr.id}, ...) '  # type: ignore[union-attr]
                  f'(no dominating call in {where}): the username is stored unvalidated', m.path, call.lineno)
        s_expr = vals.get('hail_credentials_secret_name')
        if s_expr is None or (isinstance(s_expr, ast.Constant) and s_expr.value is None):
            ctx.ok('R3', cons_base + '::secret name validated', 'no secret name is inserted at this site')
        else:
            ctx.need(isinstance(s_expr, ast.Name), f'{qual}: the inserted secret name is not a plain variable')
            notes: List[str] = []
            sg = _secret_guard(m, L_secret, spec_secret_name(), notes)
            ok, where = _guarded(ctx, m, inner, call, s_expr.id, sg)
            if not ok and not notes:
                _need_no_unrecognised_use(ctx, m, inner, 'validate_credentials_secret_name_input', s_expr.id, sg)
            ctx.check(ok, 'R3', cons_base + '::secret name validated',
                      f'the INSERT INTO users in {qual} can run without a preceding validate_credentials_secret_name_input({s_expr.id}) '
                      f'(no dominating call in {where}): the secret name is stored unvalidated' + ''.join('; ' + x for x in notes), m.path, call.lineno)
        ctx.unit('insert_sites')

    # --- check_valid_new_user really rejects invalid usernames
    cfn = m.func('check_valid_new_user')
    cparams = [a.arg for a in cfn.args.args]
    ctx.need(len(cparams) >= 2, 'check_valid_new_user: parameter list changed')
    _check_rejecting_test(ctx, m, 'check_valid_new_user', 'is_valid_username', cparams[1], L_user, spec_username())

    # --- closed world: no other INSERT INTO users in the auth service
    others = []
    n_files = 0
    for rel in pf.walk_py([AUTH_DIR]):
        n_files += 1
        if rel == F_AUTH:
            continue
        for call, _cols, fn in _insert_sites(pf.load(rel)):
            others.append(f'{rel}::{fn.name} line {call.lineno}')
    ctx.unit('auth_files_scanned', n_files)
    ctx.check(not others, 'R3', f'{AUTH_DIR}::no INSERT INTO users outside insert_new_user',
              f'INSERT INTO users outside the validated path: {others}', detail={'files': n_files})
    # positive control for the SQL recogniser
    ctrl = _sql_insert_users('\nINSERT INTO users (state, username)\nVALUES (%s, %s);') == ['state', 'username'] \
        and _sql_insert_users('INSERT INTO users_system_roles (user_id) VALUES (%s)') is None
    ctx.need(ctrl, 'internal: INSERT INTO users recogniser failed its positive control')


def run(ctx: Ctx) -> None:
    ctx.level = 'proof'
    ctx.exhaustive = True
    ctx.explanation = ('Each validator body is translated into a regular language (decision list over its statements; regex semantics '
                       'including the match/fullmatch mode and `$`) and compared with the specification language by DFA equivalence over '
                       'the partition of all 1,114,112 code points; must-call by dominance on the CFG of auth.py. No repository code is run.')
    ctx.rule('R1', 'L(validate_credentials_secret_name_input, with the regex matching mode it uses) == label([.-]label)*, label=[a-z0-9]+ '
                   '(both inclusions, over all Unicode strings)', 2)
    ctx.rule('R2', 'L(is_valid_username body, translated idiom by idiom) == [a-z0-9]+(-[a-z0-9]+)* (both inclusions, over all Unicode strings)', 2)
    ctx.rule('R3', 'every INSERT INTO users in auth/ is dominated by check_valid_new_user (which returns only if is_valid_username) and by '
                   'validate_credentials_secret_name_input on the inserted values; no other INSERT INTO users in auth/', 4)
    ctx.assume('the validated values are str (check_valid_new_user raises InvalidType otherwise; a None secret name is stored as NULL)')
    ctx.assume('the str predicate and case-mapping methods of the running CPython define the character classes (tabulated for every code point)')
    ctx.assume('@transaction(db) executes the decorated closure body as written (possibly more than once)')
    mu = pf.load(F_UTILS)
    ctx.unit('files', 2)
    l_secret = _check_validator(ctx, 'R1', mu, 'validate_credentials_secret_name_input', 0, 'no-raise', spec_secret_name(), 'a lowercase RFC-1123 name', 'lowercase RFC-1123 names')
    l_user = _check_validator(ctx, 'R2', mu, 'is_valid_username', 0, 'bool', spec_username(), 'a valid username', 'valid usernames')
    _check_must_call(ctx, l_secret, l_user)
