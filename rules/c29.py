r"""C29 Post-login redirects stay on Hail hosts.

Decides (from the syntax trees of auth/auth/*.py and hailtop/config/deploy_config.py, nothing of the repository is run):
  R1  taint + must-pass-through: every redirect (web.HTTPFound & friends, a `Location` header handed to a response, a call of a helper that
      passes its parameter on to a redirect) whose location derives from the request (query, match_info, headers, body) or from the cookie
      session is, on every CFG path from the tainted definition of that value to the redirect, preceded by `validate_next_page_url(<that value>)`
      that returned normally (leaving the validation through an exception edge into a handler that falls through does not count)
  R2  the same for what the service accepts into the session: `session['next'] = x`
  R3  validator decision list (module-level helpers seen through: statement-level calls inlined by engines.inline, calls in expression position - a
      host-extracting helper, a predicate with early returns - replaced by the expression they return; locals and module constants expanded; options of
      the validator bound, by constant propagation, to the values the call sites pass): the truth table over the extracted tests enumerates every
      accepting path.  The allow-list side of every comparison is evaluated to an abstract value (Allow: external_url(<service>, <constant path>) /
      urlparse(<that>).<attr> / string operations on top / collections, comprehensions and tuples of those, bound comprehension variables).  A path is
      fine iff it has established `urlparse(next).netloc in|== <netlocs of the statement's services batch/auth/ci/monitoring>`, `next ==|in <their own
      URLs>` or `next.startswith(<their URL whose authority is terminated by / ? #>)`, or its conditions confine the value to prefix classes that cannot
      name a host for a browser (first character `/`, second none of `/ \ TAB LF CR`).
      Every other accepting path whose conditions are all in the closed table of recognised shapes is a VIOLATION: emptiness of urlparse
      fields, scheme tests, `.hostname` instead of `.netloc`, a split / partition / slice of the netloc (also when hidden in a helper applied to both
      sides), endswith, substring, prefix of the raw URL with an unterminated origin (also through a local list of roots / a tuple), prefix of the
      netloc - each with the known verdict "does not confine the host" and a generic witness schema.
      A path with a condition outside the table (case folding, strip / removesuffix, regular expressions, foreign parsers, a statement-level call of a
      function that cannot be seen through) is an analysis error.  A widened service list is a violation.
      Only AFTER a violation is established a concrete example is printed: the first string of a small corpus that satisfies the failing
      path's conditions (our own evaluator of the string operations) and that the browser model resolves to a foreign host - illustration, never
      a basis for a verdict.
  R4  DeployConfig.external_url returns `<scheme>s://<non-empty authority>...` on every return, so the list of valid netlocs never contains the
      empty string (otherwise `/\\evil.com`, netloc '', would be accepted)
Refactor-robustness: module-level helpers that run the validator themselves (`next_page = _validated_next_page_from_query(request)`) are inlined into
their callers; a value is followed through copies / `a or default` selections, and validating any holder of the value validates it; the validator may
be called with a keyword argument; accumulator / search loops in the validator are read as the comprehension / any() they compute.
Does not decide: browser-vs-urlparse differentials for values whose netloc IS an exact member of the allow-list (e.g. exotic schemes).
"""
from __future__ import annotations

import ast
from typing import Dict, List, Optional, Set, Tuple

from engines import absdom, pyfacts as pf
from engines.common import AnalysisError, Ctx, short

META = dict(
    category='other',
    text='Intra-procedural taint analysis with def-use and CFG must-pass-through over every function of auth/auth/*.py (redirect helpers followed to their '
         'call sites): every redirect location and every stored session[\'next\'] that derives from client-controlled data is validated on all paths; plus a '
         'decision-list analysis of the validator: an exhaustive truth table over its extracted tests shows that every accepting path has found the parsed '
         'netloc to be an exact member of the four services\' netlocs, or confines the value to site-relative prefixes (closed table of condition shapes, '
         'prefix-class abstraction).  Level is `other`: which strings a browser reads as naming a host is a small fixed table, not a model of every browser.',
    note='Trusted: CPython ast; engines/pyfacts CFG; aiohttp redirect classes; the table of condition shapes and of dangerous second characters (/ \\ TAB LF CR). '
         'The corpus / browser_host() model only instantiates an example for a violation that the table has already established; no verdict rests on it.',
    technique='static analysis: taint / def-use + CFG dominance (must-pass-through with exception edges) + predicate-abstraction truth table over a closed '
              'table of condition shapes + prefix-class abstraction',
    design_ref='DESIGN.md §3 C29',
)

F = 'auth/auth/auth.py'
FD = 'hail/python/hailtop/config/deploy_config.py'
VALIDATOR = 'validate_next_page_url'
REDIRECTS = {'HTTPFound', 'HTTPSeeOther', 'HTTPMovedPermanently', 'HTTPTemporaryRedirect', 'HTTPPermanentRedirect', 'HTTPMultipleChoices', 'HTTPUseProxy'}
SERVICES = {'batch', 'auth', 'ci', 'monitoring'}  # from the statement
SESSION_MAKERS = {'aiohttp_session.get_session', 'aiohttp_session.new_session', 'get_session', 'new_session'}


# --------------------------------------------------------------------------------------
# taint
# --------------------------------------------------------------------------------------


class Taint:
    def __init__(self, fn: pf.FuncDef):
        self.fn = fn
        self.defs = pf.assignments(fn)
        self.params = {a.arg for a in list(fn.args.args) + list(fn.args.kwonlyargs) + list(fn.args.posonlyargs)}
        self.request_names = {a.arg for a in list(fn.args.args) + list(fn.args.posonlyargs)
                              if a.arg == 'request' or (a.annotation is not None and pf.nsrc(a.annotation) in ('web.Request', 'Request', 'aiohttp.web.Request'))}
        self.session_names: Set[str] = {p for p in self.params if p == 'session'}
        for name, vals in self.defs.items():
            for v in vals:
                if isinstance(v, ast.expr) and pf.call_name(v) in SESSION_MAKERS:
                    self.session_names.add(name)
        self._memo: Dict[str, str] = {}

    def of_def(self, d: ast.AST, visiting: Tuple[str, ...] = ()) -> str:
        """'tainted' | 'unknown' | 'clean' for one defining construct of a name."""
        if isinstance(d, ast.arg):
            if d.arg in self.request_names or d.arg in self.session_names:
                return 'tainted'
            if d.arg in ('userdata', '_', 'self', 'cls', 'app', 'db'):
                return 'clean'
            return 'unknown'
        if isinstance(d, ast.expr):
            return self.of_expr(d, visiting)
        # opaque statements: tuple assignment, augmented assignment, loop target, with-item, except-as
        if isinstance(d, (ast.Assign, ast.AugAssign)):
            t = self.of_expr(d.value, visiting)
            if isinstance(d, ast.AugAssign) and isinstance(d.target, ast.Name):
                t = _join(t, self.of_name(d.target.id, visiting)) if d.target.id not in visiting else t
            return t
        if isinstance(d, (ast.For, ast.AsyncFor, ast.comprehension)):
            return self.of_expr(d.iter, visiting)
        if isinstance(d, ast.withitem):
            return self.of_expr(d.context_expr, visiting)
        if isinstance(d, ast.ExceptHandler):
            return 'clean'
        return 'unknown'

    def of_name(self, name: str, visiting: Tuple[str, ...] = ()) -> str:
        if name in self.session_names:
            return 'tainted'
        if name in visiting:
            return 'clean'  # cycle: contributes nothing new
        if name not in self.defs:
            return 'clean'  # module global / builtin / import
        out = 'clean'
        for d in self.defs[name]:
            out = _join(out, self.of_def(d, visiting + (name,)))
        return out

    def direct_sources(self, e: ast.AST) -> List[str]:
        """Client-controlled reads written directly in e."""
        out: List[str] = []
        for n in pf.walk_shallow(e):
            if isinstance(n, ast.Attribute) and isinstance(n.value, ast.Name) and n.value.id in self.request_names and n.attr != 'app':
                out.append(pf.nsrc(n))
            elif isinstance(n, ast.Name) and isinstance(n.ctx, ast.Load) and n.id in self.session_names:
                out.append(n.id)
            elif isinstance(n, ast.Call):
                for a in list(n.args) + [k.value for k in n.keywords]:
                    if isinstance(a, ast.Name) and a.id in self.request_names:
                        out.append(f'{pf.nsrc(n.func)}({a.id})')
        return out

    def of_expr(self, e: ast.AST, visiting: Tuple[str, ...] = ()) -> str:
        if self.direct_sources(e):
            return 'tainted'
        out = 'clean'
        # `request.app[...]` is server-side state: the `request` base of an attribute access is judged by direct_sources only
        attr_bases = {id(n.value) for n in pf.walk_shallow(e) if isinstance(n, ast.Attribute)}
        for n in pf.walk_shallow(e):
            if isinstance(n, ast.Name) and isinstance(n.ctx, ast.Load):
                if n.id in self.request_names and id(n) in attr_bases:
                    continue
                out = _join(out, self.of_name(n.id, visiting))
        return out


def _join(a: str, b: str) -> str:
    order = {'clean': 0, 'unknown': 1, 'tainted': 2}
    return a if order[a] >= order[b] else b


# --------------------------------------------------------------------------------------
# sinks
# --------------------------------------------------------------------------------------


def _redirect_location(call: ast.Call, imports: Dict[str, str]) -> Optional[ast.expr]:
    name = pf.dotted(call.func)
    if name is None:
        return None
    last = name.split('.')[-1]
    if last not in REDIRECTS:
        return None
    head = name.split('.')[0]
    if '.' in name:
        if not (head in ('web', 'aiohttp') or imports.get(head, '').startswith('aiohttp')):
            return None
    elif not imports.get(name, '').startswith('aiohttp'):
        return None
    if call.args:
        return call.args[0]
    for k in call.keywords:
        if k.arg == 'location':
            return k.value
    raise AnalysisError(f'redirect `{pf.nsrc(call)}` without a recognisable location argument')


_VALIDATOR_PARAM = ['next_page']  # name of the validator's first parameter, read from its definition in run()


def _validated_arg(c: ast.Call) -> Optional[ast.expr]:
    """the value a call of the validator validates: first positional argument, or the keyword naming the validator's first parameter"""
    if pf.dotted(c.func) != VALIDATOR or any(isinstance(a, ast.Starred) for a in c.args) or any(k.arg is None for k in c.keywords):
        return None
    if c.args:
        return c.args[0]
    for k in c.keywords:
        if k.arg == _VALIDATOR_PARAM[0]:
            return k.value
    return None


def _is_validate(n: pf.Node, key: str) -> bool:
    for c in pf.node_calls(n):
        a = _validated_arg(c)
        if a is not None and pf.nsrc(a) == key:
            return True
    return False


def _unknown_guard(n: pf.Node, key: str, validating: Optional[Set[str]] = None) -> bool:
    """A branch that hands the value to some other function (an unrecognised validation idiom), or a call -- left in place because it could not
    be inlined -- of a module-level helper that runs the validator on it."""
    if n.kind != 'test':
        for c in pf.node_calls(n):
            if validating and isinstance(c.func, ast.Name) and c.func.id in validating and any(pf.nsrc(a) == key for a in list(c.args) + [k.value for k in c.keywords]):
                return True
        return False
    for c in pf.node_calls(n):
        if pf.dotted(c.func) == VALIDATOR:
            continue
        if any(pf.nsrc(a) == key for a in list(c.args) + [k.value for k in c.keywords]):
            return True
    return False


def _escape_path(cfg: pf.CFG, starts: List[pf.Node], sinks: List[pf.Node], key: str, extra_block=None, kills: Optional[Set[int]] = None) -> Optional[List[pf.Node]]:
    """A path from a start to a sink on which validate(key) never *returned normally* and the value is not overwritten
    (nodes in `kills` redefine the variable: the value under consideration does not flow past them); None if there is none."""
    sink_ids = {s.id for s in sinks}
    kills = kills or set()
    prev: Dict[int, Optional[pf.Node]] = {s.id: None for s in starts}
    prev_starts = {s.id for s in starts}
    queue = list(starts)
    while queue:
        n = queue.pop(0)
        validating = _is_validate(n, key) and n.id not in {s.id for s in starts}
        for m, lab in n.succ:
            if validating and lab != 'exc':
                continue  # normal continuation of a validation: the value is validated from here on
            if m.id in prev:
                continue
            if extra_block is not None and extra_block(m):
                continue
            prev[m.id] = n
            if m.id in kills and m.id not in prev_starts:
                continue  # reached, but the value is replaced here
            if m.id in sink_ids and not _is_validate(m, key):
                path = [m]
                cur: Optional[pf.Node] = n
                while cur is not None:
                    path.append(cur)
                    cur = prev[cur.id]
                return list(reversed(path))
            queue.append(m)
    return None


def _copy_sources(e: ast.AST) -> Optional[List[ast.expr]]:
    """the expressions one of which IS the value of e, when e only selects: `x`, `a or b`, `a and b`, `a if c else b`, `(y := x)`; else None"""
    if isinstance(e, ast.Name):
        return [e]
    if isinstance(e, ast.BoolOp):
        out: List[ast.expr] = []
        for v in e.values:
            sub = _copy_sources(v)
            out += sub if sub is not None else [v]
        return out
    if isinstance(e, ast.IfExp):
        out = []
        for v in (e.body, e.orelse):
            sub = _copy_sources(v)
            out += sub if sub is not None else [v]
        return out
    return None


def _copy_of(n: pf.Node) -> Optional[Tuple[str, List[str]]]:
    """(target, [source locals]) when the node binds a local to (one of) other locals: `t = s`, `t = s or default`, `t = a if c else b`"""
    a = n.ast
    tgt = None
    if n.kind == 'stmt' and isinstance(a, ast.Assign) and len(a.targets) == 1 and isinstance(a.targets[0], ast.Name):
        tgt = a.targets[0].id
    elif n.kind == 'stmt' and isinstance(a, ast.AnnAssign) and isinstance(a.target, ast.Name) and a.value is not None:
        tgt = a.target.id
    if tgt is None:
        return None
    srcs = _copy_sources(a.value)  # type: ignore[union-attr]
    if srcs is None:
        return None
    return tgt, [x.id for x in srcs if isinstance(x, ast.Name)]


def _defines(n: pf.Node) -> Set[str]:
    """locals (re)bound at this node"""
    out: Set[str] = set()
    if n.kind == 'except':
        nm = getattr(n.ast, 'name', None)
        return {nm} if nm else set()
    for e in pf.node_exprs(n):
        for x in pf.walk_shallow(e):
            if isinstance(x, ast.Name) and isinstance(x.ctx, (ast.Store, ast.Del)):
                out.add(x.id)
    return out


def _validates_any(n: pf.Node, names) -> bool:
    return any(_is_validate(n, x) for x in names)


def _flow_escape(cfg: pf.CFG, starts: List[pf.Node], var: str, sinks: List[pf.Node], sink_name: str, blocked=None) -> Optional[List[pf.Node]]:
    """A path from the definition `starts` of local `var` to a sink that reads `sink_name`, on which the VALUE defined there -- followed through
    plain copies `a = b`, so that validating any holder of the value validates it -- never passed a validate call that returned normally;
    None if there is none.  A holder that is rebound drops out; the path ends when no holder is left."""
    sink_ids = {x.id for x in sinks}
    start_ids = {x.id for x in starts}
    first = frozenset([var])
    prev: Dict[Tuple[int, frozenset], Optional[Tuple[pf.Node, frozenset]]] = {(x.id, first): None for x in starts}
    queue: List[Tuple[pf.Node, frozenset]] = [(x, first) for x in starts]
    while queue:
        n, al = queue.pop(0)
        validating = _validates_any(n, al) and n.id not in start_ids
        for m2, lab in n.succ:
            if validating and lab != 'exc':
                continue  # normal continuation of a validation: the value is validated from here on
            if blocked is not None and blocked(m2, al):
                continue
            if m2.id in sink_ids and sink_name in al and not _validates_any(m2, al):
                path = [m2]
                cur: Optional[Tuple[pf.Node, frozenset]] = (n, al)
                while cur is not None:
                    path.append(cur[0])
                    cur = prev[(cur[0].id, cur[1])]
                return list(reversed(path))
            cp = _copy_of(m2)
            if cp is not None and any(x in al for x in cp[1]):
                al2 = al | {cp[0]}
            elif m2.id in start_ids:
                al2 = al
            else:
                al2 = al - _defines(m2)
            if not al2 or (m2.id, al2) in prev:
                continue
            prev[(m2.id, al2)] = (n, al)
            queue.append((m2, al2))
    return None


def _residual_validating(e: ast.AST, validating: Set[str]) -> Optional[ast.Call]:
    """a call (left in place: it could not be inlined) of a module-level helper that itself runs the validator"""
    for c in ast.walk(e):
        if isinstance(c, ast.Call) and isinstance(c.func, ast.Name) and c.func.id in validating:
            return c
    return None


def _check_sink(ctx: Ctx, m: pf.Module, qual: str, fn: pf.FuncDef, taint: Taint, rule: str, role: str, value: ast.expr, at: ast.AST,
                propagate: Optional[List[str]] = None, validating: Optional[Set[str]] = None) -> str:
    """Returns 'tainted' | 'clean' after recording the instance (clean sinks are not instances)."""
    cfg = pf.cfg(fn)
    validating = validating or set()
    sink_nodes = cfg.node_of(at)
    ctx.need(sink_nodes, f'{m.rel}::{qual}: cannot locate `{short(pf.nsrc(at), 60)}` in the CFG')
    cons = f'{m.rel}::{qual}::{role} {short(pf.nsrc(value), 80)}'
    key = pf.nsrc(value)

    if isinstance(value, ast.Name):
        name = value.id
        ctx.need(name in taint.defs or name in taint.session_names, f'{m.rel}::{qual}: `{name}` used as a redirect target has no local definition')
        if name in taint.session_names:
            ctx.bad(rule, cons, 'the session object itself is used as a URL', m.path, at.lineno)
            return 'tainted'
        problems: List[Tuple[ast.AST, List[pf.Node]]] = []
        undecided: List[Tuple[ast.AST, List[pf.Node]]] = []
        via_params: List[str] = []
        all_origins: List[Tuple[ast.AST, str, str]] = []

        def unknown_guard(n2: pf.Node, al) -> bool:
            return any(_unknown_guard(n2, x, validating) for x in al)

        def origins_of(root: str) -> List[Tuple[ast.AST, str, str]]:
            """the definitions the value of `root` can originate from, followed backwards through selections of locals (`a = b`, `a = b or c`)"""
            out: List[Tuple[ast.AST, str, str]] = []
            seen_vars: Set[str] = set()

            def collect(var: str) -> None:
                if var in seen_vars:
                    return
                seen_vars.add(var)
                for d0 in taint.defs.get(var, []):
                    srcs = _copy_sources(d0) if isinstance(d0, ast.expr) else None
                    if srcs is not None:
                        for x in srcs:
                            if isinstance(x, ast.Name) and x.id in taint.defs and x.id not in taint.session_names:
                                collect(x.id)
                            elif taint.of_expr(x, (var,)) != 'clean':
                                out.append((d0, var, taint.of_expr(x, (var,))))
                    else:
                        out.append((d0, var, taint.of_def(d0, (var,))))
            collect(root)
            return out

        def analyse(root: str, sinks: List[pf.Node], depth: int) -> None:
            for d, var, k in origins_of(root):
                all_origins.append((d, var, k))
                if k == 'clean':
                    continue
                if isinstance(d, ast.arg):
                    starts = [cfg.entry]
                else:
                    starts = cfg.node_of(d)
                    ctx.need(starts, f'{m.rel}::{qual}: definition of `{var}` not found in the CFG')
                path = _flow_escape(cfg, starts, var, sinks, root)
                if path is None:
                    continue
                # an unrecognised guard on the path?  then we cannot decide
                path2 = _flow_escape(cfg, starts, var, sinks, root, blocked=unknown_guard)
                if path2 is None:
                    undecided.append((d, path))
                elif not isinstance(d, ast.arg) and _residual_validating(d, validating) is not None:
                    undecided.append((d, path2))  # defined by a helper that validates what it returns, but could not be inlined
                elif k == 'unknown' and isinstance(d, ast.arg) and propagate is not None:
                    via_params.append(d.arg)  # an unvalidated parameter of a helper: the obligation moves to the callers
                elif k == 'unknown':
                    undecided.append((d, path2))
                elif isinstance(d, ast.arg) or taint.direct_sources(d.value if isinstance(d, (ast.Assign, ast.AugAssign)) else
                                                                    (d.iter if isinstance(d, (ast.For, ast.AsyncFor, ast.comprehension)) else
                                                                     (d.context_expr if isinstance(d, ast.withitem) else d))):
                    problems.append((d, path2))  # read from the request / session right here and never validated on the way
                else:
                    # DERIVED from other locals (`target = str(next_page)`): a violation only if a client-controlled local flows into the
                    # derivation unvalidated; a transformation of an already validated value is not decided here
                    before = len(problems)
                    srcs2 = sorted({x.id for x in pf.walk_shallow(d) if isinstance(x, ast.Name) and isinstance(x.ctx, ast.Load) and x.id in taint.defs
                                    and x.id != var and taint.of_name(x.id) != 'clean'})
                    if depth > 0:
                        for y in srcs2:
                            analyse(y, starts, depth - 1)
                    if len(problems) > before:
                        problems[before:] = [(problems[before][0], problems[before][1] + path2[1:])]
                    else:
                        undecided.append((d, path2))
        analyse(name, sink_nodes, 3)
        origins = all_origins
        if all(k0 == 'clean' for _, _, k0 in origins):
            return 'clean'
        if problems:
            d, path = problems[0]
            src_txt = short(pf.nsrc(d), 90)
            via = ' -> '.join(f'{n.text()[:40]}@{n.lineno}' for n in path[:1] + path[-3:])
            ctx.bad(rule, cons,
                    f'`{name}` is client-controlled (defined by `{src_txt}`) and reaches this {role} on a path that never completes '
                    f'{VALIDATOR}({name}) [{via}]: e.g. next=https://evil.example/ is followed', m.path, at.lineno,
                    extra=[f'{n.kind}:{n.text()}@{n.lineno}' for n in path])
            return 'tainted'
        if via_params and not undecided:
            propagate.extend(via_params)  # type: ignore[union-attr]
            return 'param'
        if undecided:
            d, path = undecided[0]
            raise AnalysisError(f'{m.rel}::{qual}: `{name}` reaches `{short(pf.nsrc(at), 60)}` without {VALIDATOR}; its origin/guard '
                                f'(`{short(pf.nsrc(d), 60)}`) is not a recognised idiom - cannot decide')
        ctx.ok(rule, cons, {'validated_value': name, 'tainted_definitions': [short(pf.nsrc(d), 80) for d, _, k in origins if k != 'clean']})
        return 'tainted'

    # not a plain variable
    k = taint.of_expr(value)
    if k == 'clean':
        return 'clean'
    rv = _residual_validating(value, validating)
    if rv is not None:
        raise AnalysisError(f'{m.rel}::{qual}: {role} `{short(key, 60)}` is computed by `{short(pf.nsrc(rv), 50)}`, a helper that runs {VALIDATOR} itself and could not be '
                            f'inlined - cannot decide')
    direct = taint.direct_sources(value)
    stable = all(s.split('.')[-1] in ('query', 'rel_url', 'match_info') for s in direct) and not any(
        isinstance(n, ast.Name) and taint.of_name(n.id) != 'clean' for n in pf.walk_shallow(value))
    if direct and stable and isinstance(value, (ast.Subscript, ast.Call)):
        # e.g. request.query['next'] validated as the very same (immutable) read
        path = _escape_path(cfg, [cfg.entry], sink_nodes, key)
        ctx.check(path is None, rule, cons, f'`{key}` is client-controlled and not validated by {VALIDATOR}({key}) on every path', m.path, at.lineno)
        return 'tainted'
    if direct:
        ctx.bad(rule, cons, f'the {role} is computed from client-controlled `{direct[0]}` in place; the value that is followed was never passed to '
                f'{VALIDATOR}: e.g. next=https://evil.example/ is followed', m.path, at.lineno)
        return 'tainted'
    raise AnalysisError(f'{m.rel}::{qual}: {role} `{short(key, 60)}` is derived from client-controlled or unknown values by an expression - cannot decide')


def _validating_helpers(m: pf.Module) -> Set[str]:
    """module-level functions (other than the validator) that run the validator themselves, directly or through another such helper:
    `next_page = _validated_next_page_from_query(request)` hands back a value that has already been validated"""
    funcs = {f.name: f for f in m.tree.body if isinstance(f, (ast.FunctionDef, ast.AsyncFunctionDef)) and f.name != VALIDATOR}
    out: Set[str] = set()
    changed = True
    while changed:
        changed = False
        for nm, f in funcs.items():
            if nm in out:
                continue
            for c in pf.calls_in(f, False):
                d = pf.dotted(c.func) or ''
                if d == VALIDATOR or d in out:
                    out.add(nm)
                    changed = True
                    break
    return out


_inlined_cache: Dict[Tuple[int, str], Tuple[pf.Module, pf.FuncDef]] = {}


def _with_validating_helpers_inlined(m: pf.Module, qual: str, fn: pf.FuncDef, validating: Set[str]) -> Tuple[pf.Module, pf.FuncDef]:
    """The function with the statement-level calls of validating helpers replaced by their bodies (engines.inline): the validation they
    perform then lies on the caller's own paths.  Only module-level functions; anything that cannot be inlined stays a call."""
    if not validating or '.' in qual or not any(fn is f for f in m.tree.body):
        return m, fn
    if not any(isinstance(c.func, ast.Name) and c.func.id in validating for c in pf.calls_in(fn, False)):
        return m, fn
    key = (id(m), qual)
    if key not in _inlined_cache:
        from engines import inline
        others = tuple(f.name for f in m.tree.body if isinstance(f, (ast.FunctionDef, ast.AsyncFunctionDef)) and f.name not in validating)
        m2, _il = inline.inline_functions(m, qual, exclude=others)
        _inlined_cache[key] = (m2, m2.func(qual))
    return _inlined_cache[key]


def _location_values(node: ast.AST) -> List[ast.expr]:
    """Other ways of sending a redirect: a `Location` header given to a response / assigned into a headers mapping."""
    out: List[ast.expr] = []
    if isinstance(node, ast.Dict):
        for k, v in zip(node.keys, node.values):
            if k is not None and (pf.const_str(k) or '').lower() == 'location':
                out.append(v)
    elif isinstance(node, (ast.Assign, ast.AnnAssign)):
        targets = node.targets if isinstance(node, ast.Assign) else [node.target]
        for t in targets:
            if isinstance(t, ast.Subscript) and (pf.const_str(t.slice) or '').lower() == 'location' and node.value is not None:
                out.append(node.value)
    elif isinstance(node, ast.Call) and isinstance(node.func, ast.Attribute) and node.func.attr in ('add', 'setdefault', '__setitem__') and len(node.args) == 2 \
            and (pf.const_str(node.args[0]) or '').lower() == 'location':
        out.append(node.args[1])
    return out


def _stmt_of(m: pf.Module, fn: pf.FuncDef, node: ast.AST) -> ast.AST:
    par = m.parents()
    cur = node
    while cur is not fn and not isinstance(cur, ast.stmt):
        cur = par[cur]
    return cur


def _scan_function(ctx: Ctx, m: pf.Module, qual: str, fn: pf.FuncDef, imports: Dict[str, str],
                   derived: Optional[Dict[str, List[Tuple[int, str]]]] = None, found: Optional[Dict[str, List[Tuple[int, str]]]] = None,
                   validating: Optional[Set[str]] = None) -> Tuple[int, int]:
    """derived: helper name -> [(parameter position, parameter name)] whose value reaches a redirect unvalidated inside the helper (calls of those
    helpers are sinks here); found: filled with the helpers of that kind discovered in this function."""
    taint = Taint(fn)
    n_red = n_clean = 0
    pnames = [a.arg for a in fn.args.posonlyargs + fn.args.args]

    def sink(rule: str, role: str, value: ast.expr, at: ast.AST) -> str:
        prop: List[str] = []
        r = _check_sink(ctx, m, qual, fn, taint, rule, role, value, at, prop if '.' not in qual else None, validating)
        if r == 'param' and found is not None:
            for name in prop:
                if name in pnames:
                    found.setdefault(qual, []).append((pnames.index(name), name))
        return r
    for node in pf.walk_shallow(fn):
        if isinstance(node, ast.Call):
            loc = _redirect_location(node, imports)
            if loc is not None:
                n_red += 1
                if sink('R1', 'redirect', loc, node) == 'clean':
                    n_clean += 1
            callee = pf.dotted(node.func)
            if derived and callee in derived:
                for pos, pname in derived[callee]:
                    arg = node.args[pos] if pos < len(node.args) and not any(isinstance(a, ast.Starred) for a in node.args) else None
                    for k in node.keywords:
                        if k.arg == pname:
                            arg = k.value
                    ctx.need(arg is not None, f'{m.rel}::{qual}: cannot bind parameter `{pname}` in `{short(pf.nsrc(node), 60)}`')
                    n_red += 1
                    if sink('R1', f'redirect via {callee}({pname})', arg, node) == 'clean':  # type: ignore[arg-type]
                        n_clean += 1
        for loc in _location_values(node):
            n_red += 1
            at = node if isinstance(node, (ast.Assign, ast.AnnAssign, ast.Call)) else _stmt_of(m, fn, node)
            if sink('R1', 'Location header', loc, at) == 'clean':
                n_clean += 1
        if isinstance(node, (ast.Assign, ast.AnnAssign)):
            targets = node.targets if isinstance(node, ast.Assign) else [node.target]
            for t in targets:
                if isinstance(t, ast.Subscript) and isinstance(t.value, ast.Name) and t.value.id in taint.session_names \
                        and pf.const_str(t.slice) == 'next' and node.value is not None:
                    sink('R2', "session['next'] store", node.value, node)
    # other ways of storing `next` in the session that we do not model
    for node in pf.walk_shallow(fn):
        if isinstance(node, ast.Call) and isinstance(node.func, ast.Attribute) and isinstance(node.func.value, ast.Name) \
                and node.func.value.id in taint.session_names and node.func.attr in ('update', 'setdefault', '__setitem__'):
            txt = pf.nsrc(node)
            ctx.need("'next'" not in txt and '"next"' not in txt, f'{m.rel}::{qual}: `{short(txt, 60)}` stores next in the session by an unrecognised idiom')
    return n_red, n_clean


# --------------------------------------------------------------------------------------
# validator shape: helpers seen through, the allow-list side of a comparison as an abstract value
# --------------------------------------------------------------------------------------

_HARMLESS_CALLS = ('log.', 'logging.', 'logger.', 'print')


def _helper_defs(m: pf.Module) -> Dict[str, pf.FuncDef]:
    """Module-level plain functions (candidates for seeing through a call)."""
    return {f.name: f for f in m.tree.body if isinstance(f, ast.FunctionDef) and f.name != VALIDATOR}


def _stmts_to_expr(h: pf.FuncDef, stmts: List[ast.stmt], env: Dict[str, ast.expr]) -> Optional[ast.expr]:
    """The value a side-effect free helper body returns, as one expression (IfExp for branches); None when the body is anything else."""
    import copy

    def subst(e: ast.expr) -> ast.expr:
        class _S(ast.NodeTransformer):
            def visit_Name(self, node: ast.Name):
                if isinstance(node.ctx, ast.Load) and node.id in env:
                    return copy.deepcopy(env[node.id])
                return node
        return _S().visit(copy.deepcopy(e))
    for i, st in enumerate(stmts):
        rest = stmts[i + 1:]
        if isinstance(st, ast.Expr) and isinstance(st.value, ast.Constant):
            continue
        if isinstance(st, ast.Expr) and isinstance(st.value, ast.Call) and (pf.dotted(st.value.func) or '').startswith(_HARMLESS_CALLS):
            continue
        if isinstance(st, ast.Pass):
            continue
        if isinstance(st, ast.Return):
            return subst(st.value) if st.value is not None else ast.Constant(value=None)
        if isinstance(st, (ast.Assign, ast.AnnAssign)):
            tgt = st.targets[0] if isinstance(st, ast.Assign) and len(st.targets) == 1 else (st.target if isinstance(st, ast.AnnAssign) else None)
            if not isinstance(tgt, ast.Name) or st.value is None or isinstance(st.value, (ast.Await, ast.Yield, ast.YieldFrom)):
                return None
            if len(pf.assignments(h).get(tgt.id, [])) != 1:
                return None
            env = dict(env, **{tgt.id: subst(st.value)})
            continue
        if isinstance(st, ast.If):
            a = _stmts_to_expr(h, list(st.body) + list(rest), env)
            b = _stmts_to_expr(h, list(st.orelse) + list(rest), env)
            if a is None or b is None:
                return None
            return ast.IfExp(test=subst(st.test), body=a, orelse=b)
        return None
    return ast.Constant(value=None)


class _ExprInliner(ast.NodeTransformer):
    """Replace `h(args)` in expression position by the expression a side-effect free module-level helper `h` returns (parameters substituted).
    Calls that do not fit stay (and are then met by `_atom_shape` as something outside the table)."""

    def __init__(self, helpers: Dict[str, pf.FuncDef], stack: Tuple[str, ...] = ()):
        self.helpers, self.stack = helpers, stack
        self.seen: List[str] = []

    def visit_Call(self, node: ast.Call):
        import copy
        node = self.generic_visit(node)  # type: ignore[assignment]
        if not (isinstance(node.func, ast.Name) and node.func.id in self.helpers):
            return node
        name = node.func.id
        h = self.helpers[name]
        a = h.args
        if name in self.stack or len(self.stack) >= 3 or h.decorator_list or a.vararg or a.kwarg or a.posonlyargs \
                or any(isinstance(x, ast.Starred) for x in node.args) or any(k.arg is None for k in node.keywords):
            return node
        if any(isinstance(x, (ast.Yield, ast.YieldFrom, ast.Await, ast.Global, ast.Nonlocal, ast.NamedExpr)) for x in pf.walk_shallow(h)):
            return node
        params = [x.arg for x in a.args]
        kwonly = [x.arg for x in a.kwonlyargs]
        if len(node.args) > len(params):
            return node
        bound: Dict[str, ast.expr] = dict(zip(params, node.args))
        for k in node.keywords:
            if k.arg in bound or k.arg not in params + kwonly:
                return node
            bound[k.arg] = k.value  # type: ignore[index]
        defaults = dict(zip(params[len(params) - len(a.defaults):], a.defaults))
        defaults.update({q: d for q, d in zip(kwonly, a.kw_defaults) if d is not None})
        for q in params + kwonly:
            if q not in bound:
                if q not in defaults or not isinstance(defaults[q], ast.Constant):
                    return node
                bound[q] = defaults[q]
        if any(isinstance(n, ast.Name) and isinstance(n.ctx, ast.Store) and n.id in bound for n in pf.walk_shallow(h)):
            return node  # a parameter is rebound
        e = _stmts_to_expr(h, list(h.body), {})
        if e is None:
            return node
        # no capture: a comprehension variable of the helper must not shadow a name the arguments read
        comp_vars = {n.id for c in ast.walk(e) if isinstance(c, ast.comprehension) for n in ast.walk(c.target) if isinstance(n, ast.Name)}
        if comp_vars & (set(bound) | {n.id for v in bound.values() for n in ast.walk(v) if isinstance(n, ast.Name)}):
            return node
        if any(isinstance(n, ast.Lambda) for n in ast.walk(e)):
            return node

        class _P(ast.NodeTransformer):
            def visit_Name(self, n: ast.Name):
                if isinstance(n.ctx, ast.Load) and n.id in bound:
                    return copy.deepcopy(bound[n.id])
                return n
        e = _P().visit(e)
        self.seen.append(name)
        sub = _ExprInliner(self.helpers, self.stack + (name,))
        out = sub.visit(e)
        self.seen.extend(sub.seen)
        return ast.copy_location(out, node)


def _boolify(e: ast.AST) -> ast.AST:
    """A test with conditional expressions turned into and/or/not structure (so that their leaves become the atoms of the truth table)."""
    if isinstance(e, ast.BoolOp):
        return ast.copy_location(ast.BoolOp(op=e.op, values=[_boolify(v) for v in e.values]), e)
    if isinstance(e, ast.UnaryOp) and isinstance(e.op, ast.Not):
        return ast.copy_location(ast.UnaryOp(op=ast.Not(), operand=_boolify(e.operand)), e)
    if isinstance(e, ast.IfExp):
        import copy
        c, a, b = _boolify(e.test), _boolify(e.body), _boolify(e.orelse)
        left = ast.BoolOp(op=ast.And(), values=[c, a])
        right = ast.BoolOp(op=ast.And(), values=[ast.UnaryOp(op=ast.Not(), operand=copy.deepcopy(c)), b])
        return ast.fix_missing_locations(ast.copy_location(ast.BoolOp(op=ast.Or(), values=[left, right]), e))
    if isinstance(e, ast.Call) and isinstance(e.func, ast.Name) and e.func.id == 'bool' and len(e.args) == 1 and not e.keywords:
        return _boolify(e.args[0])
    # any(a or b for v in it) == any(a for v in it) or any(b for v in it);  all(a and b for ...) == all(a for ...) and all(b for ...)
    if isinstance(e, ast.Call) and isinstance(e.func, ast.Name) and e.func.id in ('any', 'all') and len(e.args) == 1 and not e.keywords \
            and isinstance(e.args[0], (ast.GeneratorExp, ast.ListComp)) and isinstance(e.args[0].elt, ast.BoolOp) \
            and isinstance(e.args[0].elt.op, ast.Or if e.func.id == 'any' else ast.And):
        import copy
        gen = e.args[0]
        parts = [ast.Call(func=ast.Name(id=e.func.id, ctx=ast.Load()), args=[ast.GeneratorExp(elt=copy.deepcopy(v), generators=copy.deepcopy(gen.generators))], keywords=[])
                 for v in gen.elt.values]
        return ast.fix_missing_locations(ast.copy_location(ast.BoolOp(op=ast.Or() if e.func.id == 'any' else ast.And(), values=[_boolify(x) for x in parts]), e))
    return e


def _names_outside(fn: pf.FuncDef, inside: ast.AST, name: str) -> bool:
    """is the local `name` mentioned in fn outside the subtree `inside`?"""
    within = {id(x) for x in ast.walk(inside)}
    return any(isinstance(x, ast.Name) and x.id == name and id(x) not in within for x in ast.walk(fn))


def _loops_to_comprehensions(fn: pf.FuncDef) -> int:
    """In place, on the validator copy: the loop spellings of a comprehension / of any() are rewritten to the expression they compute, so that
    the decision list stays loop-free:
        acc = [] ; for v in IT: (t = e)* ; acc.append(E)          ==>  acc = [E[t := e] for v in IT]          (set() / .add likewise)
        for v in IT: if C: return                                   ==>  if any(C for v in IT): return
        for v in IT: if C: break  else: <stmts>                     ==>  if not any(C for v in IT): <stmts>
    Only when the loop variable and the temporaries are not used outside the loop and nothing else touches the accumulator."""
    import copy
    n_rewritten = 0

    def subst(e: ast.expr, env: Dict[str, ast.expr]) -> ast.expr:
        class _S(ast.NodeTransformer):
            def visit_Name(self, node: ast.Name):
                if isinstance(node.ctx, ast.Load) and node.id in env:
                    return copy.deepcopy(env[node.id])
                return node
        return _S().visit(copy.deepcopy(e))

    def temps(stmts: List[ast.stmt], loop: ast.For) -> Optional[Dict[str, ast.expr]]:
        env: Dict[str, ast.expr] = {}
        for st in stmts:
            tgt = st.targets[0] if isinstance(st, ast.Assign) and len(st.targets) == 1 else (st.target if isinstance(st, ast.AnnAssign) else None)
            val = getattr(st, 'value', None)
            if not isinstance(tgt, ast.Name) or val is None or isinstance(val, (ast.Await, ast.Yield, ast.YieldFrom)) or tgt.id in env:
                return None
            if _names_outside(fn, loop, tgt.id):
                return None
            env[tgt.id] = subst(val, env)
        return env

    def clean(loop: ast.For) -> bool:
        return isinstance(loop.target, ast.Name) and not _names_outside(fn, loop, loop.target.id) \
            and not any(isinstance(x, (ast.Await, ast.Yield, ast.YieldFrom, ast.Continue, ast.For, ast.While, ast.Try, ast.With)) for b in loop.body for x in ast.walk(b))

    def block(stmts: List[ast.stmt]) -> List[ast.stmt]:
        nonlocal n_rewritten
        out: List[ast.stmt] = []
        for st in stmts:
            for fld in ('body', 'orelse'):
                b = getattr(st, fld, None)
                if isinstance(b, list) and b and isinstance(b[0], ast.stmt) and not isinstance(st, (ast.FunctionDef, ast.AsyncFunctionDef, ast.ClassDef, ast.For)):
                    setattr(st, fld, block(b))
            if not (isinstance(st, ast.For) and st.body and clean(st)):
                out.append(st)
                continue
            *pre, last = st.body
            gen = ast.comprehension(target=copy.deepcopy(st.target), iter=copy.deepcopy(st.iter), ifs=[], is_async=0)
            # accumulator
            if not st.orelse and isinstance(last, ast.Expr) and isinstance(last.value, ast.Call) and isinstance(last.value.func, ast.Attribute) \
                    and last.value.func.attr in ('append', 'add') and isinstance(last.value.func.value, ast.Name) and len(last.value.args) == 1 and not last.value.keywords:
                acc = last.value.func.value.id
                env = temps(pre, st)
                inits = [(i2, x) for i2, x in enumerate(out) if isinstance(x, (ast.Assign, ast.AnnAssign)) and x.value is not None
                         and any(isinstance(t, ast.Name) and t.id == acc for t in (x.targets if isinstance(x, ast.Assign) else [x.target]))]
                if env is not None and len(inits) == 1 and not any(isinstance(x, ast.Break) for b in st.body for x in ast.walk(b)):
                    i2, init = inits[0]
                    iv = init.value
                    is_list = (isinstance(iv, ast.List) and not iv.elts) or (isinstance(iv, ast.Call) and pf.dotted(iv.func) == 'list' and not iv.args and not iv.keywords)
                    is_set = isinstance(iv, ast.Call) and pf.dotted(iv.func) == 'set' and not iv.args and not iv.keywords
                    stores = [x for x in ast.walk(fn) if isinstance(x, ast.Name) and x.id == acc and isinstance(x.ctx, (ast.Store, ast.Del))]
                    between = [x for x in out[i2 + 1:] for y in ast.walk(x) if isinstance(y, ast.Name) and y.id == acc]
                    in_loop_other = [y for b in st.body for y in ast.walk(b) if isinstance(y, ast.Name) and y.id == acc and y is not last.value.func.value]
                    if ((is_list and last.value.func.attr == 'append') or (is_set and last.value.func.attr == 'add')) and len(stores) == 1 and not between and not in_loop_other:
                        elt = subst(last.value.args[0], env)
                        comp: ast.expr = ast.ListComp(elt=elt, generators=[gen]) if is_list else ast.SetComp(elt=elt, generators=[gen])
                        new = ast.Assign(targets=[ast.Name(id=acc, ctx=ast.Store())], value=comp, lineno=st.lineno)
                        del out[i2]
                        out.append(ast.fix_missing_locations(ast.copy_location(new, st)))
                        n_rewritten += 1
                        continue
            # search loop: `if C: return` / `if C: break ... else:`
            if isinstance(last, ast.If) and not last.orelse and len(last.body) == 1:
                env = temps(pre, st)
                act = last.body[0]
                if env is not None:
                    test = ast.Call(func=ast.Name(id='any', ctx=ast.Load()), args=[ast.GeneratorExp(elt=subst(last.test, env), generators=[gen])], keywords=[])
                    if isinstance(act, ast.Return) and not st.orelse:
                        new_if = ast.If(test=test, body=[act], orelse=[])
                        out.append(ast.fix_missing_locations(ast.copy_location(new_if, st)))
                        n_rewritten += 1
                        continue
                    if isinstance(act, ast.Break) and st.orelse:
                        new_if = ast.If(test=ast.UnaryOp(op=ast.Not(), operand=test), body=block(list(st.orelse)), orelse=[])
                        out.append(ast.fix_missing_locations(ast.copy_location(new_if, st)))
                        n_rewritten += 1
                        continue
            out.append(st)
        return out
    fn.body = block(fn.body)
    ast.fix_missing_locations(fn)
    return n_rewritten


def _prepare_validator(ctx: Ctx, m: pf.Module) -> Tuple[pf.FuncDef, List[str]]:
    """A copy of the validator with its module-level helpers seen through: statement-level calls by engines.inline, calls in expression
    position (a host-extracting helper, a predicate) by substitution of the helper's returned expression; locals of tests expanded."""
    from engines import inline
    helpers = _helper_defs(m)
    m2, il = inline.inline_functions(m, VALIDATOR)
    fn = m2.func(VALIDATOR)
    nloops = _loops_to_comprehensions(fn)
    if nloops:
        ctx.extra_cov['validator_loops_read_as_comprehensions'] = nloops
    xi = _ExprInliner(helpers, (VALIDATOR,))
    fn.body = [xi.visit(st) for st in fn.body]
    ast.fix_missing_locations(fn)
    for n in ast.walk(fn):
        if isinstance(n, ast.If):
            t = _boolify(n.test)
            # a boolean held in a local (`ok = <test>` ... `if not ok`): bring the test back so that its leaves are atoms
            for _ in range(3):
                t2 = _expand_leaf_names(fn, t)
                if t2 is t:
                    break
                t = _boolify(t2)
            n.test = t
    ast.fix_missing_locations(fn)
    # a call of a module-level function that could not be seen through and receives the value under validation: undecidable
    for c in pf.calls_in(fn):
        if isinstance(c.func, ast.Name) and c.func.id in helpers:
            why = next((w for nm, _l, w in il.skipped if nm == c.func.id), 'not a side-effect free single-expression helper')
            raise AnalysisError(f'{VALIDATOR}: the helper call `{short(pf.nsrc(c), 60)}` cannot be seen through ({why}) - cannot decide')
    return fn, sorted(set([nm for nm, _ in il.inlined] + xi.seen))


def _expand_leaf_names(fn: pf.FuncDef, t: ast.AST) -> ast.AST:
    import copy
    if isinstance(t, ast.BoolOp):
        vals = [_expand_leaf_names(fn, v) for v in t.values]
        return t if all(a is b for a, b in zip(vals, t.values)) else ast.copy_location(ast.BoolOp(op=t.op, values=vals), t)
    if isinstance(t, ast.UnaryOp) and isinstance(t.op, ast.Not):
        o = _expand_leaf_names(fn, t.operand)
        return t if o is t.operand else ast.copy_location(ast.UnaryOp(op=ast.Not(), operand=o), t)
    if isinstance(t, ast.Name):
        d = pf.single_def(fn, t.id)
        if d is not None and isinstance(d, ast.expr) and isinstance(d, (ast.BoolOp, ast.UnaryOp, ast.IfExp, ast.Compare, ast.Call)):
            return copy.deepcopy(d)
    return t


class Allow:
    """Abstract value of an expression built from the deployment's own URLs:
       kind 'url'   deploy_config.external_url(<service>, <constant path>) (+ constant suffix)      -> services, path
       kind 'part'  urlparse(<url>).<attr>                                                         -> services, attr
       ops          string operations applied on top (method names / '[]'), outermost first
       coll         a collection (list / set / tuple / generator) of such values instead of one value"""

    def __init__(self, kind: str, services: List[str], path: str = '', attr: str = '', ops: Tuple[str, ...] = (), coll: bool = False):
        self.kind, self.services, self.path, self.attr, self.ops, self.coll = kind, services, path, attr, ops, coll

    def same_elt(self, o: 'Allow') -> bool:
        return (self.kind, self.path, self.attr, self.ops) == (o.kind, o.path, o.attr, o.ops)

    def with_(self, **kw) -> 'Allow':
        d = dict(kind=self.kind, services=list(self.services), path=self.path, attr=self.attr, ops=self.ops, coll=self.coll)
        d.update(kw)
        return Allow(**d)  # type: ignore[arg-type]


class AllowCtx:
    def __init__(self, m: pf.Module, fn: pf.FuncDef, imports: Dict[str, str]):
        self.m, self.fn, self.imports = m, fn, imports

    def is_urlparse(self, call: ast.AST) -> bool:
        if not (isinstance(call, ast.Call) and len(call.args) == 1 and not call.keywords):
            return False
        f = pf.dotted(call.func) or ''
        return f.split('.')[-1] in ('urlparse', 'urlsplit') and self.imports.get(f.split('.')[0], '').startswith('urllib')

    def global_const(self, name: str) -> Optional[ast.expr]:
        """The single module-level definition of a name that the function does not define itself."""
        if name in pf.assignments(self.fn):
            return None
        vals = []
        for st in ast.walk(self.m.tree):
            if isinstance(st, (ast.Global, ast.Nonlocal)) and name in st.names:
                return None
        for st in self.m.tree.body:
            if isinstance(st, ast.Assign) and any(isinstance(t, ast.Name) and t.id == name for t in st.targets):
                vals.append(st.value)
            elif isinstance(st, ast.AnnAssign) and isinstance(st.target, ast.Name) and st.target.id == name and st.value is not None:
                vals.append(st.value)
            elif isinstance(st, (ast.AugAssign, ast.For, ast.With, ast.If, ast.Try, ast.While)) and any(
                    isinstance(n, ast.Name) and n.id == name and isinstance(n.ctx, ast.Store) for n in ast.walk(st)):
                return None
        return vals[0] if len(vals) == 1 else None

    def const_strs(self, e: ast.AST, env: Dict[str, object]) -> Optional[List[str]]:
        """A literal collection of constant strings (through single-definition locals and module constants)."""
        e = self.deref(e, env)
        if isinstance(e, ast.Call) and isinstance(e.func, ast.Name) and e.func.id in ('list', 'tuple', 'set', 'frozenset', 'sorted') and len(e.args) == 1 and not e.keywords:
            return self.const_strs(e.args[0], env)
        if isinstance(e, (ast.List, ast.Tuple, ast.Set)) and e.elts and all(pf.const_str(x) is not None for x in e.elts):
            return [pf.const_str(x) for x in e.elts]  # type: ignore[misc]
        return None

    def deref(self, e: ast.AST, env: Dict[str, object]) -> ast.AST:
        for _ in range(4):
            if isinstance(e, ast.Name) and e.id not in env:
                d = pf.single_def(self.fn, e.id)
                if d is not None and isinstance(d, ast.expr):
                    e = d
                    continue
                g = self.global_const(e.id)
                if g is not None:
                    e = g
                    continue
            break
        return e

    def value(self, e: ast.AST, env: Optional[Dict[str, object]] = None) -> Optional[Allow]:  # noqa: C901
        """Abstract value of e; env binds comprehension variables to an Allow (element of an allowed collection) or to a list of service names."""
        env = env or {}
        if isinstance(e, ast.Name) and e.id in env:
            v = env[e.id]
            return v if isinstance(v, Allow) else None
        e = self.deref(e, env)
        if isinstance(e, ast.Name):
            return None
        if isinstance(e, ast.Call):
            f = pf.dotted(e.func) or ''
            if f.split('.')[-1] == 'external_url' and len(e.args) == 2 and not e.keywords and pf.const_str(e.args[1]) is not None:
                a0 = e.args[0]
                if pf.const_str(a0) is not None:
                    return Allow('url', [pf.const_str(a0)], pf.const_str(e.args[1]))  # type: ignore[list-item,arg-type]
                if isinstance(a0, ast.Name) and isinstance(env.get(a0.id), list):
                    return Allow('url', list(env[a0.id]), pf.const_str(e.args[1]))  # type: ignore[arg-type,call-overload]
                return None
            if isinstance(e.func, ast.Name) and e.func.id in ('list', 'tuple', 'set', 'frozenset', 'sorted') and len(e.args) == 1 and not e.keywords:
                v = self.value(e.args[0], env)
                return v if v is not None and v.coll else None
            if isinstance(e.func, ast.Attribute) and not e.keywords and all(isinstance(a, ast.Constant) for a in e.args):
                v = self.value(e.func.value, env)
                if v is not None and not v.coll:
                    return v.with_(ops=(e.func.attr,) + v.ops)
            return None
        if isinstance(e, ast.Attribute):
            if self.is_urlparse(e.value):
                v = self.value(e.value.args[0], env)  # type: ignore[attr-defined]
                if v is not None and v.kind == 'url' and not v.ops and not v.coll:
                    return Allow('part', v.services, attr=e.attr)
            return None
        if isinstance(e, ast.Subscript) and (isinstance(e.slice, (ast.Constant, ast.Slice)) or (isinstance(e.slice, ast.UnaryOp) and isinstance(e.slice.operand, ast.Constant))):
            v = self.value(e.value, env)
            if v is not None and not v.coll:
                return v.with_(ops=('[]',) + v.ops)
            return None
        if isinstance(e, ast.BinOp) and isinstance(e.op, ast.Add) and pf.const_str(e.right) is not None:
            v = self.value(e.left, env)
            if v is not None and v.kind == 'url' and not v.ops and not v.coll:
                return v.with_(path=v.path + pf.const_str(e.right))  # type: ignore[operator]
            return None
        if isinstance(e, ast.JoinedStr) and e.values and isinstance(e.values[0], ast.FormattedValue) and e.values[0].format_spec is None \
                and e.values[0].conversion == -1 and all(isinstance(x, ast.Constant) for x in e.values[1:]):
            v = self.value(e.values[0].value, env)
            if v is not None and v.kind == 'url' and not v.ops and not v.coll:
                return v.with_(path=v.path + ''.join(str(x.value) for x in e.values[1:]))  # type: ignore[attr-defined]
            return None
        if isinstance(e, (ast.List, ast.Tuple, ast.Set)) and e.elts:
            vs = [self.value(x, env) for x in e.elts]
            if any(v is None or v.coll for v in vs) or not all(vs[0].same_elt(v) for v in vs):  # type: ignore[union-attr,arg-type]
                return None
            return vs[0].with_(services=sorted({s for v in vs for s in v.services}), coll=True)  # type: ignore[union-attr]
        if isinstance(e, (ast.ListComp, ast.SetComp, ast.GeneratorExp)) and len(e.generators) == 1 and not e.generators[0].ifs \
                and not e.generators[0].is_async and isinstance(e.generators[0].target, ast.Name):
            g = e.generators[0]
            env2 = dict(env)
            names = self.const_strs(g.iter, env)
            if names is not None:
                env2[g.target.id] = names
            else:
                src = self.value(g.iter, env)
                if src is None or not src.coll:
                    return None
                env2[g.target.id] = src.with_(coll=False)
            v = self.value(e.elt, env2)
            if v is None or v.coll:
                return None
            return v.with_(coll=True)
        return None


# --------------------------------------------------------------------------------------
# ILLUSTRATION ONLY: the browser's reading of a Location value and a corpus of hostile values, used to print an example for a violation
# that the decision-list analysis has already established (never to decide)
# --------------------------------------------------------------------------------------

SAME_SITE = '<same site>'
NOT_NAVIGABLE = '<not followed>'
_C0_SPACE = ''.join(chr(i) for i in range(0x21))


def browser_host(location: str) -> str:
    r"""Host a browser ends up on when it follows `Location: <location>` sent by an https page (SAME_SITE for a relative reference,
    NOT_NAVIGABLE for schemes a redirect is not followed to).  Small model of the WHATWG URL parser: leading/trailing C0 and space are
    stripped, TAB/LF/CR are removed everywhere, `\` is `/` for special schemes, any run of slashes after a special scheme is skipped."""
    s = location.strip(_C0_SPACE).replace('\t', '').replace('\n', '').replace('\r', '')
    i = 0
    while i < len(s) and (s[i].isascii() and (s[i].isalnum() or s[i] in '+-.')):
        i += 1
    scheme = None
    if 0 < i < len(s) and s[i] == ':' and s[0].isalpha():
        scheme = s[:i].lower()
        rest = s[i + 1:]
    else:
        rest = s
    if scheme is not None:
        if scheme not in ('http', 'https', 'ftp', 'ws', 'wss'):
            return NOT_NAVIGABLE
        if scheme == 'https' and rest[:1] not in ('/', '\\'):
            return SAME_SITE  # same scheme as the base, no slash: relative path
        rest = rest.lstrip('/\\')
    else:
        if not (len(rest) >= 2 and rest[0] in '/\\' and rest[1] in '/\\'):
            return SAME_SITE
        rest = rest.lstrip('/\\')
    end = len(rest)
    for k, ch in enumerate(rest):
        if ch in '/\\?#':
            end = k
            break
    authority = rest[:end]
    hostport = authority.rsplit('@', 1)[-1]
    if hostport.startswith('['):
        host = hostport[:hostport.find(']') + 1]
    else:
        host = hostport.split(':', 1)[0]
    return host.lower().rstrip('.') or SAME_SITE


def _corpus(domains: List[str]) -> List[str]:
    e = 'evil.example'
    g = domains[1] if len(domains) > 1 else domains[0]
    parent = g.split('.', 1)[1] if '.' in g else g
    out = [
        f'https://{e}/', f'http://{e}/', f'//{e}/', f'/\\{e}/', f'\\\\{e}/', f'\\/{e}/', f'/\t/{e}/', f'/\n/{e}/', f'/\r/{e}/', f'/\t\\{e}/', f'/\\\t/{e}/',
        f'\t//{e}/', f' //{e}/', f'///{e}/', f'////{e}/', f'/\\/{e}/', f'/\\\\{e}/', f' /\\{e}/', f'\t/\\{e}/',
        f' https://{e}/', f'\thttps://{e}/', f'\nhttps://{e}/', f'https:/\\{e}/', f'https:\\\\{e}/', f'https:/{e}/', f'https:///{e}/', f'ht\ttps://{e}/',
        f'HTTPS://{e}/', f'hTtPs://{e.upper()}/', f'https://{e}', f'https://{e}:443/', f'https://{e}./',
        f'https://{g}.{e}/', f'https://{g}@{e}/', f'https://{g}:443@{e}/', f'https://{g}%2f@{e}/', f'https://{g}%40{e}/',
        f'https://{e}\\@{g}/', f'https://{e}\\@{g}', f'https://{e}/\\@{g}/', f'//{e}\\@{g}/', f'https://{e}#@{g}/', f'https://{e}?@{g}/', f'https://{e}#@{g}', f'https://{e}?@{g}',
        f'https://{e}/{g}', f'https://{e}/{g}/', f'https://{e}/?next=https://{g}/', f'https://{e}/#https://{g}/', f'https://{e}/https://{g}/', f'https://{e}/.{g}',
        f'https://{e}?{g}', f'https://{e}#{g}', f'https://{e}/?{g}', f'https://{e}/#.{g}', f'https://{e}/x?.{g}',
        f'https://evil{g}/', f'https://evil-{g}/', f'https://{g}evil.example/', f'https://{g}.{e}:443/', f'https://{g}-{e}/',
        f'https://evil.{parent}/', f'https://www.{parent}/', f'https://{parent}/', f'https://evil.{g}/',
        f'//{g}@{e}/', f'//{g}.{e}/', f'/\\{g}@{e}/', f'/\\{e}/{g}', f'/\\{e}/?{g}', f'/\\{e}#{g}',
        f'https://{g}:pw@{e}/', f'https://{e}:{g}@{e}/', f'http://{g}@{e}/', f'https://{g}\\.{e}/',
        f'https://{g.upper()}.{e}/', f'{e}//{g}', f'https://{e}//{g}/',
    ]
    seen = set()
    uniq = []
    for w in out:
        if w not in seen:
            seen.add(w)
            uniq.append(w)
    return uniq


# --------------------------------------------------------------------------------------
# ILLUSTRATION ONLY: evaluator of the string tests, used by _illustrate() to pick an example consistent with an already established failing path
# --------------------------------------------------------------------------------------


class _Unknown(Exception):
    pass


class _Raises(Exception):
    """The evaluated expression raises in Python (IndexError, ValueError...): the validator does not accept."""


_STR_METHODS = {'startswith', 'endswith', 'lower', 'upper', 'casefold', 'strip', 'lstrip', 'rstrip', 'find', 'rfind', 'index', 'count', 'split', 'rsplit', 'partition',
                'rpartition', 'replace', 'removeprefix', 'removesuffix', 'isalnum', 'isalpha', 'isdigit', 'isascii', 'isspace', 'isprintable', 'splitlines', 'join'}
_URL_ATTRS = {'scheme', 'netloc', 'path', 'params', 'query', 'fragment', 'hostname', 'port', 'username', 'password'}


class StrEval:
    def __init__(self, imports: Dict[str, str], env: Dict[str, object]):
        self.imports = imports
        self.env = dict(env)

    def _origin(self, dotted_name: str) -> str:
        head = dotted_name.split('.')[0]
        o = self.imports.get(head, '')
        rest = dotted_name.split('.')[1:]
        return '.'.join([o] + rest) if o else dotted_name

    def ev(self, e: ast.AST):  # noqa: C901
        import urllib.parse as up
        import re as _re
        if isinstance(e, ast.Constant):
            return e.value
        if isinstance(e, ast.Name):
            if e.id in self.env:
                return self.env[e.id]
            raise _Unknown(e.id)
        if isinstance(e, (ast.Tuple, ast.List, ast.Set)):
            vals = [self.ev(x) for x in e.elts]
            return tuple(vals) if isinstance(e, ast.Tuple) else (vals if isinstance(e, ast.List) else set(vals))
        if isinstance(e, ast.JoinedStr):
            parts = []
            for v in e.values:
                if isinstance(v, ast.Constant):
                    parts.append(str(v.value))
                elif isinstance(v, ast.FormattedValue) and v.format_spec is None and v.conversion == -1:
                    parts.append(str(self.ev(v.value)))
                else:
                    raise _Unknown('f-string')
            return ''.join(parts)
        if isinstance(e, ast.BoolOp):
            val = None
            for v in e.values:
                val = self.ev(v)
                if isinstance(e.op, ast.And) and not val:
                    return val
                if isinstance(e.op, ast.Or) and val:
                    return val
            return val
        if isinstance(e, ast.UnaryOp) and isinstance(e.op, ast.Not):
            return not self.ev(e.operand)
        if isinstance(e, ast.IfExp):
            return self.ev(e.body) if self.ev(e.test) else self.ev(e.orelse)
        if isinstance(e, ast.BinOp) and isinstance(e.op, ast.Add):
            a, b = self.ev(e.left), self.ev(e.right)
            if type(a) is type(b) and isinstance(a, (str, list, tuple)):
                return a + b
            raise _Unknown('+')
        if isinstance(e, ast.Compare):
            left = self.ev(e.left)
            for op, c in zip(e.ops, e.comparators):
                right = self.ev(c)
                try:
                    if isinstance(op, ast.Eq):
                        r = left == right
                    elif isinstance(op, ast.NotEq):
                        r = left != right
                    elif isinstance(op, ast.In):
                        r = left in right
                    elif isinstance(op, ast.NotIn):
                        r = left not in right
                    elif isinstance(op, ast.Is):
                        r = left is right if (left is None or right is None or isinstance(left, bool)) else left == right
                    elif isinstance(op, ast.IsNot):
                        r = left is not right if (left is None or right is None or isinstance(left, bool)) else left != right
                    elif isinstance(op, ast.Lt):
                        r = left < right
                    elif isinstance(op, ast.LtE):
                        r = left <= right
                    elif isinstance(op, ast.Gt):
                        r = left > right
                    elif isinstance(op, ast.GtE):
                        r = left >= right
                    else:
                        raise _Unknown('cmp')
                except TypeError as ex:
                    raise _Raises(str(ex)) from ex
                if not r:
                    return False
                left = right
            return True
        if isinstance(e, ast.Subscript):
            base = self.ev(e.value)
            if not isinstance(base, (str, list, tuple)):
                raise _Unknown('subscript')
            try:
                if isinstance(e.slice, ast.Slice):
                    lo = self.ev(e.slice.lower) if e.slice.lower is not None else None
                    hi = self.ev(e.slice.upper) if e.slice.upper is not None else None
                    st = self.ev(e.slice.step) if e.slice.step is not None else None
                    return base[lo:hi:st]
                return base[self.ev(e.slice)]
            except (IndexError, TypeError) as ex:
                raise _Raises(str(ex)) from ex
        if isinstance(e, ast.Attribute):
            base = self.ev(e.value)
            if isinstance(base, (up.ParseResult, up.SplitResult)) and e.attr in _URL_ATTRS:
                try:
                    return getattr(base, e.attr)
                except ValueError as ex:
                    raise _Raises(str(ex)) from ex
            raise _Unknown(f'.{e.attr}')
        if isinstance(e, (ast.GeneratorExp, ast.ListComp, ast.SetComp)):
            return self._comp(e)
        if isinstance(e, ast.Call):
            name = pf.dotted(e.func)
            if name is not None:
                origin = self._origin(name)
                if origin in ('urllib.parse.urlparse', 'urllib.parse.urlsplit') and len(e.args) == 1 and not e.keywords:
                    arg = self.ev(e.args[0])
                    if not isinstance(arg, str):
                        raise _Unknown('urlparse of non-string')
                    try:
                        return up.urlparse(arg) if origin.endswith('urlparse') else up.urlsplit(arg)
                    except ValueError as ex:
                        raise _Raises(str(ex)) from ex
                if name.split('.')[-1] == 'external_url' and len(e.args) >= 2 and not e.keywords:
                    svc, path = self.ev(e.args[0]), self.ev(e.args[1])
                    if isinstance(svc, str) and isinstance(path, str):
                        return f'https://{svc}.hail.is{path}'  # the shape R4 establishes: scheme://<non-empty authority><path>
                    raise _Unknown('external_url')
                if name in ('len', 'bool', 'str', 'any', 'all', 'list', 'tuple', 'set', 'sorted') and len(e.args) == 1 and not e.keywords:
                    arg = self.ev(e.args[0])
                    try:
                        return {'len': len, 'bool': bool, 'str': str, 'any': any, 'all': all, 'list': list, 'tuple': tuple, 'set': set, 'sorted': sorted}[name](arg)
                    except TypeError as ex:
                        raise _Raises(str(ex)) from ex
                if origin in ('re.match', 're.fullmatch', 're.search') and len(e.args) == 2 and not e.keywords:
                    pat, subj = self.ev(e.args[0]), self.ev(e.args[1])
                    if isinstance(pat, str) and isinstance(subj, str):
                        return getattr(_re, origin.split('.')[1])(pat, subj) is not None or None
                    raise _Unknown('re')
            if isinstance(e.func, ast.Attribute) and e.func.attr in _STR_METHODS and not e.keywords:
                base = self.ev(e.func.value)
                if isinstance(base, str):
                    args = [self.ev(a) for a in e.args]
                    if e.func.attr == 'join':
                        args = [list(args[0])] if args else args
                    try:
                        return getattr(base, e.func.attr)(*args)
                    except (TypeError, ValueError) as ex:
                        raise _Raises(str(ex)) from ex
                raise _Unknown('method on non-string')
        raise _Unknown(pf.nsrc(e)[:40])

    def _comp(self, e):
        if len(e.generators) != 1 or e.generators[0].is_async or not isinstance(e.generators[0].target, ast.Name):
            raise _Unknown('comprehension')
        g = e.generators[0]
        it = self.ev(g.iter)
        if not isinstance(it, (list, tuple, set, str)):
            raise _Unknown('comprehension source')
        out = []
        saved = self.env.get(g.target.id, _Unknown)
        try:
            for x in (sorted(it) if isinstance(it, set) else it):
                self.env[g.target.id] = x
                if all(self.ev(c) for c in g.ifs):
                    out.append(self.ev(e.elt))
        finally:
            if saved is _Unknown:
                self.env.pop(g.target.id, None)
            else:
                self.env[g.target.id] = saved
        return set(out) if isinstance(e, ast.SetComp) else out


def _illustrate(conds: List[Tuple[ast.AST, bool]], imports: Dict[str, str], param: str, options: Dict[str, object], domains: List[str]) -> Optional[Tuple[str, str]]:
    """ILLUSTRATION ONLY - never a basis for a verdict.  For a violation the decision-list analysis has already established, pick the first value of the
    corpus that satisfies the failing path's conditions (evaluated with StrEval) and that the browser model resolves to a foreign host."""
    for w in _corpus(domains):
        host = browser_host(w)
        if host in (SAME_SITE, NOT_NAVIGABLE) or host in domains:
            continue
        sev = StrEval(imports, dict(options, **{param: w}))
        try:
            if all(bool(sev.ev(e)) == want for e, want in conds):
                return w, host
        except (_Unknown, _Raises):
            continue
    return None


# --------------------------------------------------------------------------------------
# prefix classes: which strings that no allow-list test has seen can make a browser leave the site?
# --------------------------------------------------------------------------------------

_SPECIAL = ['/', '\\', '\t', '\n', '\r', ' ']
_OTHER, _END = 'other', 'end'
_CLASSES = _SPECIAL + [_OTHER, _END]
_DANGEROUS_SECOND = {'/', '\\', '\t', '\n', '\r'}


def _cls_of(ch: str) -> str:
    return ch if ch in _SPECIAL else _OTHER


def _prefix_matches(k: str, c0: str, c1: str) -> Optional[bool]:
    """Does a string of prefix class (c0, c1) start with the constant k?  None = depends on the string."""
    if k == '':
        return True
    unknown = False
    for ch, c in zip(k[:2], (c0, c1)):
        if c == _END:
            return False
        if _cls_of(ch) == _OTHER:
            if c != _OTHER:
                return False
            unknown = True
        elif c != ch:
            return False
    if len(k) > 2:
        unknown = True
    return None if unknown else True


def _class_eval(e: ast.AST, p: str, c0: str, c1: str) -> Optional[bool]:
    """Three-valued value of a test on the strings of one prefix class (None: not determined by the first two characters / not interpreted)."""
    if isinstance(e, ast.UnaryOp) and isinstance(e.op, ast.Not):
        v = _class_eval(e.operand, p, c0, c1)
        return None if v is None else not v
    if isinstance(e, ast.BoolOp):
        vals = [_class_eval(v, p, c0, c1) for v in e.values]
        if isinstance(e.op, ast.And):
            return False if any(v is False for v in vals) else (True if all(v is True for v in vals) else None)
        return True if any(v is True for v in vals) else (False if all(v is False for v in vals) else None)
    if isinstance(e, ast.Name) and e.id == p:
        return c0 != _END
    if isinstance(e, ast.Call) and isinstance(e.func, ast.Attribute) and e.func.attr == 'startswith' and isinstance(e.func.value, ast.Name) and e.func.value.id == p \
            and len(e.args) == 1 and not e.keywords:
        a = e.args[0]
        ks = [pf.const_str(a)] if pf.const_str(a) is not None else ([pf.const_str(x) for x in a.elts] if isinstance(a, ast.Tuple) else [None])
        if any(k is None for k in ks):
            return None
        rs = [_prefix_matches(k, c0, c1) for k in ks]  # type: ignore[arg-type]
        return True if any(r is True for r in rs) else (False if all(r is False for r in rs) else None)
    if isinstance(e, ast.Compare) and len(e.ops) == 1:
        l, r, op = e.left, e.comparators[0], e.ops[0]
        # p[i] / p[:n] against constants
        for x, y, flipped in ((l, r, False), (r, l, True)):
            if isinstance(x, ast.Subscript) and isinstance(x.value, ast.Name) and x.value.id == p:
                if isinstance(x.slice, ast.Constant) and x.slice.value in (0, 1) and not flipped:
                    c = (c0, c1)[x.slice.value]
                    if c == _END:
                        return None  # IndexError: the validator raises; not an accepting path - leave undetermined
                    consts = None
                    if isinstance(op, (ast.Eq, ast.NotEq)) and pf.const_str(y) is not None:
                        consts = [pf.const_str(y)]
                    elif isinstance(op, (ast.In, ast.NotIn)):
                        if pf.const_str(y) is not None:
                            consts = list(pf.const_str(y))  # type: ignore[arg-type]
                        elif isinstance(y, (ast.Tuple, ast.List, ast.Set)) and all(pf.const_str(z) is not None for z in y.elts):
                            consts = [pf.const_str(z) for z in y.elts]
                    if consts is None:
                        return None
                    hit: Optional[bool]
                    if c == _OTHER:
                        hit = None if any(len(k) == 1 and _cls_of(k) == _OTHER for k in consts) else False  # type: ignore[arg-type]
                    else:
                        hit = c in consts
                    if hit is None:
                        return None
                    return hit if isinstance(op, (ast.Eq, ast.In)) else not hit
                if isinstance(x.slice, ast.Slice) and isinstance(x.slice.lower, ast.Constant) and x.slice.lower.value == 1 and x.slice.step is None \
                        and isinstance(x.slice.upper, ast.Constant) and x.slice.upper.value == 2 and not flipped:
                    # p[1:2]: the second character, '' when there is none
                    consts = None
                    if isinstance(op, (ast.Eq, ast.NotEq)) and pf.const_str(y) is not None:
                        consts = [pf.const_str(y)]
                    elif isinstance(op, (ast.In, ast.NotIn)) and isinstance(y, (ast.Tuple, ast.List, ast.Set)) and all(pf.const_str(z) is not None for z in y.elts):
                        consts = [pf.const_str(z) for z in y.elts]
                    if consts is None:
                        return None
                    if c1 == _END:
                        hit2: Optional[bool] = '' in consts
                    elif c1 == _OTHER:
                        hit2 = None if any(len(k) == 1 and _cls_of(k) == _OTHER for k in consts) else False  # type: ignore[arg-type]
                    else:
                        hit2 = c1 in consts
                    if hit2 is None:
                        return None
                    return hit2 if isinstance(op, (ast.Eq, ast.In)) else not hit2
                if isinstance(x.slice, ast.Slice) and (x.slice.lower is None or (isinstance(x.slice.lower, ast.Constant) and x.slice.lower.value == 0)) \
                        and x.slice.step is None and isinstance(x.slice.upper, ast.Constant) \
                        and x.slice.upper.value in (1, 2) and isinstance(op, (ast.Eq, ast.NotEq)) and pf.const_str(y) is not None:
                    n = x.slice.upper.value
                    k = pf.const_str(y)
                    have = [c for c in (c0, c1)[:n] if c != _END]
                    if len(k) != len(have):  # type: ignore[arg-type]
                        m: Optional[bool] = False
                    else:
                        m = _prefix_matches(k, c0, c1) if k else (c0 == _END)  # type: ignore[arg-type]
                    if m is None:
                        return None
                    return m if isinstance(op, ast.Eq) else not m
        # 'c' in p
        if isinstance(op, (ast.In, ast.NotIn)) and isinstance(r, ast.Name) and r.id == p and pf.const_str(l) is not None and len(pf.const_str(l)) == 1:  # type: ignore[arg-type]
            ch = pf.const_str(l)
            if _cls_of(ch) != _OTHER and ch in (c0, c1):  # type: ignore[arg-type]
                return isinstance(op, ast.In)
            return None
    return None


def _leaving_classes(conds: List[Tuple[ast.AST, bool]], p: str) -> List[Tuple[str, str]]:
    """Prefix classes compatible with the path condition whose strings a browser may resolve to another host.  Tests that are not
    interpreted only restrict further, so ignoring them keeps the answer an over-approximation of the accepted strings."""
    out = []
    for c0 in _CLASSES:
        for c1 in _CLASSES:
            if c0 == _END and c1 != _END:
                continue
            if any(_class_eval(e, p, c0, c1) is (not want) for e, want in conds):
                continue
            safe = c0 == '/' and c1 not in _DANGEROUS_SECOND
            if not safe:
                out.append((c0, c1))
    return out


def _mentions_param(e: ast.AST, p: str) -> bool:
    return any(isinstance(n, ast.Name) and n.id == p for n in ast.walk(e))


# --------------------------------------------------------------------------------------
# closed table of condition shapes: what does a test on the value say about the host a browser will go to?
# --------------------------------------------------------------------------------------
#   'member'   urlparse(p).netloc [not] in <netlocs of the statement's services>           establishes the host (positive polarity)
#   'origin'   p.startswith(<external_url(svc, '/...')>)  (authority terminated by '/')     establishes the host (positive polarity)
#   'prefix'   tests of the first two characters of p                                       decided per prefix class (_class_eval)
#   'nonconf'  recognised, and under either polarity does NOT confine the host              (kind, generic witness schema)
#   None       not in the table: the path cannot be decided

_NONCONF = {
    'emptiness': ("tests only whether {x} is empty as Python's urlparse sees it; a browser reads `/\\host`, `/<TAB>/host`, `https:/host` differently", '/\\evil.example/'),
    'scheme': ('tests the scheme only', 'https://evil.example/'),
    'hostname': ('compares urlparse().hostname, which Python takes after the last `@` even when a `\\` (a path separator for browsers) precedes it',
                 'https://evil.example\\@{good}/'),
    'transformed-netloc': ('compares only a part of the netloc (split / partition / slice): the discarded rest - after a `:` or `@` - is where the real host hides', 'https://{good}@evil.example/  or  https://{good}:x@evil.example/'),
    'suffix': ('is a suffix test: any host or URL that merely ends with an allowed name passes', 'https://evil{good}/  or  https://evil.example/?{good}'),
    'substring': ('is a substring test: the allowed name can sit in the path, query or a longer host', 'https://evil.example/?{good}'),
    'origin-prefix': ('is a prefix test on the raw URL with an origin that is not terminated by `/`: the authority can continue', 'https://{good}.evil.example/  or  https://{good}@evil.example/'),
    'netloc-prefix': ('is a prefix test on the netloc: the host can continue', 'https://{good}.evil.example/'),
}


def _root(e: ast.AST, p: str, imports: Dict[str, str]) -> Optional[Tuple[str, List[str]]]:
    """('raw' | 'attr:<urlparse attribute>', [string operations applied on top]) if e is derived from the parameter by method calls / subscripts only."""
    ops: List[str] = []
    cur = e
    while True:
        if isinstance(cur, ast.Name) and cur.id == p:
            return 'raw', ops
        if isinstance(cur, ast.Attribute) and isinstance(cur.value, ast.Call) and len(cur.value.args) == 1 and not cur.value.keywords \
                and isinstance(cur.value.args[0], ast.Name) and cur.value.args[0].id == p:
            f = pf.dotted(cur.value.func) or ''
            if f.split('.')[-1] in ('urlparse', 'urlsplit') and imports.get(f.split('.')[0], '').startswith('urllib'):
                return 'attr:' + cur.attr, ops
            return None
        if isinstance(cur, ast.Call) and isinstance(cur.func, ast.Attribute) and not cur.keywords and all(isinstance(a, ast.Constant) for a in cur.args):
            ops.append(cur.func.attr)
            cur = cur.func.value
        elif isinstance(cur, ast.Subscript) and (isinstance(cur.slice, ast.Constant) or isinstance(cur.slice, ast.Slice) or
                                                 (isinstance(cur.slice, ast.UnaryOp) and isinstance(cur.slice.operand, ast.Constant))):
            ops.append('[]')
            cur = cur.value
        else:
            return None


class Shape:
    def __init__(self, kind: str, sub: str = '', x: str = '', services: Optional[List[str]] = None, neg: bool = False):
        # neg: the atom being TRUE means the value is NOT a member (`not in`, `!=`, all(... != ...))
        self.kind, self.sub, self.x, self.services, self.neg = kind, sub, x, services, neg


_PART_OPS = ('split', 'rsplit', 'partition', 'rpartition', 'splitlines', '[]')


def _exact_shape(rv: Tuple[str, List[str]], al: Allow, neg: bool, subject: str) -> Optional[Shape]:
    """Equality of a value derived from the parameter (`_root` descriptor rv) with ONE element of the allow-side value `al`."""
    root, ops = rv
    if al.kind == 'part':
        if root == 'attr:netloc' and not ops:
            if al.attr == 'netloc' and not al.ops:
                return Shape('member', services=al.services, neg=neg)
            return None  # exact netloc against something else than the services' netlocs: not in the table
        if root == 'attr:hostname':
            return Shape('nonconf', 'hostname')
        if root in ('attr:netloc', 'raw') and any(o in _PART_OPS for o in ops):
            return Shape('nonconf', 'transformed-netloc', subject)  # only a part of the authority / of the URL is compared
        # case folding, strip / removesuffix / replace of an otherwise exact test (may be harmless: `:443` removed, trailing dot): not in the table
        return None
    if al.kind == 'url':
        if rv == ('raw', []) and not al.ops:
            return Shape('member', services=al.services, neg=neg)  # the whole value IS one of the deployment's own URLs
        return None
    return None


def _atom_shape(actx: AllowCtx, a: ast.AST, p: str, env: Optional[Dict[str, object]] = None) -> Optional[Shape]:  # noqa: C901
    """Look an (expanded) atomic test up in the closed table."""
    fn, imports = actx.fn, actx.imports
    env = env or {}
    # any(<elt> for v in <services | allowed values>) / all(...)
    if isinstance(a, ast.Call) and isinstance(a.func, ast.Name) and a.func.id in ('any', 'all') and len(a.args) == 1 and not a.keywords \
            and isinstance(a.args[0], (ast.GeneratorExp, ast.ListComp)) and len(a.args[0].generators) == 1 and not a.args[0].generators[0].ifs \
            and isinstance(a.args[0].generators[0].target, ast.Name):
        g = a.args[0].generators[0]
        env2 = dict(env)
        names = actx.const_strs(g.iter, env)
        if names is not None:
            env2[g.target.id] = names
        else:
            src = actx.value(g.iter, env)
            if src is None or not src.coll:
                return None
            env2[g.target.id] = src.with_(coll=False)
        elt = a.args[0].elt
        neg = False
        while isinstance(elt, ast.UnaryOp) and isinstance(elt.op, ast.Not):
            elt, neg = elt.operand, not neg
        if isinstance(elt, ast.BoolOp):
            return None
        sh = _atom_shape(actx, pf.expand_locals(fn, elt, 4), p, env2)
        if sh is None or sh.kind == 'prefix':
            return None
        if sh.kind in ('member', 'origin'):
            is_neg = sh.neg != neg
            if a.func.id == 'any' and not is_neg:
                return Shape(sh.kind, services=sh.services)          # some allowed value matches
            if a.func.id == 'all' and is_neg and sh.kind == 'member':
                return Shape(sh.kind, services=sh.services, neg=True)  # no allowed value matches
            return None
        return sh
    # truthiness / emptiness
    r = _root(a, p, imports)
    if r is not None and not r[1]:
        if r[0] == 'raw':
            return Shape('prefix')
        return Shape('nonconf', 'emptiness', f'urlparse({p}).{r[0][5:]}')
    if isinstance(a, ast.Compare) and len(a.ops) == 1:
        l, rt, op = a.left, a.comparators[0], a.ops[0]
        rl, rr = _root(l, p, imports), _root(rt, p, imports)
        # <value> in <allow-side>
        if isinstance(op, (ast.In, ast.NotIn)) and rl is not None:
            al = actx.value(rt, env)
            if al is not None:
                if not al.coll:
                    return Shape('nonconf', 'substring', pf.nsrc(l))  # `netloc in <one allowed name>`: substring of a string
                return _exact_shape(rl, al, isinstance(op, ast.NotIn), pf.nsrc(l))
        # <value> == <one allowed value>
        if isinstance(op, (ast.Eq, ast.NotEq)):
            for x, y, rx in ((l, rt, rl), (rt, l, rr)):
                if rx is None:
                    continue
                al = actx.value(y, env)
                if al is not None and not al.coll:
                    return _exact_shape(rx, al, isinstance(op, ast.NotEq), pf.nsrc(x))
        # `<allowed name> in <value>`: substring
        if isinstance(op, (ast.In, ast.NotIn)) and rr is not None and rr[0] in ('raw', 'attr:netloc', 'attr:path', 'attr:hostname'):
            if rr == ('raw', []) and pf.const_str(l) is not None and len(pf.const_str(l)) == 1:  # type: ignore[arg-type]
                return Shape('prefix')
            al = actx.value(l, env)
            if (al is not None and not al.coll) or pf.const_str(l) is not None:
                return Shape('nonconf', 'substring')
            return None
        # comparisons with constants
        for x, y, rx in ((l, rt, rl), (rt, l, rr)):
            if rx is None:
                continue
            const = isinstance(y, ast.Constant) or (isinstance(y, (ast.Tuple, ast.List, ast.Set)) and all(isinstance(z, ast.Constant) for z in y.elts))
            if not const:
                continue
            if rx[0] == 'raw':
                if any(_class_eval(a, p, c0, c1) is not None for c0 in _CLASSES for c1 in _CLASSES):
                    return Shape('prefix')
                if isinstance(y, ast.Constant) and y.value in ('', None):
                    return Shape('prefix')
                return None
            if rx[0] == 'attr:scheme' and not rx[1]:
                return Shape('nonconf', 'scheme') if not (isinstance(y, ast.Constant) and y.value in ('', None)) else Shape('nonconf', 'emptiness', f'urlparse({p}).scheme')
            if isinstance(y, ast.Constant) and y.value in ('', None) and not rx[1]:
                return Shape('nonconf', 'emptiness', f'urlparse({p}).{rx[0][5:]}')
            return None
        # len(p) <op> n
        if isinstance(l, ast.Call) and pf.dotted(l.func) == 'len' and len(l.args) == 1 and _root(l.args[0], p, imports) == ('raw', []) and isinstance(rt, ast.Constant) \
                and rt.value in (0, 1):
            return Shape('prefix')
        return None
    # string predicates
    if isinstance(a, ast.Call) and isinstance(a.func, ast.Attribute) and len(a.args) >= 1 and not a.keywords:
        base = _root(a.func.value, p, imports)
        meth = a.func.attr
        if base is None:
            # `<allowed name>.startswith(p)` and the like: not in the table
            return None
        arg = a.args[0]
        if meth == 'endswith':
            return Shape('nonconf', 'suffix')
        if meth in ('find', 'rfind', 'index', 'count'):
            return Shape('nonconf', 'substring')
        if meth == 'startswith':
            if base[0] == 'attr:netloc':
                return Shape('nonconf', 'netloc-prefix')
            if base != ('raw', []):
                return None
            al = actx.value(arg, env)
            if al is not None:
                # one allowed value or a tuple of them: the verdict is the same for every element
                if al.kind == 'url' and not al.ops:
                    return Shape('origin', services=al.services) if al.path[:1] in ('/', '?', '#') and al.path else Shape('nonconf', 'origin-prefix')
                if al.kind == 'part' and al.attr in ('netloc', 'hostname'):
                    return Shape('nonconf', 'origin-prefix')
                return None
            arg = pf.expand_locals(fn, arg, 4)
            lits = [pf.const_str(arg)] if pf.const_str(arg) is not None else (
                [pf.const_str(z) for z in arg.elts] if isinstance(arg, ast.Tuple) and all(pf.const_str(z) is not None for z in arg.elts) else None)
            if lits is not None:
                if any('://' in k or k.lower().startswith(('http:', 'https:')) for k in lits):  # type: ignore[union-attr]
                    return None  # a hard-coded origin: cannot be related to the deployment's netlocs
                return Shape('prefix')
            return None
    return None


def _opaque_call(executed: List[ast.stmt], p: str) -> Optional[ast.Call]:
    """A statement-level call on the path that receives the value under validation and is not known to be harmless: it may be the real check."""
    for st in executed:
        v = st.value if isinstance(st, ast.Expr) else None
        if isinstance(v, ast.Await):
            v = v.value
        if isinstance(v, ast.Call) and not (pf.dotted(v.func) or '').startswith(_HARMLESS_CALLS) \
                and any(_mentions_param(x, p) for x in list(v.args) + [k.value for k in v.keywords]):
            return v
    return None


def _const_truth(e: ast.AST, binding: Dict[str, object]) -> Optional[bool]:
    """Truth of a test that only reads an option of the validator, under the constant the call sites pass (constant propagation)."""
    if isinstance(e, ast.Name) and e.id in binding:
        return bool(binding[e.id])
    if isinstance(e, ast.Compare) and len(e.ops) == 1 and isinstance(e.left, ast.Name) and e.left.id in binding and isinstance(e.comparators[0], ast.Constant):
        v, c = binding[e.left.id], e.comparators[0].value
        if isinstance(e.ops[0], (ast.Eq, ast.Is)):
            return v == c
        if isinstance(e.ops[0], (ast.NotEq, ast.IsNot)):
            return v != c
    return None


def _check_validator(ctx: Ctx, m: pf.Module, imports: Dict[str, str]) -> int:
    fn, seen_through = _prepare_validator(ctx, m)
    if seen_through:
        ctx.extra_cov['validator_helpers_seen_through'] = seen_through
    actx = AllowCtx(m, fn, imports)
    params = [a.arg for a in fn.args.posonlyargs + fn.args.args]
    ctx.need(len(params) >= 1 and not fn.args.vararg and not fn.args.kwarg, f'{VALIDATOR}: unexpected parameters {params}')
    p = params[0]
    # further parameters are options: the values they can take are their defaults and the constants the call sites pass
    opt_values: Dict[str, List[object]] = {}
    extras = params[1:] + [a.arg for a in fn.args.kwonlyargs]
    if extras:
        dflt = dict(zip(params[len(params) - len(fn.args.defaults):], fn.args.defaults))
        dflt.update({a.arg: d for a, d in zip(fn.args.kwonlyargs, fn.args.kw_defaults) if d is not None})
        for x in extras:
            ctx.need(x in dflt and isinstance(dflt[x], ast.Constant), f'{VALIDATOR}: option `{x}` has no constant default')
            opt_values[x] = [dflt[x].value]  # type: ignore[union-attr]
        for rel in pf.walk_py(['auth/auth']):
            for n in ast.walk(pf.load(rel).tree):
                if isinstance(n, ast.Call) and (pf.dotted(n.func) or '').split('.')[-1] == VALIDATOR:
                    given = list(zip(params[1:], n.args[1:])) + [(k.arg, k.value) for k in n.keywords if k.arg in extras]
                    ctx.need(not any(isinstance(a, ast.Starred) for a in n.args) and all(k.arg is not None for k in n.keywords), f'{VALIDATOR}: call with star arguments')
                    for x, v in given:
                        if isinstance(v, ast.Constant):
                            if v.value not in opt_values[x]:
                                opt_values[x].append(v.value)
                        else:
                            ctx.need(isinstance(opt_values[x][0], bool), f'{VALIDATOR}: option `{x}` is passed a computed non-boolean value')
                            opt_values[x] = [False, True]
    import itertools
    bindings: List[Dict[str, object]] = [dict(zip(opt_values, combo)) for combo in itertools.product(*opt_values.values())] if opt_values else [{}]
    ctx.need(not any(isinstance(n, (ast.Try, ast.While, ast.For, ast.With, ast.AsyncWith, ast.Match)) for n in pf.walk_shallow(fn)),
             f'{VALIDATOR}: loops/try/with in the validator body are not a recognised shape')
    ctx.need(not any(isinstance(n, ast.Name) and n.id in params and isinstance(n.ctx, ast.Store) for n in pf.walk_shallow(fn)), f'{VALIDATOR}: a parameter is rebound')
    cons = f'{F}::{VALIDATOR}'
    atoms = absdom.collect_test_atoms(fn.body)
    ctx.need(len(atoms) <= 10, f'{VALIDATOR}: too many tests for the truth table')
    by_key: Dict[str, ast.AST] = {absdom.atom_key(a): pf.expand_locals(fn, a, 4) for a in atoms}
    line_of = {absdom.atom_key(a): getattr(a, 'lineno', fn.lineno) for a in atoms}
    keys = list(by_key)
    about_value = [k for k in keys if _mentions_param(by_key[k], p)]
    on_options = [k for k in keys if k not in about_value and pf.names_in(by_key[k]) & set(extras)]
    shapes: Dict[str, Optional[Shape]] = {k: _atom_shape(actx, by_key[k], p) for k in about_value}
    services: Optional[List[str]] = None
    for k in about_value:
        sh = shapes[k]
        if sh is not None and sh.kind in ('member', 'origin'):
            services = sorted(set(services or []) | set(sh.services or []))
    # a membership test on something else than the parameter
    for k in keys:
        if k in about_value:
            continue
        a = by_key[k]
        if isinstance(a, ast.Compare) and len(a.ops) == 1 and isinstance(a.ops[0], (ast.In, ast.NotIn)):
            al = actx.value(a.comparators[0])
            if al is not None and al.coll and al.kind == 'part' and isinstance(a.left, ast.Attribute) and actx.is_urlparse(a.left.value):
                subject = a.left.value.args[0]  # type: ignore[attr-defined]
                if actx.value(subject) is None:
                    ctx.bad('R3', cons + '::subject', f'the membership test parses `{pf.nsrc(subject)}`, not the parameter `{p}` being validated', m.path, line_of[k])
    if services is not None:
        extra = sorted(set(services) - SERVICES)
        ctx.check(not extra, 'R3', cons + '::services',
                  f'valid hosts include service(s) {extra} beyond the statement\'s batch/auth/ci/monitoring: a next URL on that host is accepted', m.path, fn.lineno,
                  detail={'services': services})

    # -- the decision list as a truth table over its tests (atoms independent; option tests fixed by constant propagation)
    rows = 0
    violating: Dict[str, dict] = {}
    undecided: Dict[str, str] = {}
    proven: List[str] = []
    established_paths = 0
    for b in bindings:
        fixed = {k: _const_truth(by_key[k], b) for k in on_options}
        free = [k for k in keys if fixed.get(k) is None]
        for fv in absdom.valuations(free):
            consulted: List[Tuple[str, bool]] = []

            def val(atom: ast.AST) -> bool:
                key = absdom.atom_key(atom)
                r = fixed[key] if fixed.get(key) is not None else fv[key]
                consulted.append((key, bool(r)))
                return bool(r)
            o = absdom.walk_block(fn.body, val)
            rows += 1
            if o.kind == 'raise':
                continue
            # does the path establish the host?
            est = [kk for kk, rr in consulted if kk in about_value and shapes[kk] is not None and shapes[kk].kind in ('member', 'origin')  # type: ignore[union-attr]
                   and rr == (not shapes[kk].neg)]  # type: ignore[union-attr]
            if est:
                established_paths += 1
                continue
            sig = '; '.join((short(kk, 60) if rr else f'not ({short(kk, 60)})') for kk, rr in consulted) or 'no test'
            if sig in violating or sig in undecided or sig in proven:
                continue
            conds = [(by_key[kk], rr) for kk, rr in consulted if kk in about_value]
            unknown = [kk for kk, _ in consulted if kk in about_value and shapes[kk] is None]
            if unknown:
                undecided[sig] = f'its condition `{short(unknown[0], 80)}` is not in the table of recognised shapes'
                continue
            opaque = _opaque_call(o.executed, p)
            if opaque is not None:
                undecided[sig] = f'the statement `{short(pf.nsrc(opaque), 60)}` on it receives the value and may be the real check (not seen through)'
                continue
            prefix_conds = [(by_key[kk], rr) for kk, rr in consulted if kk in about_value and shapes[kk].kind == 'prefix']  # type: ignore[union-attr]
            leaving = _leaving_classes(prefix_conds, p)
            if not leaving:
                proven.append(sig)
                continue
            violating[sig] = {'conds': conds, 'binding': b, 'kind': o.kind, 'leaving': leaving,
                              'nonconf': [(kk, shapes[kk]) for kk, _ in consulted if kk in about_value and shapes[kk].kind == 'nonconf'],  # type: ignore[union-attr]
                              'other': {kk: rr for kk, rr in consulted if kk not in about_value}}
    ctx.unit('validator_accepting_paths', established_paths + len(violating) + len(undecided) + len(proven))
    if violating:
        domains = [f'{s_}.hail.is' for s_ in ['batch', 'auth', 'ci', 'monitoring']]
        sig, v = next(iter(violating.items()))
        why = []
        for kk, sh in v['nonconf']:
            txt, schema = _NONCONF[sh.sub]
            why.append(f'`{short(kk, 70)}` ' + txt.format(x=sh.x or p) + f' (schema: {schema.format(good="<allowed netloc>")})')
        shown = ', '.join(repr(''.join('' if c == _END else ('x' if c == _OTHER else c) for c in cl)) + '…' for cl in v['leaving'][:6])
        ill = _illustrate(v['conds'], imports, p, v['binding'], domains)
        msg = (f'{VALIDATOR} accepts (ends by `{v["kind"]}`) on the path [{short(sig, 260)}]' + (f' with option(s) {v["binding"]}' if v['binding'] else '')
               + f' without having established `urlparse({p}).netloc in <netlocs of batch/auth/ci/monitoring>`, and the conditions of that path do not confine the value to '
               f'site-relative references: values beginning {shown} remain possible'
               + ('; ' + '; '.join(why) if why else '')
               + (f'. Example consistent with the path: {p}={ill[0]!r} -> the browser goes to {ill[1]!r}' if ill else '. Example: next=https://evil.example/ or /\\evil.example/'))
        ctx.bad('R3', cons + '::decision', msg, m.path, fn.lineno, extra={'paths': list(violating), 'illustration': ill})
        return rows
    if undecided:
        sig, k = next(iter(undecided.items()))
        raise AnalysisError(f'{VALIDATOR}: the path [{short(sig, 160)}] accepts without an exact allow-list test and {k} - cannot decide')
    ctx.need(established_paths + len(proven) >= 1, f'{VALIDATOR}: no accepting path (unrecognised shape)')
    ctx.ok('R3', cons + '::decision', {'rows': rows, 'tests': keys, 'services': services, 'paths_accepting_after_exact_membership': established_paths,
                                        'paths_confined_to_site_relative_values': proven})
    return rows


def _url_template(fn: pf.FuncDef, e: ast.AST, depth: int = 4) -> Optional[str]:
    """The returned string with every computed part replaced by \\x00: f-strings, `a + b`, constants, and locals holding such pieces
    (one definition) are spelled out; None when the expression is none of these."""
    if isinstance(e, ast.Constant) and isinstance(e.value, str):
        return e.value
    if isinstance(e, ast.JoinedStr):
        def hole(h: ast.expr) -> str:
            if isinstance(h, ast.Name) and depth > 0:
                d = pf.single_def(fn, h.id)
                if isinstance(d, (ast.JoinedStr, ast.BinOp)) or (isinstance(d, ast.Constant) and isinstance(d.value, str)):
                    t = _url_template(fn, d, depth - 1)
                    if t is not None:
                        return t
            return '\x00'
        return pf.fstring_template(e, hole)
    if isinstance(e, ast.BinOp) and isinstance(e.op, ast.Add):
        a, b = _url_template(fn, e.left, depth), _url_template(fn, e.right, depth)
        if a is None and b is None:
            return None
        return (a if a is not None else '\x00') + (b if b is not None else '\x00')
    if isinstance(e, ast.Name) and depth > 0:
        d = pf.single_def(fn, e.id)
        if isinstance(d, ast.expr):
            return _url_template(fn, d, depth - 1)
    return None


def _check_external_url(ctx: Ctx) -> None:
    md = pf.load(FD)
    fn = md.func('DeployConfig.external_url')
    rets = [n for n in pf.walk_shallow(fn) if isinstance(n, ast.Return)]
    ctx.need(rets, 'DeployConfig.external_url has no return')
    nth = 0
    for r in rets:
        ctx.need(r.value is not None, 'DeployConfig.external_url: bare return')
        # a returned local with several definitions (`url = ...` per branch): every definition is a returned value
        vals: List[ast.AST] = [r.value]  # type: ignore[list-item]
        if isinstance(r.value, ast.Name) and pf.single_def(fn, r.value.id) is None:
            vals = list(pf.assignments(fn).get(r.value.id, []))
            ctx.need(vals and all(isinstance(v, ast.expr) for v in vals), f'DeployConfig.external_url: `{r.value.id}` is not defined by plain assignments')
        for v in vals:
            nth += 1
            tpl = _url_template(fn, v)
            ctx.need(tpl is not None, f'DeployConfig.external_url: return `{short(pf.nsrc(v), 60)}` is not an f-string / concatenation of string pieces')
            cons = f'{FD}::DeployConfig.external_url::returned URL #{nth}'
            i = tpl.find('://')  # type: ignore[union-attr]
            ok = i >= 1 and '/' not in tpl[:i] and len(tpl) > i + 3 and tpl[i + 3] not in '/?#'  # type: ignore[index,arg-type]
            ctx.check(ok, 'R4', cons, f'the returned URL `{short(pf.nsrc(v), 70)}` has no `scheme://authority` prefix, so its netloc is empty and the validator\'s list of valid '
                      'netlocs contains \'\': next=/\\evil.example (netloc \'\') is accepted and browsers follow it to evil.example', md.path, r.lineno,
                      detail={'template': tpl.replace('\x00', '{}')})  # type: ignore[union-attr]


def run(ctx: Ctx) -> None:
    ctx.explanation = ('Taint/def-use over every function of auth/auth/*.py with CFG must-pass-through (exception edges out of the validation do not count as '
                       'validated); decision list of validate_next_page_url: truth table over a closed table of condition shapes + prefix classes; f-string shape of '
                       'DeployConfig.external_url.')
    ctx.rule('R1', 'every redirect whose location is client-controlled (request / session) is preceded on every path by validate_next_page_url on that value', 3)
    ctx.rule('R2', "every session['next'] store of a client-controlled value is preceded on every path by validate_next_page_url on that value", 3)
    ctx.rule('R3', 'every accepting path of validate_next_page_url has found urlparse(next).netloc to be an exact member of the netlocs of batch/auth/ci/monitoring, or '
             'confines the value to site-relative prefixes', 2)
    ctx.rule('R4', 'DeployConfig.external_url always returns scheme://non-empty-authority…, so the empty netloc is never valid', 3)
    ctx.assume('a value that begins with `/` followed by none of `/ \\ TAB LF CR` is a same-site reference for a browser; a value whose urlparse netloc is exactly an '
               'allowed netloc is followed to that host')
    # the browser model is used only to print an example for an established violation; keep it honest anyway
    for probe, want in (('/\\evil.example/', 'evil.example'), ('/batches', SAME_SITE), ('//evil.example', 'evil.example'), ('/\t/evil.example', 'evil.example'),
                        ('https://a.example\\@b.example/', 'a.example'), ('https://a.example@b.example/', 'b.example'), ('javascript:alert(1)', NOT_NAVIGABLE),
                        (' https://evil.example', 'evil.example'), ('https:/evil.example', 'evil.example'), ('/x//y', SAME_SITE)):
        ctx.need(browser_host(probe) == want, f'internal: browser model gives {browser_host(probe)!r} for {probe!r}, expected {want!r}')
    ctx.assume('data read from the database or from the OAuth flow client is not client-controlled for the purpose of this property')
    m = pf.load(F)
    imports = m.imports()
    ctx.need(m.has_func(VALIDATOR), f'anchor vanished: {F}::{VALIDATOR}')
    vargs = m.func(VALIDATOR).args
    ctx.need(bool(vargs.posonlyargs + vargs.args), f'{VALIDATOR} takes no positional parameter')
    _VALIDATOR_PARAM[0] = (vargs.posonlyargs + vargs.args)[0].arg
    # positive control for the sink shapes that do not occur on today's tree
    ctl = ast.parse("resp = web.Response(status=302, headers={'Location': u})\nresp.headers['location'] = u\nresp.headers.add('Location', u)\n")
    ctx.need(sum(len(_location_values(n)) for n in ast.walk(ctl)) == 3, 'internal: Location-header sink recognition failed its positive control')
    ctx.ok('R1', 'control::Location header sinks', 'dict literal / subscript store / headers.add are recognised', nontrivial=False)
    rels = [r for r in pf.walk_py(['auth/auth'])]
    ctx.need(F in rels, f'{F} not found under auth/auth')
    ctx.unit('files', len(rels) + 1)
    n_red = n_clean = 0
    errors: List[str] = []
    for rel in rels:
        mm = pf.load(rel)
        imps = mm.imports()
        if rel != F:
            # a second module may redirect too; it can only validate through the validator of auth.py
            uses = any(isinstance(n, ast.Attribute) and n.attr in REDIRECTS for n in ast.walk(mm.tree)) or any(
                isinstance(n, ast.Constant) and isinstance(n.value, str) and n.value.lower() == 'location' for n in ast.walk(mm.tree))
            if not uses:
                ctx.unit('functions', len(mm.functions()))
                continue
        derived: Dict[str, List[Tuple[int, str]]] = {}
        validating = _validating_helpers(mm)
        if validating:
            ctx.extra_cov.setdefault('validating_helpers', {})[rel] = sorted(validating)
        for _round in range(4):
            found: Dict[str, List[Tuple[int, str]]] = {}
            a_sum = b_sum = 0
            before = (len(ctx.instances), len(ctx.findings))
            try:
                for qual, fn in mm.functions():
                    m_use, fn_use = _with_validating_helpers_inlined(mm, qual, fn, validating)
                    a, b = _scan_function(ctx, m_use, qual, fn_use, imps, derived, found, validating)
                    a_sum += a
                    b_sum += b
            except AnalysisError as e:
                errors.append(str(e))
                break
            new = {k: sorted(set(v)) for k, v in found.items()}
            if all(derived.get(k) == v for k, v in new.items()):
                n_red += a_sum
                n_clean += b_sum
                break
            # helpers that pass a parameter on to a redirect were discovered: rescan with their calls as sinks
            del ctx.instances[before[0]:]
            del ctx.findings[before[1]:]
            derived.update(new)
            for h in new:
                # the helper must only be used by plain calls we can see
                for n in ast.walk(mm.tree):
                    if isinstance(n, ast.Name) and n.id == h and isinstance(n.ctx, ast.Load):
                        par = mm.parents().get(n)
                        if not (isinstance(par, ast.Call) and par.func is n):
                            errors.append(f'{rel}: helper `{h}` passes its parameter to a redirect and is used other than by a direct call')
        else:
            errors.append(f'{rel}: redirect helpers nest too deeply')
        ctx.unit('functions', len(mm.functions()))
        if derived:
            ctx.extra_cov.setdefault('redirect_helpers', {}).update({f'{rel}::{k}': [p for _, p in v] for k, v in derived.items()})
    ctx.unit('redirect_sites', n_red)
    ctx.unit('redirects_with_constant_or_server_side_location', n_clean)
    ctx.extra_cov['redirect_sites'] = {'total': n_red, 'not_client_controlled': n_clean}
    try:
        rows = _check_validator(ctx, m, imports)
        ctx.unit('validator_table_rows', rows)
    except AnalysisError as e:
        errors.append(str(e))
    try:
        _check_external_url(ctx)
    except AnalysisError as e:
        errors.append(str(e))
    if errors:
        raise AnalysisError('; '.join(errors[:3]))
    return
    rows = _check_validator(ctx, m, imports)
    ctx.unit('validator_table_rows', rows)
    _check_external_url(ctx)
