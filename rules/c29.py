"""C29 Post-login redirects stay on Hail hosts.

Decides (from the syntax tree of auth/auth/auth.py and hailtop/config/deploy_config.py, nothing is run):
  R1  taint + must-pass-through: every redirect response (web.HTTPFound & friends) whose location derives from the
      request (query, match_info, headers, body) or from the cookie session is, on every CFG path from the tainted
      definition of that value to the redirect, preceded by `validate_next_page_url(<that value>)` that returned normally
      (leaving the validation through an exception edge into a handler that falls through does not count)
  R2  the same for what the service accepts into the session: `session['next'] = x`
  R3  validator decision table: over every valuation of the tests in validate_next_page_url, the function raises whenever
      `urlparse(next_page).netloc` is NOT an exact member of the list of netlocs of the statement's services
      (batch, auth, ci, monitoring); prefix / suffix / substring tests and a widened service list are violations
  R4  DeployConfig.external_url returns `<scheme>s://<non-empty authority>...` on every return, so the list of valid
      netlocs never contains the empty string (otherwise `/\\evil.com`, netloc '', would be accepted)
Does not decide: browser-vs-urlparse differentials in how a string is split into scheme/authority.
"""
from __future__ import annotations

import ast
from typing import Dict, List, Optional, Set, Tuple

from engines import absdom, pyfacts as pf
from engines.common import AnalysisError, Ctx, short

META = dict(
    category='other',
    text='Intra-procedural taint analysis with def-use and CFG must-pass-through over every function of auth.py: every redirect location and '
         'every stored session[\'next\'] that derives from client-controlled data is validated on all paths; plus an exhaustive truth table of '
         'the validator body showing it raises unless the parsed netloc is an exact member of the four services\' netlocs. Level is `other` '
         'because how a browser splits a URL (vs urllib.parse.urlparse) is outside the syntax tree.',
    note='Trusted: CPython ast; engines/pyfacts CFG; urllib.parse.urlparse semantics; aiohttp redirect classes. '
         'Not decided: browser-vs-urlparse differentials; helper functions that receive the URL as a parameter decline (exit 2) unless validated locally.',
    technique='static analysis: taint / def-use + CFG dominance (must-pass-through with exception edges) + predicate-abstraction truth table',
    design_ref='DESIGN.md §3 C29',
)

F = 'auth/auth/auth.py'
FD = 'hail/python/hailtop/config/deploy_config.py'
VALIDATOR = 'validate_next_page_url'
REDIRECTS = {'HTTPFound', 'HTTPSeeOther', 'HTTPMovedPermanently', 'HTTPTemporaryRedirect', 'HTTPPermanentRedirect', 'HTTPMultipleChoices', 'HTTPUseProxy'}
SERVICES = {'batch', 'auth', 'ci', 'monitoring'}  # from the statement
SESSION_MAKERS = {'aiohttp_session.get_session', 'aiohttp_session.new_session', 'get_session', 'new_session'}


# --------------------------------------------------------------------------------------
# taint
# --------------------------------------------------------------------------------------


class Taint:
    def __init__(self, fn: pf.FuncDef):
        self.fn = fn
        self.defs = pf.assignments(fn)
        self.params = {a.arg for a in list(fn.args.args) + list(fn.args.kwonlyargs) + list(fn.args.posonlyargs)}
        self.request_names = {a.arg for a in list(fn.args.args) + list(fn.args.posonlyargs)
                              if a.arg == 'request' or (a.annotation is not None and pf.nsrc(a.annotation) in ('web.Request', 'Request', 'aiohttp.web.Request'))}
        self.session_names: Set[str] = {p for p in self.params if p == 'session'}
        for name, vals in self.defs.items():
            for v in vals:
                if isinstance(v, ast.expr) and pf.call_name(v) in SESSION_MAKERS:
                    self.session_names.add(name)
        self._memo: Dict[str, str] = {}

    def of_def(self, d: ast.AST, visiting: Tuple[str, ...] = ()) -> str:
        """'tainted' | 'unknown' | 'clean' for one defining construct of a name."""
        if isinstance(d, ast.arg):
            if d.arg in self.request_names or d.arg in self.session_names:
                return 'tainted'
            if d.arg in ('userdata', '_', 'self', 'cls', 'app', 'db'):
                return 'clean'
            return 'unknown'
        if isinstance(d, ast.expr):
            return self.of_expr(d, visiting)
        # opaque statements: tuple assignment, augmented assignment, loop target, with-item, except-as
        if isinstance(d, (ast.Assign, ast.AugAssign)):
            t = self.of_expr(d.value, visiting)
            if isinstance(d, ast.AugAssign) and isinstance(d.target, ast.Name):
                t = _join(t, self.of_name(d.target.id, visiting)) if d.target.id not in visiting else t
            return t
        if isinstance(d, (ast.For, ast.AsyncFor, ast.comprehension)):
            return self.of_expr(d.iter, visiting)
        if isinstance(d, ast.withitem):
            return self.of_expr(d.context_expr, visiting)
        if isinstance(d, ast.ExceptHandler):
            return 'clean'
        return 'unknown'

    def of_name(self, name: str, visiting: Tuple[str, ...] = ()) -> str:
        if name in self.session_names:
            return 'tainted'
        if name in visiting:
            return 'clean'  # cycle: contributes nothing new
        if name not in self.defs:
            return 'clean'  # module global / builtin / import
        out = 'clean'
        for d in self.defs[name]:
            out = _join(out, self.of_def(d, visiting + (name,)))
        return out

    def direct_sources(self, e: ast.AST) -> List[str]:
        """Client-controlled reads written directly in e."""
        out: List[str] = []
        for n in pf.walk_shallow(e):
            if isinstance(n, ast.Attribute) and isinstance(n.value, ast.Name) and n.value.id in self.request_names and n.attr != 'app':
                out.append(pf.nsrc(n))
            elif isinstance(n, ast.Name) and isinstance(n.ctx, ast.Load) and n.id in self.session_names:
                out.append(n.id)
            elif isinstance(n, ast.Call):
                for a in list(n.args) + [k.value for k in n.keywords]:
                    if isinstance(a, ast.Name) and a.id in self.request_names:
                        out.append(f'{pf.nsrc(n.func)}({a.id})')
        return out

    def of_expr(self, e: ast.AST, visiting: Tuple[str, ...] = ()) -> str:
        if self.direct_sources(e):
            return 'tainted'
        out = 'clean'
        # `request.app[...]` is server-side state: the `request` base of an attribute access is judged by direct_sources only
        attr_bases = {id(n.value) for n in pf.walk_shallow(e) if isinstance(n, ast.Attribute)}
        for n in pf.walk_shallow(e):
            if isinstance(n, ast.Name) and isinstance(n.ctx, ast.Load):
                if n.id in self.request_names and id(n) in attr_bases:
                    continue
                out = _join(out, self.of_name(n.id, visiting))
        return out


def _join(a: str, b: str) -> str:
    order = {'clean': 0, 'unknown': 1, 'tainted': 2}
    return a if order[a] >= order[b] else b


# --------------------------------------------------------------------------------------
# sinks
# --------------------------------------------------------------------------------------


def _redirect_location(call: ast.Call, imports: Dict[str, str]) -> Optional[ast.expr]:
    name = pf.dotted(call.func)
    if name is None:
        return None
    last = name.split('.')[-1]
    if last not in REDIRECTS:
        return None
    head = name.split('.')[0]
    if '.' in name:
        if not (head in ('web', 'aiohttp') or imports.get(head, '').startswith('aiohttp')):
            return None
    elif not imports.get(name, '').startswith('aiohttp'):
        return None
    if call.args:
        return call.args[0]
    for k in call.keywords:
        if k.arg == 'location':
            return k.value
    raise AnalysisError(f'{F}: redirect `{pf.nsrc(call)}` without a recognisable location argument')


def _is_validate(n: pf.Node, key: str) -> bool:
    for c in pf.node_calls(n):
        if pf.dotted(c.func) == VALIDATOR and len(c.args) == 1 and not c.keywords and pf.nsrc(c.args[0]) == key:
            return True
    return False


def _unknown_guard(n: pf.Node, key: str) -> bool:
    """A branch that hands the value to some other function (an unrecognised validation idiom)."""
    if n.kind != 'test':
        return False
    for c in pf.node_calls(n):
        if pf.dotted(c.func) == VALIDATOR:
            continue
        if any(pf.nsrc(a) == key for a in list(c.args) + [k.value for k in c.keywords]):
            return True
    return False


def _escape_path(cfg: pf.CFG, starts: List[pf.Node], sinks: List[pf.Node], key: str, extra_block=None, kills: Optional[Set[int]] = None) -> Optional[List[pf.Node]]:
    """A path from a start to a sink on which validate(key) never *returned normally* and the value is not overwritten
    (nodes in `kills` redefine the variable: the value under consideration does not flow past them); None if there is none."""
    sink_ids = {s.id for s in sinks}
    kills = kills or set()
    prev: Dict[int, Optional[pf.Node]] = {s.id: None for s in starts}
    prev_starts = {s.id for s in starts}
    queue = list(starts)
    while queue:
        n = queue.pop(0)
        validating = _is_validate(n, key) and n.id not in {s.id for s in starts}
        for m, lab in n.succ:
            if validating and lab != 'exc':
                continue  # normal continuation of a validation: the value is validated from here on
            if m.id in prev:
                continue
            if extra_block is not None and extra_block(m):
                continue
            prev[m.id] = n
            if m.id in kills and m.id not in prev_starts:
                continue  # reached, but the value is replaced here
            if m.id in sink_ids and not _is_validate(m, key):
                path = [m]
                cur: Optional[pf.Node] = n
                while cur is not None:
                    path.append(cur)
                    cur = prev[cur.id]
                return list(reversed(path))
            queue.append(m)
    return None


def _check_sink(ctx: Ctx, m: pf.Module, qual: str, fn: pf.FuncDef, taint: Taint, rule: str, role: str, value: ast.expr, at: ast.AST) -> str:
    """Returns 'tainted' | 'clean' after recording the instance (clean sinks are not instances)."""
    cfg = pf.cfg(fn)
    sink_nodes = cfg.node_of(at)
    ctx.need(sink_nodes, f'{F}::{qual}: cannot locate `{short(pf.nsrc(at), 60)}` in the CFG')
    cons = f'{F}::{qual}::{role} {short(pf.nsrc(value), 80)}'
    key = pf.nsrc(value)

    if isinstance(value, ast.Name):
        name = value.id
        ctx.need(name in taint.defs or name in taint.session_names, f'{F}::{qual}: `{name}` used as a redirect target has no local definition')
        kinds = [(d, taint.of_def(d, (name,))) for d in taint.defs.get(name, [])]
        if name in taint.session_names:
            ctx.bad(rule, cons, 'the session object itself is used as a URL', m.path, at.lineno)
            return 'tainted'
        if all(k == 'clean' for _, k in kinds):
            return 'clean'
        problems = []
        undecided = []
        def_nodes: Dict[int, Set[int]] = {}
        for d, _k in kinds:
            if not isinstance(d, ast.arg):
                ns = cfg.node_of(d)
                ctx.need(ns, f'{F}::{qual}: definition of `{name}` not found in the CFG')
                def_nodes[id(d)] = {n.id for n in ns}
        for d, k in kinds:
            if k == 'clean':
                continue
            kills = set().union(*[v for kk, v in def_nodes.items() if kk != id(d)]) if def_nodes else set()
            if isinstance(d, ast.arg):
                starts = [cfg.entry]
            else:
                starts = cfg.node_of(d)
            path = _escape_path(cfg, starts, sink_nodes, key, kills=kills)
            if path is None:
                continue
            # an unrecognised guard on the path?  then we cannot decide
            path2 = _escape_path(cfg, starts, sink_nodes, key, extra_block=lambda n: _unknown_guard(n, key), kills=kills)
            if path2 is None:
                undecided.append((d, path))
            elif k == 'unknown':
                undecided.append((d, path2))
            else:
                problems.append((d, path2))
        if problems:
            d, path = problems[0]
            src_txt = short(pf.nsrc(d), 90)
            via = ' -> '.join(f'{n.text()[:40]}@{n.lineno}' for n in path[:1] + path[-3:])
            ctx.bad(rule, cons,
                    f'`{name}` is client-controlled (defined by `{src_txt}`) and reaches this {role} on a path that never completes '
                    f'{VALIDATOR}({name}) [{via}]: e.g. next=https://evil.example/ is followed', m.path, at.lineno,
                    extra=[f'{n.kind}:{n.text()}@{n.lineno}' for n in path])
            return 'tainted'
        if undecided:
            d, path = undecided[0]
            raise AnalysisError(f'{F}::{qual}: `{name}` reaches `{short(pf.nsrc(at), 60)}` without {VALIDATOR}; its origin/guard '
                                f'(`{short(pf.nsrc(d), 60)}`) is not a recognised idiom - cannot decide')
        ctx.ok(rule, cons, {'validated_value': name, 'tainted_definitions': [short(pf.nsrc(d), 80) for d, k in kinds if k != 'clean']})
        return 'tainted'

    # not a plain variable
    k = taint.of_expr(value)
    if k == 'clean':
        return 'clean'
    direct = taint.direct_sources(value)
    stable = all(s.split('.')[-1] in ('query', 'rel_url', 'match_info') for s in direct) and not any(
        isinstance(n, ast.Name) and taint.of_name(n.id) != 'clean' for n in pf.walk_shallow(value))
    if direct and stable and isinstance(value, (ast.Subscript, ast.Call)):
        # e.g. request.query['next'] validated as the very same (immutable) read
        path = _escape_path(cfg, [cfg.entry], sink_nodes, key)
        ctx.check(path is None, rule, cons, f'`{key}` is client-controlled and not validated by {VALIDATOR}({key}) on every path', m.path, at.lineno)
        return 'tainted'
    if direct:
        ctx.bad(rule, cons, f'the {role} is computed from client-controlled `{direct[0]}` in place; the value that is followed was never passed to '
                f'{VALIDATOR}: e.g. next=https://evil.example/ is followed', m.path, at.lineno)
        return 'tainted'
    raise AnalysisError(f'{F}::{qual}: {role} `{short(key, 60)}` is derived from client-controlled or unknown values by an expression - cannot decide')


def _scan_function(ctx: Ctx, m: pf.Module, qual: str, fn: pf.FuncDef, imports: Dict[str, str]) -> Tuple[int, int]:
    taint = Taint(fn)
    n_red = n_clean = 0
    for node in pf.walk_shallow(fn):
        if isinstance(node, ast.Call):
            loc = _redirect_location(node, imports)
            if loc is None:
                continue
            n_red += 1
            if _check_sink(ctx, m, qual, fn, taint, 'R1', 'redirect', loc, node) == 'clean':
                n_clean += 1
        elif isinstance(node, (ast.Assign, ast.AnnAssign)):
            targets = node.targets if isinstance(node, ast.Assign) else [node.target]
            for t in targets:
                if isinstance(t, ast.Subscript) and isinstance(t.value, ast.Name) and t.value.id in taint.session_names \
                        and pf.const_str(t.slice) == 'next' and node.value is not None:
                    _check_sink(ctx, m, qual, fn, taint, 'R2', "session['next'] store", node.value, node)
    # other ways of storing `next` in the session that we do not model
    for node in pf.walk_shallow(fn):
        if isinstance(node, ast.Call) and isinstance(node.func, ast.Attribute) and isinstance(node.func.value, ast.Name) \
                and node.func.value.id in taint.session_names and node.func.attr in ('update', 'setdefault', '__setitem__'):
            txt = pf.nsrc(node)
            ctx.need("'next'" not in txt and '"next"' not in txt, f'{F}::{qual}: `{short(txt, 60)}` stores next in the session by an unrecognised idiom')
    return n_red, n_clean


# --------------------------------------------------------------------------------------
# validator shape
# --------------------------------------------------------------------------------------


def _is_urlparse_netloc(fn: pf.FuncDef, e: ast.AST, imports: Dict[str, str]) -> Optional[ast.expr]:
    """`urlparse(x).netloc` -> x"""
    e = pf.resolve_expr(fn, e)
    if isinstance(e, ast.Attribute) and e.attr == 'netloc' and isinstance(e.value, ast.Call) and len(e.value.args) >= 1:
        f = pf.dotted(e.value.func) or ''
        origin = imports.get(f.split('.')[0], '')
        if f.split('.')[-1] in ('urlparse', 'urlsplit') and origin.startswith('urllib'):
            return e.value.args[0]
    return None


def _domains_list(ctx: Ctx, fn: pf.FuncDef, e: ast.AST, imports: Dict[str, str]) -> Optional[List[str]]:
    """[urlparse(deploy_config.external_url(s, <path>)).netloc for s in <list of constant service names>] -> the names."""
    e = pf.resolve_expr(fn, e)
    if isinstance(e, (ast.ListComp, ast.SetComp, ast.GeneratorExp)) and len(e.generators) == 1 and not e.generators[0].ifs:
        g = e.generators[0]
        if not isinstance(g.target, ast.Name):
            return None
        inner = _is_urlparse_netloc(fn, e.elt, imports) if not isinstance(e.elt, ast.Name) else None
        if inner is None or not isinstance(inner, ast.Call) or (pf.dotted(inner.func) or '').split('.')[-1] != 'external_url':
            return None
        if not (inner.args and isinstance(inner.args[0], ast.Name) and inner.args[0].id == g.target.id):
            return None
        it = pf.resolve_expr(fn, g.iter)
        if isinstance(it, (ast.List, ast.Tuple, ast.Set)) and all(pf.const_str(x) is not None for x in it.elts):
            return [pf.const_str(x) for x in it.elts]  # type: ignore[misc]
        return None
    if isinstance(e, (ast.List, ast.Tuple, ast.Set)):
        names = []
        for x in e.elts:
            inner = _is_urlparse_netloc(fn, x, imports)
            if not (isinstance(inner, ast.Call) and (pf.dotted(inner.func) or '').split('.')[-1] == 'external_url' and inner.args
                    and pf.const_str(inner.args[0]) is not None):
                return None
            names.append(pf.const_str(inner.args[0]))
        return names  # type: ignore[return-value]
    return None


def _check_validator(ctx: Ctx, m: pf.Module, imports: Dict[str, str]) -> int:
    fn = m.func(VALIDATOR)
    params = [a.arg for a in fn.args.args]
    ctx.need(len(params) == 1 and not fn.args.vararg and not fn.args.kwarg, f'{VALIDATOR}: expected a single parameter, found {params}')
    p = params[0]
    ctx.need(not any(isinstance(n, (ast.Try, ast.While, ast.For)) for n in pf.walk_shallow(fn)), f'{VALIDATOR}: loops/try in the validator body are not a recognised shape')
    cons = f'{F}::{VALIDATOR}'
    atoms = absdom.collect_test_atoms(fn.body)
    member_atoms: Dict[str, bool] = {}  # key -> True if atom is `x in L`, False if `x not in L`
    free: List[str] = []
    services: Optional[List[str]] = None
    weak_seen = False
    for a in atoms:
        k = absdom.atom_key(a)
        # anything that looks at the netloc / domains through prefix, suffix or substring is the recognised wrong shape
        mentions_netloc = any(_is_urlparse_netloc(fn, n, imports) is not None for n in ast.walk(a) if isinstance(n, (ast.Name, ast.Attribute)))
        weak = [pf.nsrc(c.func) for c in ast.walk(a) if isinstance(c, ast.Call) and isinstance(c.func, ast.Attribute)
                and c.func.attr in ('startswith', 'endswith', 'find', 'index', 'count', 'search', 'match')]
        if isinstance(a, ast.Compare) and len(a.ops) == 1 and isinstance(a.ops[0], (ast.In, ast.NotIn)):
            subject = _is_urlparse_netloc(fn, a.left, imports)
            doms = _domains_list(ctx, fn, a.comparators[0], imports)
            if subject is not None and doms is not None:
                ctx.need(isinstance(subject, ast.Name), f'{VALIDATOR}: membership test parses `{pf.nsrc(subject)}`, not a plain variable')
                if subject.id != p:  # type: ignore[union-attr]
                    ctx.bad('R3', cons + '::subject', f'the membership test parses `{subject.id}`, not the parameter `{p}` being validated', m.path, a.lineno)  # type: ignore[union-attr]
                member_atoms[k] = isinstance(a.ops[0], ast.In)
                services = doms
                continue
            # membership of something else in the netloc (substring), or of the netloc in a string
            rsub = _is_urlparse_netloc(fn, a.comparators[0], imports)
            if rsub is not None:
                ctx.bad('R3', cons + '::membership', f'`{k}` is a substring test on the netloc, not exact membership in the list of valid netlocs: '
                        'https://auth.hail.is.evil.example/ passes', m.path, a.lineno)
                member_atoms[k] = isinstance(a.ops[0], ast.In)
                continue
            if subject is not None:
                raise AnalysisError(f'{VALIDATOR}: cannot resolve the collection `{pf.nsrc(a.comparators[0])}` the netloc is tested against')
        mentions_domains = any(_domains_list(ctx, fn, n, imports) is not None for n in ast.walk(a) if isinstance(n, ast.Name))
        nested_sub = [c for c in ast.walk(a) if c is not a and isinstance(c, ast.Compare) and len(c.ops) == 1 and isinstance(c.ops[0], (ast.In, ast.NotIn))
                      and ((isinstance(c.comparators[0], ast.Name) and c.comparators[0].id == p) or _is_urlparse_netloc(fn, c.comparators[0], imports) is not None)]
        if (weak and (mentions_netloc or mentions_domains)) or (nested_sub and mentions_domains):
            how = weak[0] if weak else f'`{pf.nsrc(nested_sub[0])}`'
            ctx.bad('R3', cons + '::membership', f'`{short(k, 100)}` decides by {how} (prefix/suffix/substring), not exact membership of the netloc: '
                    'e.g. https://evil.example/?auth.hail.is or https://auth.hail.is.evil.example/ passes', m.path, a.lineno)
            weak_seen = True
            free.append(k)
            continue
        if mentions_netloc:
            raise AnalysisError(f'{VALIDATOR}: test `{short(k, 80)}` uses the netloc in an unrecognised way')
        free.append(k)
    if not member_atoms:
        if weak_seen:
            ctx.bad('R3', cons + '::decision', 'no exact-membership test of the netloc remains in the validator', m.path, fn.lineno)
            return 0
        # no membership test at all: recognised wrong shape only if the netloc is never computed
        computes = any(_is_urlparse_netloc(fn, n, imports) is not None for n in ast.walk(fn) if isinstance(n, ast.Attribute))
        ctx.need(not computes, f'{VALIDATOR}: the netloc is computed but no membership test was recognised')
        ctx.bad('R3', cons + '::membership', f'{VALIDATOR} never tests the netloc of `{p}`: every URL is accepted', m.path, fn.lineno)
        ctx.bad('R3', cons + '::decision', 'no exact-membership test of the netloc remains in the validator', m.path, fn.lineno)
        return 0
    ctx.need(len(free) <= 6, f'{VALIDATOR}: too many free predicates')
    ctx.need(services is not None, f'{VALIDATOR}: service list not resolved')
    extra = sorted(set(services or []) - SERVICES)
    ctx.check(not extra, 'R3', cons + '::services',
              f'valid hosts include service(s) {extra} beyond the statement\'s batch/auth/ci/monitoring: a next URL on that host is accepted', m.path, fn.lineno,
              detail={'services': services})
    rows = 0
    wrong = []
    for member in (False, True):
        for fv in absdom.valuations(free):
            def val(atom: ast.AST) -> bool:
                key = absdom.atom_key(atom)
                if key in member_atoms:
                    return member if member_atoms[key] else not member
                return fv[key]
            o = absdom.walk_block(fn.body, val)
            rows += 1
            if not member and o.kind != 'raise':
                wrong.append((fv, o.kind))
    if wrong:
        fv, kind = wrong[0]
        ctx.bad('R3', cons + '::decision', f'with the netloc NOT among the valid netlocs (other tests {fv}) the validator ends by `{kind}` instead of raising: '
                'next=https://evil.example/ is accepted', m.path, fn.lineno, extra=[str(w) for w in wrong[:8]])
    else:
        ctx.ok('R3', cons + '::decision', {'rows': rows, 'membership_atoms': list(member_atoms), 'free_atoms': free, 'services': services})
    return rows


def _check_external_url(ctx: Ctx) -> None:
    md = pf.load(FD)
    fn = md.func('DeployConfig.external_url')
    rets = [n for n in pf.walk_shallow(fn) if isinstance(n, ast.Return)]
    ctx.need(rets, 'DeployConfig.external_url has no return')
    for r in rets:
        ctx.need(r.value is not None, 'DeployConfig.external_url: bare return')
        holes: List[str] = []

        def hole(e: ast.expr) -> str:
            holes.append(pf.nsrc(e))
            return '\x00'
        tpl = pf.fstring_template(r.value, hole)
        ctx.need(tpl is not None, f'DeployConfig.external_url: return `{short(pf.nsrc(r.value), 60)}` is not an f-string')
        cons = f'{FD}::DeployConfig.external_url::return {short(pf.nsrc(r.value), 70)}'
        i = tpl.find('://')
        ok = i >= 1 and '/' not in tpl[:i] and len(tpl) > i + 3 and tpl[i + 3] not in '/?#'
        ctx.check(ok, 'R4', cons, 'the returned URL has no `scheme://authority` prefix, so its netloc is empty and the validator\'s list of valid '
                  'netlocs contains \'\': next=/\\evil.example (netloc \'\') is accepted and browsers follow it to evil.example', md.path, r.lineno,
                  detail={'template': tpl.replace('\x00', '{}')})


def run(ctx: Ctx) -> None:
    ctx.explanation = ('Taint/def-use over every function of auth.py with CFG must-pass-through (exception edges out of the validation do not count as '
                       'validated); truth table of validate_next_page_url over its tests; f-string shape of DeployConfig.external_url.')
    ctx.rule('R1', 'every redirect whose location is client-controlled (request / session) is preceded on every path by validate_next_page_url on that value', 2)
    ctx.rule('R2', "every session['next'] store of a client-controlled value is preceded on every path by validate_next_page_url on that value", 3)
    ctx.rule('R3', 'validate_next_page_url raises unless urlparse(next).netloc is an exact member of the netlocs of batch/auth/ci/monitoring', 2)
    ctx.rule('R4', 'DeployConfig.external_url always returns scheme://non-empty-authority…, so the empty netloc is never valid', 3)
    ctx.assume('urllib.parse.urlparse(u).netloc is the authority a browser navigates to (parser differentials are not decided)')
    ctx.assume('data read from the database or from the OAuth flow client is not client-controlled for the purpose of this property')
    m = pf.load(F)
    ctx.unit('files', 2)
    imports = m.imports()
    ctx.need(m.has_func(VALIDATOR), f'anchor vanished: {F}::{VALIDATOR}')
    n_red = n_clean = 0
    for qual, fn in m.functions():
        a, b = _scan_function(ctx, m, qual, fn, imports)
        n_red += a
        n_clean += b
        ctx.unit('functions')
    ctx.unit('redirect_sites', n_red)
    ctx.unit('redirects_with_constant_or_server_side_location', n_clean)
    ctx.extra_cov['redirect_sites'] = {'total': n_red, 'not_client_controlled': n_clean}
    rows = _check_validator(ctx, m, imports)
    ctx.unit('validator_table_rows', rows)
    _check_external_url(ctx)
