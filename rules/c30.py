"""C30 CI merges only fully tested, approved, current PRs.

Decides (from the syntax trees of ci/ci/*.py, nothing is run):
  R1  who-may-call: the GitHub merge request (`PUT …/pulls/N/merge`) is issued only by PR.merge; PR.merge is called only from
      WatchedBranch.try_to_merge, and every such call is reached only through a branch edge that guarantees
      `<that pr>.is_mergeable()`; try_to_merge is called only from WatchedBranch._update
  R2  PR.is_mergeable returns a conjunction that contains (self-method helpers inlined): review_state == 'approved',
      a non-empty status map, every status == GithubStatus.SUCCESS, batch target_sha == target_branch.sha, no DO_NOT_MERGE label;
      DO_NOT_MERGE is a non-empty set of label constants
  R3  one merge per target update: after a successful `pr.merge`, no second merge is reachable in that call and every path to
      the exit resets `self.sha = None` (so that no PR is "up to date" until the target branch has been re-read)
  R4  the merge request pins `'sha': self.source_sha`; when the head commit changes update_from_gh_json records the new head and
      clears `self.batch` and the build state
  R5  "tested" chain: the CI status SUCCESS is derived only from build_state == 'success'; build_state 'success' is written only by
      PR._update_batch under `status['complete']` and `status['state'] == 'success'`; PR._heal forces the intended CI status into the
      status map is_mergeable reads; _update attempts a merge only after _heal in the same iteration; the test batch is created with
      target_sha = target_branch.sha / source_sha = self.source_sha and looked up by the current source_sha
Does not decide: the behaviour of GitHub; that the statuses GitHub reports belong to the head (CI asks for `commits(last: 1)`).
"""
from __future__ import annotations

import ast
import re
from typing import Callable, Dict, List, Optional, Sequence, Set, Tuple

from engines import guards, pyfacts as pf
from engines.guards import Facts
from engines.common import AnalysisError, Ctx, short

META = dict(
    category='other',
    text='Closed-world who-may-call scan of ci/ci/*.py for the merge request and its callers, CFG must-pass-through with branch-edge '
         'polarity for the is_mergeable gate and the one-merge-per-update exit, and a fact extraction over the returned conjunction of '
         'is_mergeable (helpers inlined).  Level `other`: the property quantifies over event histories; the rules are the structural '
         'necessary conditions on every code path, not a model of GitHub.',
    note='Trusted: CPython ast; engines/pyfacts CFG. Assumes GitHub refuses a merge whose pinned sha is not the head. '
         'Not decided: GitHub-side behaviour, `self.sha` (merge-commit sha) reset on head change is not needed by the gate and is not demanded.',
    technique='static analysis: who-may-call closure + CFG dominance with edge polarity + boolean fact extraction',
    design_ref='DESIGN.md §3 C30',
)

F = 'ci/ci/github.py'
S_STATUS = 'self.last_known_github_status'
Fact = Tuple[ast.expr, bool]



def _fmt_path(path):
    return guards.fmt_path(path)[1:-1]


_unguarded_path = guards.unguarded_path
_eq_sides = guards.eq_sides


def _is_eq_fact(e, pol, a, b):
    s = guards.eq_sides(e)
    if s is None or {s[0], s[1]} != {a, b}:
        return False
    return (s[2] is ast.Eq and pol) or (s[2] is ast.NotEq and not pol)


def _const_eq_fact(e: ast.expr, pol: bool, lhs_pred: Callable[[ast.expr], bool], const) -> bool:
    if not (isinstance(e, ast.Compare) and len(e.ops) == 1 and isinstance(e.ops[0], (ast.Eq, ast.NotEq))):
        return False
    l, r = e.left, e.comparators[0]
    for x, c in ((l, r), (r, l)):
        if isinstance(c, ast.Constant) and c.value == const and type(c.value) is type(const) and lhs_pred(x):
            return (isinstance(e.ops[0], ast.Eq) and pol) or (isinstance(e.ops[0], ast.NotEq) and not pol)
    return False


# --------------------------------------------------------------------------------------
# R2: is_mergeable
# --------------------------------------------------------------------------------------

KINDS = ['approved', 'statuses-nonempty', 'statuses-all-success', 'up-to-date', 'no-do-not-merge-label']
WHY = {
    'approved': 'an unapproved PR (review_state pending / changes_requested) whose checks pass is merged',
    'statuses-nonempty': 'a PR for which no check has reported yet (empty status map, test batch still running) is merged',
    'statuses-all-success': 'a PR with a failing or pending check on its head is merged',
    'up-to-date': 'a PR whose test batch ran against an older target commit is merged after the target branch moved',
    'no-do-not-merge-label': 'a PR labelled WIP / stacked PR is merged',
}


def _gen(e: ast.expr) -> Optional[Tuple[str, ast.expr, str, str]]:
    """all(elt for v in it) / any(...) -> (fname, elt, var, iter-src)"""
    if isinstance(e, ast.Call) and isinstance(e.func, ast.Name) and e.func.id in ('all', 'any') and len(e.args) == 1 and not e.keywords:
        g = e.args[0]
        if isinstance(g, (ast.GeneratorExp, ast.ListComp)) and len(g.generators) == 1 and not g.generators[0].ifs \
                and isinstance(g.generators[0].target, ast.Name):
            return e.func.id, g.elt, g.generators[0].target.id, pf.nsrc(g.generators[0].iter)
    return None


def _classify(e: ast.expr, pol: bool) -> Tuple[str, Optional[str]]:
    """-> ('match'|'weak'|'related'|'harmless'|'unknown', kind)"""
    txt = pf.nsrc(e)
    # approved
    if _const_eq_fact(e, pol, lambda x: pf.nsrc(x) == 'self.review_state', 'approved'):
        return 'match', 'approved'
    if 'self.review_state' in txt:
        return 'weak', 'approved'
    # statuses
    if isinstance(e, ast.Compare) and len(e.ops) == 1 and pf.nsrc(e.left) == f'len({S_STATUS})' and isinstance(e.comparators[0], ast.Constant) \
            and isinstance(e.comparators[0].value, int):
        c = e.comparators[0].value
        op = type(e.ops[0])
        truth = {(ast.Gt, 0): True, (ast.GtE, 1): True, (ast.NotEq, 0): True, (ast.Eq, 0): False, (ast.Lt, 1): False, (ast.LtE, 0): False}
        if (op, c) in truth:
            return ('match', 'statuses-nonempty') if truth[(op, c)] == pol else ('weak', 'statuses-nonempty')
        return 'weak', 'statuses-nonempty'
    if txt == S_STATUS:
        return ('match', 'statuses-nonempty') if pol else ('weak', 'statuses-nonempty')
    g = _gen(e)
    if g is not None and g[3] == f'{S_STATUS}.values()':
        fname, elt, var, _ = g
        if fname == 'all' and pol and _is_eq_fact(elt, True, var, 'GithubStatus.SUCCESS'):
            return 'match', 'statuses-all-success'
        if fname == 'any' and not pol and _is_eq_fact(elt, False, var, 'GithubStatus.SUCCESS'):
            return 'match', 'statuses-all-success'
        return 'weak', 'statuses-all-success'
    # up to date
    if _is_eq_fact(e, pol, 'self.target_branch.sha', "self.batch.attributes['target_sha']"):
        return 'match', 'up-to-date'
    s = _eq_sides(e)
    if s is not None and {s[0], s[1]} == {'self.batch', 'None'}:
        return 'harmless', None
    if txt == 'self.batch':
        return 'harmless', None
    if 'self.batch.attributes' in txt or 'self.target_branch.sha' in txt:
        return 'weak', 'up-to-date'
    # labels
    if g is not None and g[3] == 'self.labels':
        fname, elt, var, _ = g
        if isinstance(elt, ast.Compare) and len(elt.ops) == 1 and pf.nsrc(elt.left) == var and pf.nsrc(elt.comparators[0]) == 'DO_NOT_MERGE':
            if fname == 'all' and pol and isinstance(elt.ops[0], ast.NotIn):
                return 'match', 'no-do-not-merge-label'
            if fname == 'any' and not pol and isinstance(elt.ops[0], ast.In):
                return 'match', 'no-do-not-merge-label'
            return 'weak', 'no-do-not-merge-label'
    if txt in ('DO_NOT_MERGE.isdisjoint(self.labels)', 'self.labels.isdisjoint(DO_NOT_MERGE)'):
        return ('match', 'no-do-not-merge-label') if pol else ('weak', 'no-do-not-merge-label')
    if txt in ('DO_NOT_MERGE & self.labels', 'self.labels & DO_NOT_MERGE', 'self.labels.intersection(DO_NOT_MERGE)', 'DO_NOT_MERGE.intersection(self.labels)'):
        return ('match', 'no-do-not-merge-label') if not pol else ('weak', 'no-do-not-merge-label')
    if 'DO_NOT_MERGE' in txt:
        return 'weak', 'no-do-not-merge-label'
    if S_STATUS in txt:
        return 'related', 'statuses-all-success'
    return 'unknown', None


def _is_false_const(e: Optional[ast.expr]) -> bool:
    return isinstance(e, ast.Constant) and e.value is False


def _check_is_mergeable(ctx: Ctx, m: pf.Module, facts: Facts) -> None:
    fn = m.func('PR.is_mergeable')
    pre: List[Fact] = []
    analysed = 0
    for st in fn.body:
        if isinstance(st, ast.Expr) and isinstance(st.value, ast.Constant):
            continue
        rets = [n for n in pf.walk_shallow(st) if isinstance(n, ast.Return)]
        if isinstance(st, ast.If) and not st.orelse and len(st.body) == 1 and isinstance(st.body[0], ast.Return) and _is_false_const(st.body[0].value):
            pre += facts.false(st.test)
            continue
        if not rets:
            continue  # logging / assertions: cannot make the result true
        ctx.need(isinstance(st, ast.Return), f'PR.is_mergeable: return nested in `{short(pf.nsrc(st), 50)}` is not a recognised shape')
        if _is_false_const(st.value):
            continue
        ctx.need(st.value is not None, 'PR.is_mergeable: bare return')
        analysed += 1
        fs = pre + facts.true(st.value)
        # drop the un-inlined helper call atoms whose inlining is present
        inlined_calls = {id(e) for e, _ in fs if facts.inline(e, 1) is not None}
        have: Dict[str, str] = {}
        weak: Dict[str, str] = {}
        unknown: List[str] = []
        for e, pol in fs:
            if id(e) in inlined_calls:
                continue
            c, kind = _classify(e, pol)
            desc = ('' if pol else 'not ') + short(pf.nsrc(e), 90)
            if c == 'match':
                have[kind] = desc  # type: ignore[index]
            elif c in ('weak', 'related'):
                weak.setdefault(kind, desc)  # type: ignore[arg-type]
            elif c == 'unknown':
                unknown.append(desc)
        for kind in KINDS:
            cons = f'{F}::PR.is_mergeable::{kind}'
            if kind in have:
                ctx.ok('R2', cons, have[kind])
            elif kind in weak:
                ctx.bad('R2', cons, f'the returned conjunction does not require `{kind}`; the nearest conjunct is `{weak[kind]}`, which is weaker: {WHY[kind]}',
                        m.path, st.lineno)
            elif unknown:
                raise AnalysisError(f'PR.is_mergeable: no conjunct for `{kind}` and unrecognised conjunct(s) {unknown[:3]} - cannot decide')
            else:
                ctx.bad('R2', cons, f'the returned conjunction has no conjunct for `{kind}`: {WHY[kind]}', m.path, st.lineno)
    ctx.need(analysed >= 1, 'PR.is_mergeable: no result-bearing return found')
    # DO_NOT_MERGE
    v = m.global_assign('DO_NOT_MERGE')
    elts: Optional[List[ast.expr]] = None
    if isinstance(v, (ast.Set, ast.List, ast.Tuple)):
        elts = list(v.elts)
    elif isinstance(v, ast.Call) and pf.dotted(v.func) in ('set', 'frozenset'):
        if not v.args:
            elts = []
        elif isinstance(v.args[0], (ast.Set, ast.List, ast.Tuple)):
            elts = list(v.args[0].elts)
    ctx.need(elts is not None, f'DO_NOT_MERGE = {short(pf.nsrc(v), 60)} is not a recognised set of labels')
    labels = []
    for x in elts or []:
        if isinstance(x, ast.Name):
            x = m.global_assign(x.id)
        ctx.need(pf.const_str(x) is not None, 'DO_NOT_MERGE element is not a string constant')
        labels.append(pf.const_str(x))
    ctx.check(len(labels) > 0, 'R2', f'{F}::DO_NOT_MERGE', 'DO_NOT_MERGE is empty: no label blocks a merge, a PR labelled WIP / stacked PR is merged',
              m.path, getattr(v, 'lineno', 0), detail={'labels': labels})


# --------------------------------------------------------------------------------------
# R1 / R3: who may merge
# --------------------------------------------------------------------------------------

MERGE_URL = re.compile(r'/pulls/\x00/merge/?$')


GRAPHQL_MERGE = ('mergePullRequest', 'enablePullRequestAutoMerge', 'enqueuePullRequest')


def _is_merge_url(e: ast.AST) -> bool:
    tpl = pf.fstring_template(e, lambda x: '\x00')
    if tpl is None and isinstance(e, ast.BinOp) and isinstance(e.op, ast.Add):
        # 'a' + x + '/merge'
        parts = []
        stack = [e]
        while stack:
            x = stack.pop()
            if isinstance(x, ast.BinOp) and isinstance(x.op, ast.Add):
                stack.extend([x.right, x.left])
            else:
                t = pf.fstring_template(x, lambda y: '\x00')
                parts.append(t if t is not None else '\x00')
        tpl = ''.join(parts)
    if tpl is None and isinstance(e, ast.Call) and isinstance(e.func, ast.Attribute) and e.func.attr == 'format' and pf.const_str(e.func.value) is not None:
        tpl = re.sub(r'\{[^{}]*\}', '\x00', pf.const_str(e.func.value) or '')
    return tpl is not None and bool(MERGE_URL.search(re.sub('\x00+', '\x00', tpl)))


def _merge_request_sites(mods: List[pf.Module]) -> List[Tuple[pf.Module, str, ast.Call]]:
    """Calls that carry a `…/pulls/{n}/merge` URL (directly, or through a local / module constant holding it), and calls that send a
    GraphQL document naming a merge mutation.  A merge URL that reaches no call we can identify is an analysis error."""
    out = []
    for mod in mods:
        for qual, fn in mod.functions():
            linked: Set[int] = set()
            url_exprs = [n for n in pf.walk_shallow(fn) if isinstance(n, (ast.JoinedStr, ast.Constant, ast.BinOp, ast.Call)) and _is_merge_url(n)]
            # keep outermost expressions only
            inner = {id(x) for u in url_exprs for x in ast.walk(u) if x is not u}
            url_exprs = [u for u in url_exprs if id(u) not in inner]
            for c in pf.calls_in(fn):
                for a in list(c.args) + [k.value for k in c.keywords]:
                    r = pf.resolve_expr(fn, a)
                    if isinstance(a, ast.Name) and not isinstance(r, ast.Name):
                        pass
                    elif isinstance(a, ast.Name):
                        try:
                            r = mod.global_assign(a.id)
                        except AnalysisError:
                            r = a
                    hit = [u for u in url_exprs if u is r or u is a]
                    if not hit and _is_merge_url(r):
                        hit = [r]
                    if hit:
                        out.append((mod, qual, c))
                        linked.update(id(u) for u in hit)
            for u in url_exprs:
                if id(u) not in linked and not any(u is x for _, _, c in out for x in ast.walk(c)):
                    raise AnalysisError(f'{mod.rel}::{qual}: merge URL `{short(pf.nsrc(u), 60)}` does not reach a call the analysis can identify')
        for st in mod.tree.body:
            if isinstance(st, (ast.Assign, ast.AnnAssign)) and st.value is not None and _is_merge_url(st.value):
                names = [t.id for t in (st.targets if isinstance(st, ast.Assign) else [st.target]) if isinstance(t, ast.Name)]
                used = any(isinstance(x, ast.Name) and x.id in names for _, _, c in out if _ is not None for x in ast.walk(c))
                if not used:
                    raise AnalysisError(f'{mod.rel}: module-level merge URL `{names}` does not reach a call the analysis can identify')
    # de-duplicate
    seen: Set[int] = set()
    uniq = []
    for mod, qual, c in out:
        if id(c) not in seen:
            seen.add(id(c))
            uniq.append((mod, qual, c))
    return uniq


def _graphql_merges(mods: List[pf.Module]) -> List[Tuple[pf.Module, str, ast.AST, str]]:
    """String constants (anywhere, nested helpers included) that name a GraphQL mutation which merges a pull request."""
    out = []
    for mod in mods:
        par = None
        for n in ast.walk(mod.tree):
            if isinstance(n, ast.Constant) and isinstance(n.value, str):
                for g in GRAPHQL_MERGE:
                    if re.search(r'\b' + g + r'\b', n.value):
                        fn = mod.enclosing_func(n)
                        out.append((mod, mod.qualname(fn) if fn is not None else '<module>', n, g))
    return out


_def_nodes = guards.def_nodes


def _check_callers(ctx: Ctx, mods: List[pf.Module], m: pf.Module, facts: Facts, sites) -> List[Tuple[pf.FuncDef, str, ast.Call]]:
    # the request itself
    ctx.need(sites, 'no `…/pulls/{n}/merge` request found in ci/ci (anchor vanished)')
    in_merge = [x for x in sites if x[0].rel == F and x[1] == 'PR.merge']
    for mod, qual, c in sites:
        ok = mod.rel == F and qual == 'PR.merge' and c is in_merge[0][2]
        why = ('the GitHub merge request is issued outside PR.merge, i.e. not behind the is_mergeable gate of try_to_merge' if not (mod.rel == F and qual == 'PR.merge')
               else 'PR.merge issues a second merge request: the pinned head / single-merge analysis covers one request per call')
        ctx.check(ok, 'R1', f'{mod.rel}::{qual}::merge request {short(pf.nsrc(c.func), 40)}' + ('' if ok or c is in_merge[0][2] or not in_merge else ' (second)'),
                  why, mod.path, c.lineno)
    for mod, qual, n, g in _graphql_merges(mods):
        ctx.bad('R1', f'{mod.rel}::{qual}::graphql {g}', f'a GraphQL `{g}` mutation is issued: a second way to merge that is neither behind the is_mergeable gate of '
                'try_to_merge nor pinned to the head commit the checks were read for (e.g. auto-merge merges once GitHub\'s own rules are met, whatever CI\'s '
                'review / batch / label state says)', mod.path, getattr(n, 'lineno', 0))
    # callers of PR.merge
    merge_calls: List[Tuple[pf.FuncDef, str, ast.Call]] = []
    for mod in mods:
        for qual, fn in mod.functions():
            for c in pf.calls_in(fn):
                if isinstance(c.func, ast.Attribute) and c.func.attr == 'merge':
                    recv = pf.nsrc(c.func.value)
                    argt = ' '.join(pf.nsrc(a) for a in c.args)
                    looks_pr = 'pr' in recv.lower().replace('.', ' ').replace('_', ' ').split() or 'merge_candidate' in recv or recv.lower().endswith('pr') \
                        or 'gh' in argt.replace('.', ' ').split()
                    ctx.need(looks_pr, f'{mod.rel}::{qual}: cannot tell whether `{short(pf.nsrc(c), 60)}` is PR.merge')
                    cons = f'{mod.rel}::{qual}::{short(pf.nsrc(c), 60)}'
                    if not (mod.rel == F and qual == 'WatchedBranch.try_to_merge'):
                        ctx.bad('R1', cons, 'PR.merge is called outside WatchedBranch.try_to_merge: the merge is not gated by the branch being mergeable / '
                                'not frozen and is not limited to one per target update', mod.path, c.lineno)
                        continue
                    merge_calls.append((fn, recv, c))
                    cfg = pf.cfg(fn)
                    goal_nodes = cfg.node_of(c)
                    ctx.need(goal_nodes, f'{cons}: not found in CFG')
                    starts = _def_nodes(cfg, recv) if isinstance(c.func.value, ast.Name) else []
                    starts = starts or [cfg.entry]
                    want = f'{recv}.is_mergeable()'
                    path = _unguarded_path(cfg, facts, starts, lambda n: any(n is g for g in goal_nodes),
                                           lambda e, pol: pol and pf.nsrc(e) == want)
                    ctx.check(path is None, 'R1', cons,
                              f'`{recv}.merge` is reachable without `{want}` having been true ' + (f'[{_fmt_path(path)}]' if path else '')
                              + ': an unapproved / untested / out-of-date PR is merged', mod.path, c.lineno, detail={'gate': want})
    ctx.need(merge_calls, 'no call of PR.merge found in WatchedBranch.try_to_merge (anchor vanished)')
    # callers of try_to_merge
    n_ttm = 0
    for mod in mods:
        for qual, fn in mod.functions():
            for c in pf.calls_in(fn):
                if isinstance(c.func, ast.Attribute) and c.func.attr == 'try_to_merge':
                    n_ttm += 1
                    cons = f'{mod.rel}::{qual}::{short(pf.nsrc(c), 60)}'
                    ok = mod.rel == F and qual == 'WatchedBranch._update' and pf.nsrc(c.func.value) == 'self'
                    ctx.check(ok, 'R1', cons, 'try_to_merge is called outside WatchedBranch._update: merges are attempted without the preceding '
                              'GitHub / batch refresh and _heal of the same update iteration', mod.path, c.lineno)
    ctx.need(n_ttm >= 1, 'no caller of try_to_merge found (anchor vanished)')
    return merge_calls


def _check_one_merge(ctx: Ctx, m: pf.Module, facts: Facts, merge_calls: List[Tuple[pf.FuncDef, str, ast.Call]]) -> None:
    for fn, recv, c in merge_calls:
        cfg = pf.cfg(fn)
        qual = m.qualname(fn)
        all_merge_nodes = {n.id for f2, _, c2 in merge_calls if f2 is fn for n in cfg.node_of(c2)}
        cons = f'{F}::{qual}::after {short(pf.nsrc(c), 40)}'
        for n in cfg.node_of(c):
            ctx.need(n.kind == 'test', f'{qual}: the result of `{pf.nsrc(c)}` is not tested directly by an if (unrecognised shape)')
            succ_ok = [(s, lab) for s, lab in n.succ if any(pol and (x is c or (isinstance(x, ast.Await) and x.value is c)) for x, pol in facts.edge(n, lab))]
            ctx.need(succ_ok, f'{qual}: cannot identify the success branch of `{pf.nsrc(n.ast)}`')
            starts = [s for s, _ in succ_ok]

            def is_reset(x: pf.Node) -> bool:
                a = x.ast
                return (x.kind == 'stmt' and isinstance(a, ast.Assign) and any(pf.nsrc(t) == 'self.sha' for t in a.targets)
                        and isinstance(a.value, ast.Constant) and a.value.value is None)

            # (i) no second merge
            again = None
            for s in starts:
                if s.id in all_merge_nodes:
                    again = [n, s]
                    break
                again = cfg.path_avoiding(s, lambda x: x.id in all_merge_nodes, lambda x: False)
                if again:
                    break
            ctx.check(again is None, 'R3', cons + '::single',
                      'after a successful merge another `merge` is reachable in the same try_to_merge call '
                      + (f'[{_fmt_path(again)}]' if again else '') + ': a second PR, tested against the pre-merge target commit, is merged on the same target update',
                      m.path, c.lineno)
            # (ii) sha reset before leaving
            leak = None
            for s in starts:
                if is_reset(s):
                    continue
                if s is cfg.exit:
                    leak = [n, s]
                    break
                leak = cfg.path_avoiding(s, lambda x: x is cfg.exit, is_reset)
                if leak:
                    break
            ctx.check(leak is None, 'R3', cons + '::target-sha-reset',
                      'after a successful merge try_to_merge can return without `self.sha = None` '
                      + (f'[{_fmt_path(leak)}]' if leak else '') + ': if the following GitHub refresh fails, the next batch notification runs try_to_merge with the '
                      'stale target sha and merges a second PR that was tested against the pre-merge commit', m.path, c.lineno)


# --------------------------------------------------------------------------------------
# R4: sha pinning / reset on head change
# --------------------------------------------------------------------------------------


def _deep(fn: pf.FuncDef, e: ast.AST, depth: int = 4) -> str:
    """Source of e with single-assignment local names substituted (bounded)."""
    class Sub(ast.NodeTransformer):
        def __init__(self, d):
            self.d = d

        def visit_Name(self, node):
            if isinstance(node.ctx, ast.Load) and self.d > 0:
                d = pf.single_def(fn, node.id)
                if d is not None and isinstance(d, ast.expr):
                    import copy
                    return Sub(self.d - 1).visit(copy.deepcopy(d))
            return node
    import copy
    return pf.nsrc(Sub(depth).visit(copy.deepcopy(e)))


def _class_methods(m: pf.Module, name: str) -> Dict[str, pf.FuncDef]:
    return {f.name: f for f in m.cls(name).body if isinstance(f, (ast.FunctionDef, ast.AsyncFunctionDef))}


def _dict_at_call(ctx: Ctx, m: pf.Module, cls: str, fn: pf.FuncDef, call: ast.Call, expr: ast.expr, what: str) -> Tuple[List[guards.AbsDict], List[str]]:
    """The abstract dicts `expr` can denote when `call` is made (one per path), through helpers and incremental construction."""
    df = guards.DictFlow(m, fn, _class_methods(m, cls))
    try:
        return df.at_call(call, expr), df.helpers_followed
    except guards.Undecided as e:
        raise AnalysisError(f'{cls}.{fn.name}: {what} `{short(pf.nsrc(expr), 60)}` cannot be followed: {e}') from e


def _check_pin_and_reset(ctx: Ctx, m: pf.Module, sites) -> None:
    for mod, qual, c in sites:
        if not (mod.rel == F and qual == 'PR.merge'):
            continue
        fn = m.func('PR.merge')
        data = None
        for k in c.keywords:
            if k.arg in ('data', 'json'):
                data = k.value
        if data is None and len(c.args) >= 2:
            data = c.args[1]
        ctx.need(data is not None, f'PR.merge: `{short(pf.nsrc(c), 60)}` has no recognisable request body argument')
        alts, helpers = _dict_at_call(ctx, m, 'PR', fn, c, data, 'request body')
        cons = f'{F}::PR.merge::request body sha'
        problems: List[str] = []
        undecided: List[str] = []
        via = f' (built by {", ".join("PR." + h for h in helpers)})' if helpers else ''
        for d in alts:
            if 'sha' not in d.items:
                if d.open:
                    undecided.append(f'the body {d.show()} has unknown further keys')
                else:
                    problems.append(f"the merge request body {short(d.show(), 140)}{via} carries no 'sha': GitHub merges whatever the head is at that moment, e.g. a "
                                    'commit pushed after the review / statuses / test batch CI looked at (history: approved green PR, author pushes S2 while '
                                    'CI is between its refresh and the PUT -> the untested S2 is squashed into the target)')
                continue
            v = d.items['sha']
            if v is None:
                undecided.append(f"the value of 'sha' in {d.show()} is not resolved")
            elif pf.nsrc(v) != 'self.source_sha':
                problems.append(f"the merge request pins 'sha': {pf.nsrc(v)}{via} instead of self.source_sha (the head the statuses and test batch refer to): "
                                'self.sha is the local merge commit and never equals the PR head, other values let an untested head through')
        if problems:
            ctx.bad('R4', cons, problems[0], m.path, c.lineno, extra=[d.show() for d in alts])
        elif undecided:
            raise AnalysisError(f'PR.merge: {undecided[0]}')
        else:
            ctx.ok('R4', cons, {'bodies': [d.show() for d in alts], 'helpers': helpers})
    # reset on head change
    fn = m.func('PR.update_from_gh_json')
    params = [a.arg for a in fn.args.args]
    ctx.need(len(params) == 2, f'PR.update_from_gh_json: parameters {params}')
    gh = params[1]
    head_sha = f"{gh}['head']['sha']"
    branch: Optional[List[ast.stmt]] = None
    the_if = None
    for st in fn.body:
        if isinstance(st, ast.If) and isinstance(st.test, ast.Compare) and len(st.test.ops) == 1:
            sides = {_deep(fn, st.test.left), _deep(fn, st.test.comparators[0])}
            if sides == {'self.source_sha', head_sha}:
                if isinstance(st.test.ops[0], ast.NotEq):
                    branch, the_if = st.body, st
                elif isinstance(st.test.ops[0], ast.Eq):
                    branch, the_if = st.orelse, st
    ctx.need(the_if is not None, f'PR.update_from_gh_json: no `if self.source_sha != {head_sha}` found')
    cons = f'{F}::PR.update_from_gh_json::head changed'
    if not branch:
        for what in ('records new head', 'clears batch', 'clears build state'):
            ctx.bad('R4', f'{cons}::{what}', 'nothing is done when the head commit changes', m.path, the_if.lineno)  # type: ignore[union-attr]
        return
    found = {'records new head': False, 'clears batch': False, 'clears build state': False}
    nested = {k: False for k in found}
    for st in branch:
        direct = True
        for n in ([st] if not isinstance(st, (ast.If, ast.Try, ast.For, ast.While, ast.With)) else list(ast.walk(st))):
            if n is not st:
                direct = False
            hit = None
            if isinstance(n, ast.Assign) and len(n.targets) == 1:
                t = pf.nsrc(n.targets[0])
                if t == 'self.source_sha' and _deep(fn, n.value) == head_sha:
                    hit = 'records new head'
                elif t == 'self.batch' and isinstance(n.value, ast.Constant) and n.value.value is None:
                    hit = 'clears batch'
                elif t == 'self.build_state' and isinstance(n.value, ast.Constant) and n.value.value is None:
                    hit = 'clears build state'
            elif isinstance(n, ast.Expr) and isinstance(n.value, ast.Call) and pf.nsrc(n.value) == 'self.set_build_state(None)':
                hit = 'clears build state'
            if hit:
                if direct and n is st:
                    found[hit] = True
                else:
                    nested[hit] = True
    why = {
        'records new head': 'self.source_sha keeps the old head: the batch lookup, status post and merge pin refer to a commit that is no longer the head',
        'clears batch': 'self.batch still is the test batch of the previous head; is_up_to_date() stays true and the new, untested head is merged '
                        '(history: approved PR, green batch, push a new commit, next update)',
        'clears build state': "build_state stays 'success' from the previous head; when the PR returns to a head whose batch is still running, _update_batch "
                              'leaves it untouched, _heal posts SUCCESS for the untested head and is_mergeable accepts it',
    }
    for what, ok in found.items():
        if not ok and nested[what]:
            raise AnalysisError(f'PR.update_from_gh_json: `{what}` happens only under a nested condition - cannot decide')
        ctx.check(ok, 'R4', f'{cons}::{what}', f'when the head commit changes the handler does not do `{what}`: {why[what]}', m.path, the_if.lineno)  # type: ignore[union-attr]


# --------------------------------------------------------------------------------------
# R5: tested chain
# --------------------------------------------------------------------------------------


def _check_tested_chain(ctx: Ctx, mods: List[pf.Module], m: pf.Module, facts: Facts) -> None:
    # (a) SUCCESS status only from build_state == 'success'
    fn = m.func('PR.github_status_from_build_state')
    cfg = pf.cfg(fn)
    rets = [n for n in cfg.nodes if n.kind == 'return' and isinstance(n.ast, ast.Return)]
    n_succ = 0
    for r in rets:
        v = r.ast.value  # type: ignore[union-attr]
        ctx.need(v is not None and (pf.dotted(v) or '').startswith('GithubStatus.'), f'github_status_from_build_state: return `{pf.nsrc(r.ast)}` is not a GithubStatus constant')
        if pf.dotted(v) != 'GithubStatus.SUCCESS':
            continue
        n_succ += 1
        path = _unguarded_path(cfg, facts, [cfg.entry], lambda n: n is r,
                               lambda e, pol: _const_eq_fact(e, pol, lambda x: pf.nsrc(x) == 'self.build_state', 'success'))
        ctx.check(path is None, 'R5', f'{F}::PR.github_status_from_build_state::return SUCCESS',
                  "GithubStatus.SUCCESS is returned without `self.build_state == 'success'` " + (f'[{_fmt_path(path)}]' if path else '')
                  + ': CI reports (and then itself counts) success for a PR whose test batch failed or is still running', m.path, r.lineno)
    ctx.need(n_succ >= 1, 'github_status_from_build_state never returns GithubStatus.SUCCESS (anchor changed)')

    # (b) who writes build_state 'success'
    writes = []
    for mod in mods:
        for qual, f2 in mod.functions():
            for n in pf.walk_shallow(f2):
                if isinstance(n, ast.Call) and isinstance(n.func, ast.Attribute) and n.func.attr == 'set_build_state' and n.args \
                        and pf.const_str(n.args[0]) == 'success':
                    writes.append((mod, qual, f2, n))
                elif isinstance(n, ast.Assign) and any(isinstance(t, ast.Attribute) and t.attr == 'build_state' for t in n.targets) \
                        and pf.const_str(n.value) == 'success':
                    writes.append((mod, qual, f2, n))
    ctx.need(writes, "no write of build_state 'success' found (anchor vanished)")
    for mod, qual, f2, n in writes:
        cons = f"{mod.rel}::{qual}::{short(pf.nsrc(n), 50)}"
        if not (mod.rel == F and qual == 'PR._update_batch'):
            ctx.bad('R5', cons, "build_state is set to 'success' outside PR._update_batch, i.e. not from the completed test batch's state", mod.path, n.lineno)
            continue
        cfg2 = pf.cfg(f2)
        goals = cfg2.node_of(n)
        ctx.need(goals, f'{cons}: not in CFG')

        def status_var(e: ast.expr, key: str) -> Optional[str]:
            if isinstance(e, ast.Subscript) and pf.const_str(e.slice) == key and isinstance(e.value, ast.Name):
                return e.value.id
            return None
        # which variable is `X['state'] == 'success'` about?
        xs: Set[str] = set()
        for nd in cfg2.nodes:
            if nd.kind == 'test' and isinstance(nd.ast, ast.expr):
                for e, pol in facts.true(nd.ast):
                    if isinstance(e, ast.Compare) and _const_eq_fact(e, pol, lambda x: status_var(x, 'state') is not None, 'success'):
                        for side in (e.left, e.comparators[0]):
                            v = status_var(side, 'state')
                            if v:
                                xs.add(v)
        ok_var = None
        p1 = p2 = None
        for x in sorted(xs) or ['?']:
            p1 = _unguarded_path(cfg2, facts, [cfg2.entry], lambda nd: any(nd is g for g in goals),
                                 lambda e, pol: _const_eq_fact(e, pol, lambda s: status_var(s, 'state') == x, 'success'))
            p2 = _unguarded_path(cfg2, facts, [cfg2.entry], lambda nd: any(nd is g for g in goals),
                                 lambda e, pol: pol and status_var(e, 'complete') == x)
            if p1 is None and p2 is None:
                ok_var = x
                break
        bad_path = p1 or p2
        ctx.check(ok_var is not None, 'R5', cons,
                  "build_state 'success' is reachable without both `status['complete']` and `status['state'] == 'success'` of the batch "
                  + (f'[{_fmt_path(bad_path)}]' if bad_path else '') + ': a running or failed test batch counts as a passed test', mod.path, n.lineno,
                  detail={'status_variable': ok_var})
        if ok_var is not None:
            # the status variable and self.batch must come from the same batch object
            sb = [nd for nd in cfg2.nodes if nd.kind == 'stmt' and isinstance(nd.ast, ast.Assign) and any(pf.nsrc(t) == 'self.batch' for t in nd.ast.targets)]
            ctx.need(len(sb) == 1 and isinstance(sb[0].ast.value, ast.Name), 'PR._update_batch: `self.batch = <name>` not found')  # type: ignore[union-attr]
            bname = sb[0].ast.value.id  # type: ignore[union-attr]
            # every assignment of ok_var to a non-None value is `await <b>.status()` of the batch assigned to bname in the same block
            pair_ok = True
            detail = []
            for blk in ast.walk(f2):
                body = getattr(blk, 'body', None)
                if not isinstance(body, list):
                    continue
                for fld in ('body', 'orelse'):
                    stmts = getattr(blk, fld, None)
                    if not isinstance(stmts, list):
                        continue
                    names_b = [s for s in stmts if isinstance(s, ast.Assign) and any(pf.nsrc(t) == bname for t in s.targets) and not (isinstance(s.value, ast.Constant))]
                    names_s = [s for s in stmts if isinstance(s, ast.Assign) and any(pf.nsrc(t) == ok_var for t in s.targets) and not (isinstance(s.value, ast.Constant))]
                    if names_b or names_s:
                        if len(names_b) != 1 or len(names_s) != 1:
                            pair_ok = False
                            continue
                        bsrc = names_b[0].value
                        ssrc = pf.resolve_expr(f2, names_s[0].value)
                        if isinstance(ssrc, ast.Await):
                            ssrc = ssrc.value
                        good = isinstance(bsrc, ast.Name) and isinstance(ssrc, ast.Call) and pf.nsrc(ssrc) == f'{bsrc.id}.status()'
                        detail.append(f'{pf.nsrc(names_b[0])} / {pf.nsrc(names_s[0])} ~ {pf.nsrc(ssrc)}')
                        pair_ok = pair_ok and good
            ctx.need(detail, f'PR._update_batch: assignments of {bname}/{ok_var} not recognised')
            ctx.check(pair_ok, 'R5', f'{F}::PR._update_batch::batch/status pairing',
                      f'`{ok_var}` is not the status of the batch stored in self.batch ({detail}): the build state of one batch is attributed to another',
                      m.path, sb[0].lineno, detail=detail)

    # (c) PR._heal forces the intended CI status into the map
    fn = m.func('PR._heal')
    hits = [n for n in pf.walk_shallow(fn) if isinstance(n, ast.Assign) and len(n.targets) == 1
            and pf.nsrc(n.targets[0]) == f'{S_STATUS}[GITHUB_STATUS_CONTEXT]']
    cons = f'{F}::PR._heal::{S_STATUS}[GITHUB_STATUS_CONTEXT] = …'
    if not hits:
        ctx.bad('R5', cons, "PR._heal no longer stores the intended CI status in the status map that is_mergeable reads: with CI's own status not a "
                '*required* GitHub check the map never contains it, and a PR whose test batch is running or failed is merged once the other checks pass',
                m.path, fn.lineno)
    for h in hits:
        ctx.check(pf.nsrc(h.value) == 'self.intended_github_status', 'R5', cons,
                  f'the status map entry for CI is set to `{pf.nsrc(h.value)}`, not to self.intended_github_status (derived from build_state)', m.path, h.lineno)
        # recognised guards only: `if self.source_sha` and `if self.intended_github_status != <map.get(CONTEXT)>`
        par = m.parents()
        cur = par.get(h)
        while cur is not None and cur is not fn:
            if isinstance(cur, ast.If):
                t = _deep(fn, cur.test)
                ok = t in ('self.source_sha', f'self.intended_github_status != {S_STATUS}.get(GITHUB_STATUS_CONTEXT)',
                           f'{S_STATUS}.get(GITHUB_STATUS_CONTEXT) != self.intended_github_status')
                ctx.need(ok, f'PR._heal: the CI status entry is stored under unrecognised condition `{short(t, 70)}`')
            else:
                ctx.need(not isinstance(cur, (ast.For, ast.While, ast.Try)), 'PR._heal: the CI status entry is stored inside a loop/try (unrecognised)')
            cur = par.get(cur)
    # it must precede every early return other than the unknown-target return
    cfg = pf.cfg(fn)
    hit_nodes = [n for h in hits for n in cfg.node_of(h)]
    if hit_nodes:
        def known(e: ast.expr, pol: bool) -> bool:
            t = _deep(fn, e)
            if pol and _eq_sides(e) is not None and {_eq_sides(e)[0], _eq_sides(e)[1]} == {'self.target_branch.sha', 'None'} and _eq_sides(e)[2] is ast.Is:  # type: ignore[index]
                return True  # target unknown: nothing is up to date
            if not pol and t == 'self.source_sha':
                return True
            if not pol and t in (f'self.intended_github_status != {S_STATUS}.get(GITHUB_STATUS_CONTEXT)', f'{S_STATUS}.get(GITHUB_STATUS_CONTEXT) != self.intended_github_status'):
                return True  # the entry already equals the intended status
            return False
        path = _unguarded_path(cfg, facts, [cfg.entry], lambda n: n is cfg.exit, known, avoid=lambda n: any(n is x for x in hit_nodes))
        ctx.check(path is None, 'R5', f'{F}::PR._heal::CI status entry on every path',
                  'PR._heal can return without the CI status entry being (already) equal to the intended status ' + (f'[{_fmt_path(path)}]' if path else '')
                  + ': is_mergeable then reads a stale SUCCESS', m.path, fn.lineno)

    # (d) _update: merge attempt only after _heal of the same iteration
    fn = m.func('WatchedBranch._update')
    cfg = pf.cfg(fn)
    ttm = [n for n in cfg.nodes if any(isinstance(c.func, ast.Attribute) and c.func.attr == 'try_to_merge' for c in pf.node_calls(n))]
    ctx.need(ttm, 'WatchedBranch._update: try_to_merge call not found')

    def is_heal(n: pf.Node) -> bool:
        return any(pf.nsrc(c.func) == 'self._heal' for c in pf.node_calls(n))

    def is_refresh(n: pf.Node, which: str) -> bool:
        return any(pf.nsrc(c.func) == f'self.{which}' for c in pf.node_calls(n))
    for t in ttm:
        starts = [cfg.entry] + [n for n in cfg.nodes if n.kind == 'test' and any(isinstance(p.ast, ast.AST) and p.id > n.id for p, _ in n.pred)]
        path = None
        for s in starts:
            path = cfg.path_avoiding(s, lambda n: n is t, is_heal)
            if path:
                break
        ctx.check(path is None, 'R5', f'{F}::WatchedBranch._update::{short(t.text(), 50)}',
                  'try_to_merge is reachable in an update iteration without `await self._heal(...)` first ' + (f'[{_fmt_path(path)}]' if path else '')
                  + ': the status map was not reconciled with the current build state before is_mergeable reads it', m.path, t.lineno)

    # (e) batch provenance
    fn = m.func('PR._start_build')
    created = [c for c in pf.calls_in(fn) if isinstance(c.func, ast.Attribute) and c.func.attr == 'create_batch']
    ctx.need(len(created) == 1, f'PR._start_build: {len(created)} create_batch calls')
    attrs = None
    for k in created[0].keywords:
        if k.arg == 'attributes':
            attrs = k.value
    ctx.need(attrs is not None, 'PR._start_build: create_batch(…) without attributes=')
    alts, _helpers = _dict_at_call(ctx, m, 'PR', fn, created[0], attrs, 'create_batch attributes')
    for key, want, why in (('target_sha', 'self.target_branch.sha', 'is_up_to_date compares this attribute with the current target commit'),
                           ('source_sha', 'self.source_sha', 'the batch is looked up by this attribute for the current head')):
        got = []
        for d in alts:
            ctx.need(key in d.items or not d.open, f'PR._start_build: create_batch attributes {d.show()} have unknown further keys')
            ctx.need(key not in d.items or d.items[key] is not None, f"PR._start_build: attribute '{key}' in {d.show()} is not resolved")
            got.append(pf.nsrc(d.items[key]) if key in d.items else None)
        wrong = [g for g in got if g != want]
        ctx.check(not wrong, 'R5', f"{F}::PR._start_build::create_batch attributes['{key}']",
                  f"the test batch is labelled '{key}': {wrong[0] if wrong else None} instead of {want}; {why}, so a batch that tested something else counts",
                  m.path, created[0].lineno)
    # checkout script tests target_branch.sha + source_sha
    fn = m.func('PR.checkout_script')
    rets = [n for n in pf.walk_shallow(fn) if isinstance(n, ast.Return)]
    ctx.need(len(rets) == 1 and rets[0].value is not None, 'PR.checkout_script: expected one return')
    tpl = pf.fstring_template(rets[0].value, lambda e: '{' + pf.nsrc(e) + '}')
    ctx.need(tpl is not None, 'PR.checkout_script: not an f-string')
    lines = [ln.strip() for ln in tpl.splitlines()]  # type: ignore[union-attr]
    ctx.check('git checkout {shq(self.target_branch.sha)}' in lines, 'R5', f'{F}::PR.checkout_script::git checkout',
              'the test build does not check out self.target_branch.sha (the commit recorded as target_sha): the batch tests a different target commit than '
              'the one is_up_to_date compares', m.path, rets[0].lineno)
    ctx.check(any(ln.startswith('git merge {shq(self.source_sha)}') for ln in lines), 'R5', f'{F}::PR.checkout_script::git merge',
              'the test build does not merge self.source_sha (the head that is pinned in the merge request): the tested tree is not the merged tree', m.path, rets[0].lineno)
    # lookup by current source sha
    fn = m.func('PR._update_batch')
    lb = [c for c in pf.calls_in(fn) if isinstance(c.func, ast.Attribute) and c.func.attr == 'list_batches']
    ctx.need(len(lb) == 1 and lb[0].args, 'PR._update_batch: list_batches call not recognised')
    q = pf.fstring_template(pf.resolve_expr(fn, lb[0].args[0]), lambda e: '{' + pf.nsrc(e) + '}')
    ctx.need(q is not None, 'PR._update_batch: list_batches query is not an f-string')
    terms = q.split()  # type: ignore[union-attr]
    ctx.check('source_sha={self.source_sha}' in terms, 'R5', f'{F}::PR._update_batch::list_batches query',
              f'the current build batch is not looked up by `source_sha={{self.source_sha}}` (query: {q!r}): the batch of a previous head is taken as '
              'the test of the current head', m.path, lb[0].lineno)
    ctx.check('test=1' in terms, 'R5', f'{F}::PR._update_batch::list_batches query test=1',
              f'the build batch query {q!r} does not select test batches', m.path, lb[0].lineno)


def run(ctx: Ctx) -> None:
    ctx.explanation = ('Who-may-call closure over ci/ci/*.py for the GitHub merge request, PR.merge and try_to_merge; CFG must-pass-through with branch polarity '
                       'for the is_mergeable gate, the single-merge exit and the tested chain; fact extraction over the conjunction returned by is_mergeable.')
    ctx.rule('R1', 'merge request only in PR.merge; PR.merge only from try_to_merge behind `pr.is_mergeable()`; try_to_merge only from _update', 3)
    ctx.rule('R2', 'is_mergeable is a conjunction containing approved, statuses non-empty, all SUCCESS, batch target_sha == target sha, no DO_NOT_MERGE label', 6)
    ctx.rule('R3', 'a successful merge ends try_to_merge (no second merge) after resetting the target sha', 2)
    ctx.rule('R4', "merge request pins 'sha': self.source_sha; a head change records the head, clears batch and build state", 4)
    ctx.rule('R5', "tested chain: SUCCESS only from build_state 'success' <- completed successful batch of the current head and target; _heal before every merge attempt", 12)
    ctx.assume('GitHub rejects PUT …/merge when the pinned sha is not the pull request head')
    ctx.assume('within one WatchedBranch._update call no other coroutine mutates the PR objects (guarded by `self.updating`)')
    mods = [pf.load(rel) for rel in pf.walk_py(['ci/ci'])]
    ctx.unit('files', len(mods))
    ctx.unit('functions', sum(len(mm.functions()) for mm in mods))
    m = pf.load(F)
    facts = Facts(m.cls('PR'))
    merge_calls = _check_callers(ctx, mods, m, facts)
    _check_is_mergeable(ctx, m, facts)
    _check_one_merge(ctx, m, facts, merge_calls)
    _check_pin_and_reset(ctx, m, _merge_request_sites(mods))
    _check_tested_chain(ctx, mods, m, facts)
