"""C30 CI merges only fully tested, approved, current PRs.

Decides (from the syntax trees of ci/ci/*.py, nothing is run):
  R1  who-may-call: the GitHub merge request (`PUT …/pulls/N/merge`, the URL followed through locals / module constants) is issued only by
      PR.merge, once; no GraphQL merge / auto-merge mutation is sent anywhere; PR.merge is called only from WatchedBranch.try_to_merge, and every
      such call is reached only through a branch edge that guarantees `<that pr>.is_mergeable()`; try_to_merge is called only from
      WatchedBranch._update (or from a private helper reached only from it)
  R2  PR.is_mergeable returns a conjunction that contains (self-method helpers inlined; a disjunction establishes only what each of its
      disjuncts establishes): review_state == 'approved', a non-empty status map, every status == GithubStatus.SUCCESS, batch target_sha ==
      target_branch.sha, no DO_NOT_MERGE label; DO_NOT_MERGE is a non-empty set of label constants
  R3  one merge per target update: after a successful `pr.merge`, no second merge is reachable in that call and every path to
      the exit resets `self.sha = None` (so that no PR is "up to date" until the target branch has been re-read)
  R4  the merge request body - evaluated to an abstract dict through same-class helpers, dict literals, dict(...), {**a}, a | b, d[k] = v,
      d.update(...) on every path to the PUT (engines/guards.DictFlow) - pins `'sha': self.source_sha`; when the head commit changes
      update_from_gh_json records the new head and clears `self.batch` and the build state
  R5  "tested" chain: the CI status SUCCESS is derived only from build_state == 'success'; build_state 'success' is written only by
      PR._update_batch under `status['complete']` and `status['state'] == 'success'`; PR._heal forces the intended CI status into the
      status map is_mergeable reads; _update attempts a merge only after _heal in the same iteration; the test batch is created with
      target_sha = target_branch.sha / source_sha = self.source_sha and looked up by the current source_sha
  R6  lost update: for every coroutine of ci/ci that consumes dirty flags (attributes raised `= True` elsewhere, tested and cleared in it; helpers
      inlined) each clear is reached from the test that found the flag set with no suspension point in between, is followed by awaited work,
      no clear of such a flag exists outside that pattern, and after every suspension the coroutine re-tests the flag before it returns
  R7  single flight: the busy guard of that coroutine is taken atomically with the test that found it free, before the first suspension,
      held across all of them, released last and on every exit
  R8  review provenance: review_state is written only through set_review_state, called only by PR._update_github with a local that is
      'approved' only under `<reviewDecision of this refresh's response> == 'APPROVED'`, and stored whenever it differs from the recorded state
  R9  freshness: target sha, labels and status map are replaced by what this refresh read from GitHub whenever they differ; push /
      pull_request / pull_request_review events reach notify_github_changed and batch callbacks reach notify_batch_changed
  R11 the merge decision is about the batch whose currency it checks: an abstract execution of PR.is_mergeable (self-helpers inlined) over the finite
      domain of build states (the constants written anywhere in ci/ci) x "CI's own status entry known not to be SUCCESS", split at disjunctive
      facts, narrowed by branch edges, asserts (normal continuation only), `return False` guards and the returned conjunction, shows that a true
      result needs build_state == 'success' (or intended_github_status == SUCCESS, read as such only if set_build_state is found to recompute it at
      every write) whenever CI's entry is SUCCESS.  The entry alone describes the batch that was current when PR._heal last posted; _heal posts
      before it may call _start_build (checked: reset of build_state in _start_build, no later store of the entry), and try_to_merge follows in the
      same pass.  Dually, every `self.batch = <new batch>` outside _update_batch is preceded on every path by a reset of build_state.
Refactor-robustness: is_mergeable / is_up_to_date and other zero-argument predicates are read as ONE and/or/not condition whatever their spelling (guard
clauses, nested ifs, locals, helper predicates: engines/c30facts.to_bool); conjuncts about review_state, the number of statuses and a single status are
decided over their finite domains; try_to_merge and update_from_gh_json are analysed with private helpers inlined; the merge gate may sit in the same
condition as the merge call (short-circuit order) or test a local alias; the merge result may be held in a local.
Does not decide: the behaviour of GitHub; that the statuses GitHub reports belong to the head (CI asks for `commits(last: 1)`).
"""
from __future__ import annotations

import ast
import re
from typing import Callable, Dict, List, Optional, Sequence, Set, Tuple

from engines import absdom, asyncfacts as af, c30facts as cx, guards, inline, pyfacts as pf
from engines.guards import Facts
from engines.common import AnalysisError, Ctx, short

META = dict(
    category='other',
    text='Closed-world who-may-call scan of ci/ci/*.py for the merge request and its callers, CFG must-pass-through with branch-edge '
         'polarity for the is_mergeable gate and the one-merge-per-update exit, a fact extraction over the returned conjunction of '
         'is_mergeable (helpers inlined, disjunctions weakened), an abstract-dict evaluation of the merge request body, an abstract execution of is_mergeable over '
         'the finite domain of build states (a true result is tied to the state of the batch whose target commit it compares), and await-atomicity '
         'rules for the dirty-flag / busy-guard protocol of the update coroutine.  Level `other`: the property quantifies over event '
         'histories; the rules are the structural necessary conditions on every code path, not a model of GitHub.',
    note='Trusted: CPython ast; engines/pyfacts CFG; asyncio atomicity between suspension points. Assumes GitHub refuses a merge whose pinned sha is not '
         'the head. Not decided: GitHub-side behaviour, `self.sha` (merge-commit sha) reset on head change is not needed by the gate and is not demanded.',
    technique='static analysis: who-may-call closure + CFG dominance with edge polarity + boolean fact extraction + abstract dict evaluation + '
              'await-atomicity (test-and-clear, single flight) + abstract execution over a finite enum domain with case splits',
    design_ref='DESIGN.md §3 C30',
)

F = 'ci/ci/github.py'
S_STATUS = 'self.last_known_github_status'
Fact = Tuple[ast.expr, bool]



def _fmt_path(path):
    return guards.fmt_path(path)[1:-1]


_unguarded_path = guards.unguarded_path
_eq_sides = guards.eq_sides


def _is_eq_fact(e, pol, a, b):
    s = guards.eq_sides(e)
    if s is None or {s[0], s[1]} != {a, b}:
        return False
    return (s[2] is ast.Eq and pol) or (s[2] is ast.NotEq and not pol)


def _const_eq_fact(e: ast.expr, pol: bool, lhs_pred: Callable[[ast.expr], bool], const) -> bool:
    if not (isinstance(e, ast.Compare) and len(e.ops) == 1 and isinstance(e.ops[0], (ast.Eq, ast.NotEq))):
        return False
    l, r = e.left, e.comparators[0]
    for x, c in ((l, r), (r, l)):
        if isinstance(c, ast.Constant) and c.value == const and type(c.value) is type(const) and lhs_pred(x):
            return (isinstance(e.ops[0], ast.Eq) and pol) or (isinstance(e.ops[0], ast.NotEq) and not pol)
    return False


# --------------------------------------------------------------------------------------
# R2: is_mergeable
# --------------------------------------------------------------------------------------

KINDS = ['approved', 'statuses-nonempty', 'statuses-all-success', 'up-to-date', 'no-do-not-merge-label']
WHY = {
    'approved': 'an unapproved PR (review_state pending / changes_requested) whose checks pass is merged',
    'statuses-nonempty': 'a PR for which no check has reported yet (empty status map, test batch still running) is merged',
    'statuses-all-success': 'a PR with a failing or pending check on its head is merged',
    'up-to-date': 'a PR whose test batch ran against an older target commit is merged after the target branch moved',
    'no-do-not-merge-label': 'a PR labelled WIP / stacked PR is merged',
}


def _gen(e: ast.expr) -> Optional[Tuple[str, ast.expr, str, str]]:
    """all(elt for v in it) / any(...) -> (fname, elt, var, iter-src)"""
    if isinstance(e, ast.Call) and isinstance(e.func, ast.Name) and e.func.id in ('all', 'any') and len(e.args) == 1 and not e.keywords:
        g = e.args[0]
        if isinstance(g, (ast.GeneratorExp, ast.ListComp)) and len(g.generators) == 1 and not g.generators[0].ifs \
                and isinstance(g.generators[0].target, ast.Name):
            return e.func.id, g.elt, g.generators[0].target.id, pf.nsrc(g.generators[0].iter)
    return None


_MODULE: Dict[str, pf.Module] = {}
_STATUS_MEMBERS: List[str] = []


def _global_const(name: str) -> Optional[ast.AST]:
    """module-level definition of a name in ci/ci/github.py (constants moved to module level are read as their value)"""
    m = _MODULE.get('m')
    if m is None:
        return None
    try:
        return m.global_assign(name)
    except AnalysisError:
        return None


def _status_members() -> List[str]:
    """member names of the GithubStatus enum (the finite domain of a reported check state)"""
    if not _STATUS_MEMBERS:
        found: List[str] = []
        for rel in pf.walk_py(['ci/ci']):
            for c in pf.load(rel).classes():
                if c.name == 'GithubStatus':
                    found = [t.id for st in c.body if isinstance(st, ast.Assign) for t in st.targets if isinstance(t, ast.Name)]
        _STATUS_MEMBERS.extend(found or ['SUCCESS', 'PENDING', 'FAILURE'])
    return _STATUS_MEMBERS


def _status_member(e: ast.AST) -> Optional[object]:
    d = pf.dotted(e) or ''
    if d.startswith('GithubStatus.') and d.split('.', 1)[1] in _status_members():
        return d.split('.', 1)[1]
    return None


def _is_plain_path(e: ast.AST) -> bool:
    """`self.a.b['k']`: an access path (attributes / constant subscripts) rooted at self"""
    cur = e
    while True:
        if isinstance(cur, ast.Attribute):
            cur = cur.value
        elif isinstance(cur, ast.Subscript) and isinstance(cur.slice, ast.Constant):
            cur = cur.value
        else:
            return isinstance(cur, ast.Name) and cur.id == 'self'


def _classify(e: ast.expr, pol: bool) -> Tuple[str, Optional[str]]:
    """-> ('match'|'weak'|'harmless'|'unknown', kind).  'weak' is reserved for atoms that are fully understood and, under this polarity, let a
    PR through that the required conjunct would stop (decided over the finite domain of the quantity the atom tests); an atom that merely
    mentions the quantity in a shape that is not understood is 'unknown' (the rule then declines)."""
    txt = pf.nsrc(e)
    # ---- approved: the atom as a predicate of review_state over {'approved', the other constants it names, any other state}
    if af.mentions(e, 'self.review_state'):
        named: List[object] = ['approved']
        for x in ast.walk(e):
            ok, v = cx.const_value(x, _global_const)
            if ok and isinstance(v, str) and v not in named:
                named.append(v)
        dom = named + [cx.OTHER]

        def member(x: ast.AST) -> Optional[object]:
            ok, v = cx.const_value(x, _global_const)
            return v if ok and (isinstance(v, str) or v is None) else None
        e2 = e
        if isinstance(e, ast.Compare) and len(e.ops) == 1 and isinstance(e.ops[0], (ast.In, ast.NotIn)) and isinstance(e.comparators[0], ast.Name):
            coll = cx.const_collection(e.comparators[0], _global_const)
            if coll is not None:
                e2 = ast.Compare(left=e.left, ops=e.ops, comparators=[ast.Tuple(elts=[ast.Constant(value=v) for v in coll], ctx=ast.Load())])
        tt = cx.truth_over(e2, lambda x: pf.nsrc(x) == 'self.review_state', member, dom + [None])
        if tt is None:
            return 'unknown', None
        passes = [d for d in dom + [None] if tt[d] == pol]
        if passes == ['approved']:
            return 'match', 'approved'
        if any(d != 'approved' for d in passes):
            return 'weak', 'approved'
        return 'unknown', None
    # ---- statuses non-empty: the atom as a predicate of n = len(status map) over {0, 1, 2}
    n_truth: Optional[Dict[int, bool]] = None
    if isinstance(e, ast.Compare) and len(e.ops) == 1:
        for x, c, flipped in ((e.left, e.comparators[0], False), (e.comparators[0], e.left, True)):
            okc, cv = cx.const_value(c, _global_const)
            if pf.nsrc(x) == f'len({S_STATUS})' and okc and isinstance(cv, int) and not isinstance(cv, bool):
                table = {ast.Gt: lambda a, b: a > b, ast.GtE: lambda a, b: a >= b, ast.Lt: lambda a, b: a < b, ast.LtE: lambda a, b: a <= b,
                         ast.Eq: lambda a, b: a == b, ast.NotEq: lambda a, b: a != b}
                f = table.get(type(e.ops[0]))
                if f is not None:
                    n_truth = {n: (f(cv, n) if flipped else f(n, cv)) for n in (0, 1, 2)}
            if pf.nsrc(x) == S_STATUS and isinstance(c, ast.Dict) and not c.keys and isinstance(e.ops[0], (ast.Eq, ast.NotEq)):
                n_truth = {n: ((n == 0) == isinstance(e.ops[0], ast.Eq)) for n in (0, 1, 2)}
    if txt in (S_STATUS, f'bool({S_STATUS})', f'len({S_STATUS})'):
        n_truth = {0: False, 1: True, 2: True}
    if n_truth is not None:
        if n_truth[0] == pol:
            return 'weak', 'statuses-nonempty'  # the empty map passes
        if n_truth[1] == pol or n_truth[2] == pol:
            return 'match', 'statuses-nonempty'
        return 'unknown', None
    # ---- every status SUCCESS: the quantified element as a predicate of one status over the members of GithubStatus
    g = _gen(e)
    if g is not None and g[3] in (f'{S_STATUS}.values()', f'list({S_STATUS}.values())'):
        fname, elt, var, _ = g
        neg = False
        while isinstance(elt, ast.UnaryOp) and isinstance(elt.op, ast.Not):
            elt, neg = elt.operand, not neg
        tt = cx.truth_over(elt, lambda x: isinstance(x, ast.Name) and x.id == var, _status_member, _status_members())
        if tt is None:
            return 'unknown', None
        holds = {d: (v != neg) for d, v in tt.items()}
        others = [d for d in holds if d != 'SUCCESS']
        if fname == 'all' and pol:       # every status satisfies elt
            if not holds['SUCCESS']:
                return 'unknown', None
            return ('match', 'statuses-all-success') if not any(holds[d] for d in others) else ('weak', 'statuses-all-success')
        if fname == 'any' and not pol:   # no status satisfies elt
            if holds['SUCCESS']:
                return 'unknown', None
            return ('match', 'statuses-all-success') if all(holds[d] for d in others) else ('weak', 'statuses-all-success')
        return 'weak', 'statuses-all-success'  # `any(..)` true / `all(..)` false: some status only
    # ---- up to date
    if _is_eq_fact(e, pol, 'self.target_branch.sha', "self.batch.attributes['target_sha']"):
        return 'match', 'up-to-date'
    s = _eq_sides(e)
    if s is not None and {s[0], s[1]} == {'self.batch', 'None'}:
        return 'harmless', None
    if txt == 'self.batch':
        return 'harmless', None
    if 'self.batch.attributes' in txt or 'self.target_branch.sha' in txt:
        # a comparison of two plain fields / constants is understood (and is not the required one); anything else is not
        if s is not None and all(_is_plain_path(x) or isinstance(x, ast.Constant) for x in (e.left, e.comparators[0])):  # type: ignore[attr-defined]
            return 'weak', 'up-to-date'
        return 'unknown', None
    # ---- labels
    if g is not None and g[3] in ('self.labels', 'list(self.labels)', 'sorted(self.labels)'):
        fname, elt, var, _ = g
        if isinstance(elt, ast.Compare) and len(elt.ops) == 1 and pf.nsrc(elt.left) == var and pf.nsrc(elt.comparators[0]) == 'DO_NOT_MERGE' \
                and isinstance(elt.ops[0], (ast.In, ast.NotIn)):
            if fname == 'all' and pol and isinstance(elt.ops[0], ast.NotIn):
                return 'match', 'no-do-not-merge-label'
            if fname == 'any' and not pol and isinstance(elt.ops[0], ast.In):
                return 'match', 'no-do-not-merge-label'
            return 'weak', 'no-do-not-merge-label'  # understood quantifier / membership, not the required combination
        return 'unknown', None
    if txt in ('DO_NOT_MERGE.isdisjoint(self.labels)', 'self.labels.isdisjoint(DO_NOT_MERGE)'):
        return ('match', 'no-do-not-merge-label') if pol else ('weak', 'no-do-not-merge-label')
    if txt in ('DO_NOT_MERGE & self.labels', 'self.labels & DO_NOT_MERGE', 'self.labels.intersection(DO_NOT_MERGE)', 'DO_NOT_MERGE.intersection(self.labels)'):
        return ('match', 'no-do-not-merge-label') if not pol else ('weak', 'no-do-not-merge-label')
    if 'DO_NOT_MERGE' in txt or S_STATUS in txt or 'self.labels' in txt:
        return 'unknown', None
    if isinstance(e, ast.Call) and (pf.dotted(e.func) or '').startswith('self.'):
        return 'unknown', None  # a helper that could not be read as an expression
    return 'unknown', None


def _classify_disjunction(facts: Facts, e: ast.BoolOp) -> List[Tuple[str, Optional[str]]]:
    """`a or b` being true establishes only what every disjunct establishes; what merely some disjunct requires is weaker than required."""
    per: List[Tuple[Set[str], Set[str], bool]] = []
    for d in e.values:
        match: Set[str] = set()
        rel: Set[str] = set()
        unknown = False
        fs = facts.true(d)
        inl = {id(x) for x, _ in fs if facts.inline(x, 1) is not None}
        for x, pl in fs:
            if id(x) in inl:
                continue
            if pl and isinstance(x, ast.BoolOp) and isinstance(x.op, ast.Or):
                sub = _classify_disjunction(facts, x)
            else:
                sub = [_classify(x, pl)]
            for c, k in sub:
                if c == 'match':
                    match.add(k)  # type: ignore[arg-type]
                elif c == 'weak':
                    rel.add(k)  # type: ignore[arg-type]
                elif c == 'unknown':
                    unknown = True
        per.append((match, rel, unknown))
    established = set.intersection(*[p[0] for p in per]) if per else set()
    mentioned = set().union(*[p[0] | p[1] for p in per]) - established
    out: List[Tuple[str, Optional[str]]] = [('match', k) for k in sorted(established)]
    for k in sorted(mentioned):
        escapes = [p for p in per if k not in p[0]]
        if any(not p[2] for p in escapes):
            out.append(('weak', k))   # a fully understood disjunct lets the PR through without k
        else:
            out.append(('unknown', None))
    if not out:
        out.append(('unknown', None) if any(p[2] for p in per) else ('harmless', None))
    return out


def _is_false_const(e: Optional[ast.expr]) -> bool:
    return isinstance(e, ast.Constant) and e.value is False


def _check_is_mergeable(ctx: Ctx, m: pf.Module, facts: Facts) -> None:
    fn = m.func('PR.is_mergeable')
    analysed = 0
    # the condition under which is_mergeable returns a truthy value, as one and/or/not expression: guard clauses, if/else, nested ifs,
    # single-definition locals and helper predicates are spellings of the same structure (engines/c30facts.to_bool)
    cond = cx.to_bool(fn, lenient=True)
    ctx.need(cond is not None, 'PR.is_mergeable: the body is not a side-effect-free decision list (if / return / locals) - unrecognised shape')
    if not (isinstance(cond, ast.Constant) and not cond.value):
        analysed += 1
        st = fn
        fs = facts.true(cond)  # type: ignore[arg-type]
        # drop the un-inlined helper call atoms whose inlining is present
        inlined_calls = {id(e) for e, _ in fs if facts.inline(e, 1) is not None}
        have: Dict[str, str] = {}
        weak: Dict[str, str] = {}
        unknown: List[str] = []
        classified: List[Tuple[ast.expr, bool, str, Optional[str]]] = []
        for e, pol in fs:
            if id(e) in inlined_calls:
                continue
            if pol and isinstance(e, ast.BoolOp) and isinstance(e.op, ast.Or):
                for c, kind in _classify_disjunction(facts, e):
                    classified.append((e, pol, c, kind))
                continue
            if not pol and isinstance(e, ast.BoolOp) and isinstance(e.op, ast.And):
                # not (a and b) == (not a) or (not b)
                neg = ast.BoolOp(op=ast.Or(), values=[ast.UnaryOp(op=ast.Not(), operand=v) for v in e.values])
                for c, kind in _classify_disjunction(facts, neg):
                    classified.append((e, pol, c, kind))
                continue
            c, kind = _classify(e, pol)
            classified.append((e, pol, c, kind))
        for e, pol, c, kind in classified:
            desc = ('' if pol else 'not ') + short(pf.nsrc(e), 90)
            if c == 'match':
                have[kind] = desc  # type: ignore[index]
            elif c == 'weak':
                weak.setdefault(kind, desc)  # type: ignore[arg-type]
            elif c == 'unknown':
                unknown.append(desc)
        for kind in KINDS:
            cons = f'{F}::PR.is_mergeable::{kind}'
            if kind in have:
                ctx.ok('R2', cons, have[kind])
            elif kind in weak:
                ctx.bad('R2', cons, f'a true result of is_mergeable does not require `{kind}`; the nearest conjunct is `{weak[kind]}`, which is weaker: {WHY[kind]}',
                        m.path, st.lineno)
            elif unknown:
                raise AnalysisError(f'PR.is_mergeable: no conjunct for `{kind}` and unrecognised conjunct(s) {unknown[:3]} - cannot decide')
            else:
                ctx.bad('R2', cons, f'a true result of is_mergeable needs no conjunct for `{kind}` (every condition on the way to it is understood): {WHY[kind]}', m.path, st.lineno)
    ctx.need(analysed >= 1, 'PR.is_mergeable: no result-bearing return found')
    # DO_NOT_MERGE
    v = m.global_assign('DO_NOT_MERGE')
    elts: Optional[List[ast.expr]] = None
    if isinstance(v, (ast.Set, ast.List, ast.Tuple)):
        elts = list(v.elts)
    elif isinstance(v, ast.Call) and pf.dotted(v.func) in ('set', 'frozenset'):
        if not v.args:
            elts = []
        elif isinstance(v.args[0], (ast.Set, ast.List, ast.Tuple)):
            elts = list(v.args[0].elts)
    ctx.need(elts is not None, f'DO_NOT_MERGE = {short(pf.nsrc(v), 60)} is not a recognised set of labels')
    labels = []
    for x in elts or []:
        if isinstance(x, ast.Name):
            x = m.global_assign(x.id)
        ctx.need(pf.const_str(x) is not None, 'DO_NOT_MERGE element is not a string constant')
        labels.append(pf.const_str(x))
    ctx.check(len(labels) > 0, 'R2', f'{F}::DO_NOT_MERGE', 'DO_NOT_MERGE is empty: no label blocks a merge, a PR labelled WIP / stacked PR is merged',
              m.path, getattr(v, 'lineno', 0), detail={'labels': labels})


# --------------------------------------------------------------------------------------
# R1 / R3: who may merge
# --------------------------------------------------------------------------------------

MERGE_URL = re.compile(r'/pulls/\x00/merge/?$')


GRAPHQL_MERGE = ('mergePullRequest', 'enablePullRequestAutoMerge', 'enqueuePullRequest')


def _is_merge_url(e: ast.AST) -> bool:
    tpl = pf.fstring_template(e, lambda x: '\x00')
    if tpl is None and isinstance(e, ast.BinOp) and isinstance(e.op, ast.Add):
        # 'a' + x + '/merge'
        parts = []
        stack = [e]
        while stack:
            x = stack.pop()
            if isinstance(x, ast.BinOp) and isinstance(x.op, ast.Add):
                stack.extend([x.right, x.left])
            else:
                t = pf.fstring_template(x, lambda y: '\x00')
                parts.append(t if t is not None else '\x00')
        tpl = ''.join(parts)
    if tpl is None and isinstance(e, ast.Call) and isinstance(e.func, ast.Attribute) and e.func.attr == 'format' and pf.const_str(e.func.value) is not None:
        tpl = re.sub(r'\{[^{}]*\}', '\x00', pf.const_str(e.func.value) or '')
    return tpl is not None and bool(MERGE_URL.search(re.sub('\x00+', '\x00', tpl)))


def _merge_request_sites(mods: List[pf.Module]) -> List[Tuple[pf.Module, str, ast.Call]]:
    """Calls that carry a `…/pulls/{n}/merge` URL (directly, or through a local / module constant holding it), and calls that send a
    GraphQL document naming a merge mutation.  A merge URL that reaches no call we can identify is an analysis error."""
    out = []
    mod_urls = {mod.rel: [st for st in mod.tree.body if isinstance(st, (ast.Assign, ast.AnnAssign)) and st.value is not None and _is_merge_url(st.value)] for mod in mods}
    for mod in mods:
        for qual, fn in mod.functions():
            linked: Set[int] = set()
            url_exprs = [n for n in pf.walk_shallow(fn) if isinstance(n, (ast.JoinedStr, ast.Constant, ast.BinOp, ast.Call)) and _is_merge_url(n)]
            # keep outermost expressions only
            inner = {id(x) for u in url_exprs for x in ast.walk(u) if x is not u}
            url_exprs = [u for u in url_exprs if id(u) not in inner]
            if not url_exprs and not mod_urls.get(mod.rel):
                continue
            for c in pf.calls_in(fn):
                for a in list(c.args) + [k.value for k in c.keywords]:
                    r = pf.resolve_expr(fn, a)
                    if isinstance(a, ast.Name) and not isinstance(r, ast.Name):
                        pass
                    elif isinstance(a, ast.Name):
                        try:
                            r = mod.global_assign(a.id)
                        except AnalysisError:
                            r = a
                    hit = [u for u in url_exprs if u is r or u is a]
                    if not hit and _is_merge_url(r):
                        hit = [r]
                    if hit:
                        out.append((mod, qual, c))
                        linked.update(id(u) for u in hit)
            for u in url_exprs:
                if id(u) not in linked and not any(u is x for _, _, c in out for x in ast.walk(c)):
                    raise AnalysisError(f'{mod.rel}::{qual}: merge URL `{short(pf.nsrc(u), 60)}` does not reach a call the analysis can identify')
        for st in mod.tree.body:
            if isinstance(st, (ast.Assign, ast.AnnAssign)) and st.value is not None and _is_merge_url(st.value):
                names = [t.id for t in (st.targets if isinstance(st, ast.Assign) else [st.target]) if isinstance(t, ast.Name)]
                used = any(isinstance(x, ast.Name) and x.id in names for _, _, c in out if _ is not None for x in ast.walk(c))
                if not used:
                    raise AnalysisError(f'{mod.rel}: module-level merge URL `{names}` does not reach a call the analysis can identify')
    # de-duplicate
    seen: Set[int] = set()
    uniq = []
    for mod, qual, c in out:
        if id(c) not in seen:
            seen.add(id(c))
            uniq.append((mod, qual, c))
    return uniq


def _graphql_merges(mods: List[pf.Module]) -> List[Tuple[pf.Module, str, ast.AST, str]]:
    """String constants (anywhere, nested helpers included) that name a GraphQL mutation which merges a pull request."""
    out = []
    for mod in mods:
        par = None
        for n in ast.walk(mod.tree):
            if isinstance(n, ast.Constant) and isinstance(n.value, str):
                for g in GRAPHQL_MERGE:
                    if re.search(r'\b' + g + r'\b', n.value):
                        fn = mod.enclosing_func(n)
                        out.append((mod, mod.qualname(fn) if fn is not None else '<module>', n, g))
    return out


_def_nodes = guards.def_nodes


def _check_callers(ctx: Ctx, mods: List[pf.Module], m: pf.Module, facts: Facts, sites) -> List[Tuple[pf.FuncDef, str, ast.Call]]:
    # the request itself
    ctx.need(sites, 'no `…/pulls/{n}/merge` request found in ci/ci (anchor vanished)')
    in_merge = [x for x in sites if x[0].rel == F and x[1] == 'PR.merge']
    for mod, qual, c in sites:
        if mod.rel == F and qual != 'PR.merge' and _only_reached_from(mods, 'PR', qual, 'PR.merge'):
            raise AnalysisError(f'{qual}: the merge request is issued by a private helper reached only from PR.merge (pin / single-request analysis not done through the helper)')
        ok = mod.rel == F and qual == 'PR.merge' and c is in_merge[0][2]
        why = ('the GitHub merge request is issued outside PR.merge, i.e. not behind the is_mergeable gate of try_to_merge' if not (mod.rel == F and qual == 'PR.merge')
               else 'PR.merge issues a second merge request: the pinned head / single-merge analysis covers one request per call')
        ctx.check(ok, 'R1', f'{mod.rel}::{qual}::merge request {short(pf.nsrc(c.func), 40)}' + ('' if ok or c is in_merge[0][2] or not in_merge else ' (second)'),
                  why, mod.path, c.lineno)
    # positive control for the zero-expected scan: the same function must see a merge mutation in a synthetic module
    ctl_src = "async def f(gh):\n    await gh.post('/graphql', data={'query': 'mutation { enablePullRequestAutoMerge(input: {}) { clientMutationId } }'})\n"
    ctl = pf.Module('<control>', '<control>', ctl_src, ast.parse(ctl_src))
    ctx.need(len(_graphql_merges([ctl])) == 1 and not _graphql_merges([pf.Module('<c2>', '<c2>', 'x = "query { pullRequest }"', ast.parse('x = "query { pullRequest }"'))]),
             'internal: GraphQL merge-mutation scan failed its positive control')
    ctx.ok('R1', 'control::graphql merge mutation scan', 'synthetic enablePullRequestAutoMerge document is recognised', nontrivial=False)
    for mod, qual, n, g in _graphql_merges(mods):
        ctx.bad('R1', f'{mod.rel}::{qual}::graphql {g}', f'a GraphQL `{g}` mutation is issued: a second way to merge that is neither behind the is_mergeable gate of '
                'try_to_merge nor pinned to the head commit the checks were read for (e.g. auto-merge merges once GitHub\'s own rules are met, whatever CI\'s '
                'review / batch / label state says)', mod.path, getattr(n, 'lineno', 0))
    # callers of PR.merge: try_to_merge is analysed with its private helpers inlined (a merge step extracted into a helper is still part of it)
    merge_calls: List[Tuple[pf.FuncDef, str, ast.Call]] = []
    m_ttm, il_ttm = inline.inline_methods(m, 'WatchedBranch', 'try_to_merge')
    ttm_fn = m_ttm.func('WatchedBranch.try_to_merge')
    ttm_inlined = {h for h, _ in il_ttm.inlined}

    def merge_calls_in(fn: pf.FuncDef) -> List[ast.Call]:
        return [c for c in pf.calls_in(fn) if isinstance(c.func, ast.Attribute) and c.func.attr == 'merge']

    def looks_pr(c: ast.Call) -> bool:
        recv = pf.nsrc(c.func.value)  # type: ignore[attr-defined]
        argt = ' '.join(pf.nsrc(a) for a in c.args)
        return 'pr' in recv.lower().replace('.', ' ').replace('_', ' ').split() or 'merge_candidate' in recv or recv.lower().endswith('pr') \
            or 'gh' in argt.replace('.', ' ').split() or 'deck' in recv.lower() or 'candidate' in recv.lower()
    for mod in mods:
        for qual, fn in mod.functions():
            for c in merge_calls_in(fn):
                ctx.need(looks_pr(c), f'{mod.rel}::{qual}: cannot tell whether `{short(pf.nsrc(c), 60)}` is PR.merge')
                if mod.rel == F and qual == 'WatchedBranch.try_to_merge':
                    continue  # judged below on the inlined function
                if mod.rel == F and qual.startswith('WatchedBranch.') and qual.split('.')[1] in ttm_inlined and _only_reached_from(mods, 'WatchedBranch', qual, 'WatchedBranch.try_to_merge'):
                    continue  # a private helper of try_to_merge: seen inlined
                ctx.bad('R1', f'{mod.rel}::{qual}::{short(pf.nsrc(c), 60)}', 'PR.merge is called outside WatchedBranch.try_to_merge: the merge is not gated by the branch being mergeable / '
                        'not frozen and is not limited to one per target update', mod.path, c.lineno)
    fn = ttm_fn
    cfg = pf.cfg(fn)
    locs = sorted({(c.lineno, c.col_offset) for c in merge_calls_in(fn)})
    for c in merge_calls_in(fn):
        recv_e = c.func.value  # type: ignore[attr-defined]
        recv = pf.nsrc(recv_e)
        nth = locs.index((c.lineno, c.col_offset)) + 1
        cons = f'{F}::WatchedBranch.try_to_merge::merge call' + (f' #{nth}' if nth > 1 else '')
        merge_calls.append((fn, recv, c))
        goal_nodes = cfg.node_of(c)
        ctx.need(goal_nodes, f'{cons}: not found in CFG')
        # the PR object merged and the PR object tested are compared as values: a local alias of the candidate is read through
        canon = pf.nsrc(pf.expand_locals(fn, recv_e))
        starts = _def_nodes(cfg, recv) if isinstance(recv_e, ast.Name) else []
        starts = starts or [cfg.entry]

        def gate(e: ast.expr, pol: bool) -> bool:
            if not (pol and isinstance(e, ast.Call) and isinstance(e.func, ast.Attribute) and e.func.attr == 'is_mergeable' and not e.args and not e.keywords):
                return False
            r2 = e.func.value
            return pf.nsrc(r2) == recv or pf.nsrc(pf.expand_locals(fn, r2)) == canon
        # the conjuncts to the left of the call in its own test (`x is not None and x.is_mergeable() and await x.merge(gh)`) hold when it is evaluated
        if all(g.kind == 'test' and isinstance(g.ast, ast.expr) and any(gate(e, pol) for e, pol in cx.evaluated_facts(facts, g.ast, c)) for g in goal_nodes):
            ctx.ok('R1', cons, {'gate': f'{recv}.is_mergeable()', 'where': 'same condition, evaluated before the merge call'})
            continue
        path = _unguarded_path(cfg, facts, starts, lambda n: any(n is g for g in goal_nodes), gate)
        if path is not None:
            # a verdict needs every test on the witness path to be understood as not being the gate
            opaque = [n for n in path if n.kind == 'test' and isinstance(n.ast, ast.expr) and any(
                isinstance(x, ast.Call) and isinstance(x.func, ast.Attribute) and x.func.attr == 'is_mergeable' for x in ast.walk(pf.expand_locals(fn, n.ast)))
                and not any(gate(e, pol) for lab in ('T', 'F') for e, pol in facts.edge(n, lab))
                and pf.nsrc(pf.expand_locals(fn, n.ast)).count(canon + '.is_mergeable()') + pf.nsrc(n.ast).count(recv + '.is_mergeable()') > 0]
            ctx.need(not opaque, f'{cons}: `{short(pf.nsrc(opaque[0].ast), 60) if opaque else ""}` tests is_mergeable of the merged PR in a shape that is not understood')
        ctx.check(path is None, 'R1', cons,
                  f'`{recv}.merge` is reachable without `{recv}.is_mergeable()` having been true ' + (f'[{_fmt_path(path)}]' if path else '')
                  + ': an unapproved / untested / out-of-date PR is merged', m.path, c.lineno, detail={'gate': f'{recv}.is_mergeable()'})
    ctx.need(merge_calls, 'no call of PR.merge found in WatchedBranch.try_to_merge (anchor vanished)')
    # callers of try_to_merge
    n_ttm = 0
    for mod in mods:
        for qual, fn in mod.functions():
            for c in pf.calls_in(fn):
                if isinstance(c.func, ast.Attribute) and c.func.attr == 'try_to_merge':
                    n_ttm += 1
                    cons = f'{mod.rel}::{qual}::{short(pf.nsrc(c), 60)}'
                    ok = mod.rel == F and pf.nsrc(c.func.value) == 'self' and _only_reached_from(mods, 'WatchedBranch', qual, 'WatchedBranch._update')
                    ctx.check(ok, 'R1', cons, 'try_to_merge is called outside WatchedBranch._update: merges are attempted without the preceding '
                              'GitHub / batch refresh and _heal of the same update iteration', mod.path, c.lineno)
    ctx.need(n_ttm >= 1, 'no caller of try_to_merge found (anchor vanished)')
    return merge_calls


_CALL_INDEX: Dict[int, Dict[str, Tuple[List[Tuple[str, str, str]], bool]]] = {}


def _call_index(mods: List[pf.Module]) -> Dict[str, Tuple[List[Tuple[str, str, str]], bool]]:
    """attribute name -> ([(module, calling function, receiver source)] for every `<recv>.name(...)` call, does the bound attribute escape uncalled?)"""
    key = id(mods)
    if key not in _CALL_INDEX:
        idx: Dict[str, Tuple[List[Tuple[str, str, str]], bool]] = {}
        for mod in mods:
            for q2, f2 in mod.functions():
                called = set()
                for c in pf.calls_in(f2):
                    if isinstance(c.func, ast.Attribute):
                        called.add(id(c.func))
                        ent = idx.setdefault(c.func.attr, ([], False))
                        ent[0].append((mod.rel, q2, pf.nsrc(c.func.value)))
                for n in pf.walk_shallow(f2):
                    if isinstance(n, ast.Attribute) and isinstance(n.ctx, ast.Load) and id(n) not in called and isinstance(n.value, ast.Name) and n.value.id == 'self':
                        ent = idx.setdefault(n.attr, ([], False))
                        idx[n.attr] = (ent[0], True)
        _CALL_INDEX[key] = idx
    return _CALL_INDEX[key]


def _only_reached_from(mods: List[pf.Module], cls: str, qual: str, root: str, depth: int = 3) -> bool:
    """`qual` is `root`, or a private helper method of the same class all of whose call sites (anywhere in ci/ci) lie in functions that
    satisfy the same condition (the helper is then analysed inlined into `root`)."""
    if qual == root:
        return True
    if depth <= 0 or not qual.startswith(cls + '.') or qual.count('.') != 1:
        return False
    name = qual.split('.')[1]
    calls, escapes = _call_index(mods).get(name, ([], False))
    methods = {f.name for f in pf.load(F).cls(cls).body if isinstance(f, (ast.FunctionDef, ast.AsyncFunctionDef))}
    if escapes and name in methods:
        return False  # the bound method escapes (callback, create_task, ...)
    if not calls or any(not (rel == F and recv == 'self') for rel, _q, recv in calls):
        return False
    return all(_only_reached_from(mods, cls, q2, root, depth - 1) for _rel, q2, _recv in calls)


def _check_one_merge(ctx: Ctx, m: pf.Module, facts: Facts, merge_calls: List[Tuple[pf.FuncDef, str, ast.Call]]) -> None:
    """After a merge call that returned a truthy value: no second merge in the same call, and `self.sha = None` before leaving.  The region
    "the merge succeeded" starts at the call and excludes every branch edge that its result (tested in place, inside a condition with other
    conjuncts, or through the local it was stored in) rules out."""
    locs = sorted({(c.lineno, c.col_offset) for _, _, c in merge_calls})
    for fn, recv, c in merge_calls:
        cfg = pf.cfg(fn)
        qual = 'WatchedBranch.try_to_merge'
        all_merge_nodes = {n.id for f2, _, c2 in merge_calls if f2 is fn for n in cfg.node_of(c2)}
        nth = locs.index((c.lineno, c.col_offset)) + 1
        cons = f'{F}::{qual}::after merge call' + (f' #{nth}' if nth > 1 else '')
        for n in cfg.node_of(c):
            # edges that a truthy result excludes
            dead: Set[Tuple[int, str]] = set()
            holder: Optional[str] = None
            if n.kind == 'test' and isinstance(n.ast, ast.expr):
                live = cx.labels_when_true(n.ast, c)
                dead |= {(n.id, lab) for lab in ('T', 'F') if lab not in live}
                starts = [(s, lab) for s, lab in n.succ if lab in live or lab not in ('T', 'F')]
            else:
                a = n.ast
                val = a.value if isinstance(a, (ast.Assign, ast.AnnAssign)) else None
                tgt = (a.targets[0] if isinstance(a, ast.Assign) and len(a.targets) == 1 else (a.target if isinstance(a, ast.AnnAssign) else None))
                ok_shape = n.kind == 'stmt' and isinstance(tgt, ast.Name) and val is not None and (val is c or (isinstance(val, ast.Await) and val.value is c)) \
                    and pf.single_def(fn, tgt.id) is not None
                ctx.need(ok_shape, f'{qual}: the result of `{pf.nsrc(c)}` is neither tested in a condition nor stored in a single-definition local (unrecognised shape)')
                holder = tgt.id  # type: ignore[union-attr]
                for t in cfg.nodes:
                    if t.kind == 'test' and isinstance(t.ast, ast.expr) and any(isinstance(x, ast.Name) and x.id == holder for x in ast.walk(t.ast)):
                        hn = [x for x in absdom.bool_atoms(t.ast) if isinstance(x, ast.Name) and x.id == holder]
                        ctx.need(len(hn) >= 1, f'{qual}: `{short(pf.nsrc(t.ast), 60)}` uses the merge result `{holder}` other than as a truth value (unrecognised shape)')
                        live = cx.labels_when_true(t.ast, hn[0])
                        dead |= {(t.id, lab) for lab in ('T', 'F') if lab not in live}
                starts = [(s, lab) for s, lab in n.succ if lab != 'exc']

            def edge_ok(x: pf.Node, y: pf.Node, lab: str) -> bool:
                return (x.id, lab) not in dead

            def is_reset(x: pf.Node) -> bool:
                a2 = x.ast
                return (x.kind == 'stmt' and isinstance(a2, ast.Assign) and any(pf.nsrc(t) == 'self.sha' for t in a2.targets)
                        and isinstance(a2.value, ast.Constant) and a2.value.value is None)

            # (i) no second merge
            again = None
            for s0, _lab in starts:
                if s0.id in all_merge_nodes:
                    again = [n, s0]
                    break
                again = cfg.path_avoiding(s0, lambda x: x.id in all_merge_nodes, lambda x: False, edge_ok=edge_ok)
                if again:
                    break
            ctx.check(again is None, 'R3', cons + '::single',
                      'after a successful merge another `merge` is reachable in the same try_to_merge call '
                      + (f'[{_fmt_path(again)}]' if again else '') + ': a second PR, tested against the pre-merge target commit, is merged on the same target update',
                      m.path, c.lineno)
            # (ii) sha reset before leaving
            leak = None
            for s0, _lab in starts:
                if is_reset(s0):
                    continue
                if s0 is cfg.exit:
                    leak = [n, s0]
                    break
                leak = cfg.path_avoiding(s0, lambda x: x is cfg.exit, is_reset, edge_ok=edge_ok)
                if leak:
                    break
            if leak is not None:
                # a verdict needs the path to be understood: no call on it that could invalidate the target sha by other means
                resetters = {f.name for f in m.cls('WatchedBranch').body if isinstance(f, (ast.FunctionDef, ast.AsyncFunctionDef))
                             and any(isinstance(t, ast.Attribute) and t.attr == 'sha' for st2, t, _v in _attr_assigns(f))}
                hidden = [x for x in leak if x.ast is not None and any((pf.dotted(cc.func) or '').startswith('self.') and (pf.dotted(cc.func) or '')[5:] in resetters
                                                                          for cc in pf.node_calls(x))]
                ctx.need(not hidden, f'{cons}: `{short(hidden[0].text(), 60) if hidden else ""}` on the way out calls a method that could not be inlined (not analysed)')
            ctx.check(leak is None, 'R3', cons + '::target-sha-reset',
                      'after a successful merge try_to_merge can return without `self.sha = None` '
                      + (f'[{_fmt_path(leak)}]' if leak else '') + ': if the following GitHub refresh fails, the next batch notification runs try_to_merge with the '
                      'stale target sha and merges a second PR that was tested against the pre-merge commit', m.path, c.lineno)


# --------------------------------------------------------------------------------------
# R4: sha pinning / reset on head change
# --------------------------------------------------------------------------------------


def _deep(fn: pf.FuncDef, e: ast.AST, depth: int = 4) -> str:
    """Source of e with single-assignment local names substituted (bounded)."""
    class Sub(ast.NodeTransformer):
        def __init__(self, d):
            self.d = d

        def visit_Name(self, node):
            if isinstance(node.ctx, ast.Load) and self.d > 0:
                d = pf.single_def(fn, node.id)
                if d is not None and isinstance(d, ast.expr):
                    import copy
                    return Sub(self.d - 1).visit(copy.deepcopy(d))
            return node
    import copy
    return pf.nsrc(Sub(depth).visit(copy.deepcopy(e)))


def _class_methods(m: pf.Module, name: str) -> Dict[str, pf.FuncDef]:
    return {f.name: f for f in m.cls(name).body if isinstance(f, (ast.FunctionDef, ast.AsyncFunctionDef))}


def _dict_at_call(ctx: Ctx, m: pf.Module, cls: str, fn: pf.FuncDef, call: ast.Call, expr: ast.expr, what: str) -> Tuple[List[guards.AbsDict], List[str]]:
    """The abstract dicts `expr` can denote when `call` is made (one per path), through helpers and incremental construction."""
    df = guards.DictFlow(m, fn, _class_methods(m, cls))
    try:
        return df.at_call(call, expr), df.helpers_followed
    except guards.Undecided as e:
        raise AnalysisError(f'{cls}.{fn.name}: {what} `{short(pf.nsrc(expr), 60)}` cannot be followed: {e}') from e


def _check_pin_and_reset(ctx: Ctx, m: pf.Module, sites) -> None:
    for mod, qual, c in sites:
        if not (mod.rel == F and qual == 'PR.merge'):
            continue
        fn = m.func('PR.merge')
        data = None
        for k in c.keywords:
            if k.arg in ('data', 'json'):
                data = k.value
        if data is None and len(c.args) >= 2:
            data = c.args[1]
        ctx.need(data is not None, f'PR.merge: `{short(pf.nsrc(c), 60)}` has no recognisable request body argument')
        alts, helpers = _dict_at_call(ctx, m, 'PR', fn, c, data, 'request body')
        cons = f'{F}::PR.merge::request body sha'
        problems: List[str] = []
        undecided: List[str] = []
        via = f' (built by {", ".join("PR." + h for h in helpers)})' if helpers else ''
        for d in alts:
            if 'sha' not in d.items:
                if d.open:
                    undecided.append(f'the body {d.show()} has unknown further keys')
                else:
                    problems.append(f"the merge request body {short(d.show(), 140)}{via} carries no 'sha': GitHub merges whatever the head is at that moment, e.g. a "
                                    'commit pushed after the review / statuses / test batch CI looked at (history: approved green PR, author pushes S2 while '
                                    'CI is between its refresh and the PUT -> the untested S2 is squashed into the target)')
                continue
            v = d.items['sha']
            if v is None:
                undecided.append(f"the value of 'sha' in {d.show()} is not resolved")
            elif pf.nsrc(v) != 'self.source_sha':
                problems.append(f"the merge request pins 'sha': {pf.nsrc(v)}{via} instead of self.source_sha (the head the statuses and test batch refer to): "
                                'self.sha is the local merge commit and never equals the PR head, other values let an untested head through')
        if problems:
            ctx.bad('R4', cons, problems[0], m.path, c.lineno, extra=[d.show() for d in alts])
        elif undecided:
            raise AnalysisError(f'PR.merge: {undecided[0]}')
        else:
            ctx.ok('R4', cons, {'bodies': [d.show() for d in alts], 'helpers': helpers})
    # reset on head change (update_from_gh_json read with its private helpers inlined)
    m_u, il_u = inline.inline_methods(m, 'PR', 'update_from_gh_json', exclude=('set_build_state',))
    fn = m_u.func('PR.update_from_gh_json')
    params = [a.arg for a in fn.args.args]
    ctx.need(len(params) == 2, f'PR.update_from_gh_json: parameters {params}')
    gh = params[1]
    head_sha = f"{gh}['head']['sha']"
    branch: Optional[List[ast.stmt]] = None
    the_if = None

    def head_test(t: ast.expr) -> Optional[bool]:
        """True: t says the head changed; False: t says it did not; None: another test"""
        neg = False
        while isinstance(t, ast.UnaryOp) and isinstance(t.op, ast.Not):
            t, neg = t.operand, not neg
        if isinstance(t, ast.Compare) and len(t.ops) == 1 and isinstance(t.ops[0], (ast.Eq, ast.NotEq)):
            if {_deep(fn, t.left), _deep(fn, t.comparators[0])} == {'self.source_sha', head_sha}:
                return isinstance(t.ops[0], ast.NotEq) != neg
        return None
    for idx, st in enumerate(fn.body):
        if isinstance(st, ast.If):
            ht = head_test(st.test)
            if ht is True:
                branch, the_if = list(st.body), st
            elif ht is False and st.orelse:
                branch, the_if = list(st.orelse), st
            elif ht is False and st.body and isinstance(st.body[-1], ast.Return):
                branch, the_if = list(fn.body[idx + 1:]), st  # guard clause: everything after it runs only when the head changed
    ctx.need(the_if is not None, f'PR.update_from_gh_json: no `if self.source_sha != {head_sha}` found')
    cons = f'{F}::PR.update_from_gh_json::head changed'
    pr_methods = {f.name for f in m.cls('PR').body if isinstance(f, (ast.FunctionDef, ast.AsyncFunctionDef))}
    found = {'records new head': False, 'clears batch': False, 'clears build state': False}
    nested = {k: False for k in found}
    opaque: List[str] = []
    for st in branch or []:
        direct = True
        for n in ([st] if not isinstance(st, (ast.If, ast.Try, ast.For, ast.While, ast.With)) else list(ast.walk(st))):
            if n is not st:
                direct = False
            hit = None
            if isinstance(n, (ast.Assign, ast.AnnAssign)) and (not isinstance(n, ast.Assign) or len(n.targets) == 1) and n.value is not None:
                t = pf.nsrc(n.targets[0] if isinstance(n, ast.Assign) else n.target)
                if t == 'self.source_sha' and _deep(fn, n.value) == head_sha:
                    hit = 'records new head'
                elif t == 'self.batch' and isinstance(n.value, ast.Constant) and n.value.value is None:
                    hit = 'clears batch'
                elif t == 'self.build_state' and isinstance(n.value, ast.Constant) and n.value.value is None:
                    hit = 'clears build state'
                elif t in ('self.source_sha', 'self.batch', 'self.build_state'):
                    opaque.append(pf.nsrc(n))  # written, but not with the recognised value
            elif isinstance(n, ast.Assign) and any(pf.nsrc(x) in ('self.source_sha', 'self.batch', 'self.build_state') for t2 in n.targets for x in ast.walk(t2)):
                opaque.append(pf.nsrc(n))  # chained / tuple assignment
            elif isinstance(n, ast.Expr) and isinstance(n.value, ast.Call) and pf.nsrc(n.value) in ('self.set_build_state(None)', 'self.set_build_state(build_state=None)'):
                hit = 'clears build state'
            if not hit and isinstance(n, ast.stmt) and not isinstance(n, (ast.If, ast.Try, ast.For, ast.While, ast.With)):
                for cc in pf.calls_in(n):
                    d = pf.dotted(cc.func) or ''
                    if d.startswith('self.') and d[5:] in pr_methods and d[5:] not in ('short_str', 'set_build_state'):
                        opaque.append(pf.nsrc(cc))  # a helper that could not be inlined may do the missing step
            if hit:
                if direct and n is st:
                    found[hit] = True
                else:
                    nested[hit] = True
    why = {
        'records new head': 'self.source_sha keeps the old head: the batch lookup, status post and merge pin refer to a commit that is no longer the head',
        'clears batch': 'self.batch still is the test batch of the previous head; is_up_to_date() stays true and the new, untested head is merged '
                        '(history: approved PR, green batch, push a new commit, next update)',
        'clears build state': "build_state stays 'success' from the previous head; when the PR returns to a head whose batch is still running, _update_batch "
                              'leaves it untouched, _heal posts SUCCESS for the untested head and is_mergeable accepts it',
    }
    for what, ok in found.items():
        if not ok and nested[what]:
            raise AnalysisError(f'PR.update_from_gh_json: `{what}` happens only under a nested condition - cannot decide')
        if not ok and opaque:
            raise AnalysisError(f'PR.update_from_gh_json: `{what}` not found on a head change, but `{short(opaque[0], 60)}` is not understood - cannot decide')
        ctx.check(ok, 'R4', f'{cons}::{what}', f'when the head commit changes the handler does not do `{what}` (every statement of that branch is understood): {why[what]}',
                  m.path, the_if.lineno)  # type: ignore[union-attr]


# --------------------------------------------------------------------------------------
# R5: tested chain
# --------------------------------------------------------------------------------------


def _check_tested_chain(ctx: Ctx, mods: List[pf.Module], m: pf.Module, facts: Facts) -> None:
    # (a) SUCCESS status only from build_state == 'success'
    fn = m.func('PR.github_status_from_build_state')
    cfg = pf.cfg(fn)
    rets = [n for n in cfg.nodes if n.kind == 'return' and isinstance(n.ast, ast.Return)]
    n_succ = 0
    for r in rets:
        v = r.ast.value  # type: ignore[union-attr]
        ctx.need(v is not None and (pf.dotted(v) or '').startswith('GithubStatus.'), f'github_status_from_build_state: return `{pf.nsrc(r.ast)}` is not a GithubStatus constant')
        if pf.dotted(v) != 'GithubStatus.SUCCESS':
            continue
        n_succ += 1
        path = _unguarded_path(cfg, facts, [cfg.entry], lambda n: n is r,
                               lambda e, pol: _const_eq_fact(e, pol, lambda x: pf.nsrc(x) == 'self.build_state', 'success'))
        ctx.check(path is None, 'R5', f'{F}::PR.github_status_from_build_state::return SUCCESS',
                  "GithubStatus.SUCCESS is returned without `self.build_state == 'success'` " + (f'[{_fmt_path(path)}]' if path else '')
                  + ': CI reports (and then itself counts) success for a PR whose test batch failed or is still running', m.path, r.lineno)
    ctx.need(n_succ >= 1, 'github_status_from_build_state never returns GithubStatus.SUCCESS (anchor changed)')

    # (b) who writes build_state 'success'
    writes = []
    for mod in mods:
        for qual, f2 in mod.functions():
            for n in pf.walk_shallow(f2):
                if isinstance(n, ast.Call) and isinstance(n.func, ast.Attribute) and n.func.attr == 'set_build_state' and n.args \
                        and pf.const_str(n.args[0]) == 'success':
                    writes.append((mod, qual, f2, n))
                elif isinstance(n, ast.Assign) and any(isinstance(t, ast.Attribute) and t.attr == 'build_state' for t in n.targets) \
                        and pf.const_str(n.value) == 'success':
                    writes.append((mod, qual, f2, n))
    ctx.need(writes, "no write of build_state 'success' found (anchor vanished)")
    for mod, qual, f2, n in writes:
        cons = f"{mod.rel}::{qual}::{short(pf.nsrc(n), 50)}"
        if not (mod.rel == F and qual == 'PR._update_batch'):
            ctx.bad('R5', cons, "build_state is set to 'success' outside PR._update_batch, i.e. not from the completed test batch's state", mod.path, n.lineno)
            continue
        cfg2 = pf.cfg(f2)
        goals = cfg2.node_of(n)
        ctx.need(goals, f'{cons}: not in CFG')

        def status_var(e: ast.expr, key: str) -> Optional[str]:
            if isinstance(e, ast.Subscript) and pf.const_str(e.slice) == key and isinstance(e.value, ast.Name):
                return e.value.id
            return None
        # which variable is `X['state'] == 'success'` about?
        xs: Set[str] = set()
        for nd in cfg2.nodes:
            if nd.kind == 'test' and isinstance(nd.ast, ast.expr):
                for e, pol in facts.true(nd.ast):
                    if isinstance(e, ast.Compare) and _const_eq_fact(e, pol, lambda x: status_var(x, 'state') is not None, 'success'):
                        for side in (e.left, e.comparators[0]):
                            v = status_var(side, 'state')
                            if v:
                                xs.add(v)
        ok_var = None
        p1 = p2 = None
        for x in sorted(xs) or ['?']:
            p1 = _unguarded_path(cfg2, facts, [cfg2.entry], lambda nd: any(nd is g for g in goals),
                                 lambda e, pol: _const_eq_fact(e, pol, lambda s: status_var(s, 'state') == x, 'success'))
            p2 = _unguarded_path(cfg2, facts, [cfg2.entry], lambda nd: any(nd is g for g in goals),
                                 lambda e, pol: pol and status_var(e, 'complete') == x)
            if p1 is None and p2 is None:
                ok_var = x
                break
        bad_path = p1 or p2
        ctx.check(ok_var is not None, 'R5', cons,
                  "build_state 'success' is reachable without both `status['complete']` and `status['state'] == 'success'` of the batch "
                  + (f'[{_fmt_path(bad_path)}]' if bad_path else '') + ': a running or failed test batch counts as a passed test', mod.path, n.lineno,
                  detail={'status_variable': ok_var})
        if ok_var is not None:
            # the status variable and self.batch must come from the same batch object
            sb = [nd for nd in cfg2.nodes if nd.kind == 'stmt' and isinstance(nd.ast, ast.Assign) and any(pf.nsrc(t) == 'self.batch' for t in nd.ast.targets)]
            ctx.need(len(sb) == 1 and isinstance(sb[0].ast.value, ast.Name), 'PR._update_batch: `self.batch = <name>` not found')  # type: ignore[union-attr]
            bname = sb[0].ast.value.id  # type: ignore[union-attr]
            # every assignment of ok_var to a non-None value is `await <b>.status()` of the batch assigned to bname in the same block
            pair_ok = True
            detail = []
            for blk in ast.walk(f2):
                body = getattr(blk, 'body', None)
                if not isinstance(body, list):
                    continue
                for fld in ('body', 'orelse'):
                    stmts = getattr(blk, fld, None)
                    if not isinstance(stmts, list):
                        continue
                    names_b = [s for s in stmts if isinstance(s, ast.Assign) and any(pf.nsrc(t) == bname for t in s.targets) and not (isinstance(s.value, ast.Constant))]
                    names_s = [s for s in stmts if isinstance(s, ast.Assign) and any(pf.nsrc(t) == ok_var for t in s.targets) and not (isinstance(s.value, ast.Constant))]
                    if names_b or names_s:
                        if len(names_b) != 1 or len(names_s) != 1:
                            pair_ok = False
                            continue
                        bsrc = names_b[0].value
                        ssrc = pf.resolve_expr(f2, names_s[0].value)
                        if isinstance(ssrc, ast.Await):
                            ssrc = ssrc.value
                        good = isinstance(bsrc, ast.Name) and isinstance(ssrc, ast.Call) and pf.nsrc(ssrc) == f'{bsrc.id}.status()'
                        detail.append(f'{pf.nsrc(names_b[0])} / {pf.nsrc(names_s[0])} ~ {pf.nsrc(ssrc)}')
                        pair_ok = pair_ok and good
            ctx.need(detail, f'PR._update_batch: assignments of {bname}/{ok_var} not recognised')
            ctx.check(pair_ok, 'R5', f'{F}::PR._update_batch::batch/status pairing',
                      f'`{ok_var}` is not the status of the batch stored in self.batch ({detail}): the build state of one batch is attributed to another',
                      m.path, sb[0].lineno, detail=detail)

    # (c) PR._heal forces the intended CI status into the map
    fn = m.func('PR._heal')
    hits = [n for n in pf.walk_shallow(fn) if isinstance(n, ast.Assign) and len(n.targets) == 1
            and pf.nsrc(n.targets[0]) == f'{S_STATUS}[GITHUB_STATUS_CONTEXT]']
    cons = f'{F}::PR._heal::{S_STATUS}[GITHUB_STATUS_CONTEXT] = …'
    if not hits:
        ctx.bad('R5', cons, "PR._heal no longer stores the intended CI status in the status map that is_mergeable reads: with CI's own status not a "
                '*required* GitHub check the map never contains it, and a PR whose test batch is running or failed is merged once the other checks pass',
                m.path, fn.lineno)
    for h in hits:
        ctx.check(pf.nsrc(h.value) == 'self.intended_github_status', 'R5', cons,
                  f'the status map entry for CI is set to `{pf.nsrc(h.value)}`, not to self.intended_github_status (derived from build_state)', m.path, h.lineno)
        # recognised guards only: `if self.source_sha` and `if self.intended_github_status != <map.get(CONTEXT)>`
        par = m.parents()
        cur = par.get(h)
        while cur is not None and cur is not fn:
            if isinstance(cur, ast.If):
                t = _deep(fn, cur.test)
                ok = t in ('self.source_sha', f'self.intended_github_status != {S_STATUS}.get(GITHUB_STATUS_CONTEXT)',
                           f'{S_STATUS}.get(GITHUB_STATUS_CONTEXT) != self.intended_github_status')
                ctx.need(ok, f'PR._heal: the CI status entry is stored under unrecognised condition `{short(t, 70)}`')
            else:
                ctx.need(not isinstance(cur, (ast.For, ast.While, ast.Try)), 'PR._heal: the CI status entry is stored inside a loop/try (unrecognised)')
            cur = par.get(cur)
    # it must precede every early return other than the unknown-target return
    cfg = pf.cfg(fn)
    hit_nodes = [n for h in hits for n in cfg.node_of(h)]
    if hit_nodes:
        def known(e: ast.expr, pol: bool) -> bool:
            t = _deep(fn, e)
            if pol and _eq_sides(e) is not None and {_eq_sides(e)[0], _eq_sides(e)[1]} == {'self.target_branch.sha', 'None'} and _eq_sides(e)[2] is ast.Is:  # type: ignore[index]
                return True  # target unknown: nothing is up to date
            if not pol and t == 'self.source_sha':
                return True
            if not pol and t in (f'self.intended_github_status != {S_STATUS}.get(GITHUB_STATUS_CONTEXT)', f'{S_STATUS}.get(GITHUB_STATUS_CONTEXT) != self.intended_github_status'):
                return True  # the entry already equals the intended status
            return False
        path = _unguarded_path(cfg, facts, [cfg.entry], lambda n: n is cfg.exit, known, avoid=lambda n: any(n is x for x in hit_nodes))
        ctx.check(path is None, 'R5', f'{F}::PR._heal::CI status entry on every path',
                  'PR._heal can return without the CI status entry being (already) equal to the intended status ' + (f'[{_fmt_path(path)}]' if path else '')
                  + ': is_mergeable then reads a stale SUCCESS', m.path, fn.lineno)

    # (d) _update: merge attempt only after _heal of the same iteration
    m_inl, _il = inline.inline_methods(m, 'WatchedBranch', '_update', exclude=('try_to_merge', '_heal', '_update_github', '_update_batch'))
    fn = m_inl.func('WatchedBranch._update')
    cfg = pf.cfg(fn)
    ttm = [n for n in cfg.nodes if any(isinstance(c.func, ast.Attribute) and c.func.attr == 'try_to_merge' for c in pf.node_calls(n))]
    ctx.need(ttm, 'WatchedBranch._update: try_to_merge call not found')

    def is_heal(n: pf.Node) -> bool:
        return any(pf.nsrc(c.func) == 'self._heal' for c in pf.node_calls(n))

    def is_refresh(n: pf.Node, which: str) -> bool:
        return any(pf.nsrc(c.func) == f'self.{which}' for c in pf.node_calls(n))
    for t in ttm:
        starts = [cfg.entry] + [n for n in cfg.nodes if n.kind == 'test' and any(isinstance(p.ast, ast.AST) and p.id > n.id for p, _ in n.pred)]
        path = None
        for s in starts:
            path = cfg.path_avoiding(s, lambda n: n is t, is_heal)
            if path:
                break
        ctx.check(path is None, 'R5', f'{F}::WatchedBranch._update::{short(t.text(), 50)}',
                  'try_to_merge is reachable in an update iteration without `await self._heal(...)` first ' + (f'[{_fmt_path(path)}]' if path else '')
                  + ': the status map was not reconciled with the current build state before is_mergeable reads it', m.path, t.lineno)

    # (e) batch provenance
    fn = m.func('PR._start_build')
    created = [c for c in pf.calls_in(fn) if isinstance(c.func, ast.Attribute) and c.func.attr == 'create_batch']
    ctx.need(len(created) == 1, f'PR._start_build: {len(created)} create_batch calls')
    attrs = None
    for k in created[0].keywords:
        if k.arg == 'attributes':
            attrs = k.value
    ctx.need(attrs is not None, 'PR._start_build: create_batch(…) without attributes=')
    alts, _helpers = _dict_at_call(ctx, m, 'PR', fn, created[0], attrs, 'create_batch attributes')
    for key, want, why in (('target_sha', 'self.target_branch.sha', 'is_up_to_date compares this attribute with the current target commit'),
                           ('source_sha', 'self.source_sha', 'the batch is looked up by this attribute for the current head')):
        got = []
        for d in alts:
            ctx.need(key in d.items or not d.open, f'PR._start_build: create_batch attributes {d.show()} have unknown further keys')
            ctx.need(key not in d.items or d.items[key] is not None, f"PR._start_build: attribute '{key}' in {d.show()} is not resolved")
            got.append(pf.nsrc(d.items[key]) if key in d.items else None)
        wrong = [g for g in got if g != want]
        ctx.check(not wrong, 'R5', f"{F}::PR._start_build::create_batch attributes['{key}']",
                  f"the test batch is labelled '{key}': {wrong[0] if wrong else None} instead of {want}; {why}, so a batch that tested something else counts",
                  m.path, created[0].lineno)
    # checkout script tests target_branch.sha + source_sha
    fn = m.func('PR.checkout_script')
    rets = [n for n in pf.walk_shallow(fn) if isinstance(n, ast.Return)]
    ctx.need(len(rets) == 1 and rets[0].value is not None, 'PR.checkout_script: expected one return')
    tpl = pf.fstring_template(rets[0].value, lambda e: '{' + pf.nsrc(e) + '}')
    ctx.need(tpl is not None, 'PR.checkout_script: not an f-string')
    lines = [ln.strip() for ln in tpl.splitlines()]  # type: ignore[union-attr]
    ctx.check('git checkout {shq(self.target_branch.sha)}' in lines, 'R5', f'{F}::PR.checkout_script::git checkout',
              'the test build does not check out self.target_branch.sha (the commit recorded as target_sha): the batch tests a different target commit than '
              'the one is_up_to_date compares', m.path, rets[0].lineno)
    ctx.check(any(ln.startswith('git merge {shq(self.source_sha)}') for ln in lines), 'R5', f'{F}::PR.checkout_script::git merge',
              'the test build does not merge self.source_sha (the head that is pinned in the merge request): the tested tree is not the merged tree', m.path, rets[0].lineno)
    # lookup by current source sha
    fn = m.func('PR._update_batch')
    lb = [c for c in pf.calls_in(fn) if isinstance(c.func, ast.Attribute) and c.func.attr == 'list_batches']
    ctx.need(len(lb) == 1 and lb[0].args, 'PR._update_batch: list_batches call not recognised')
    q = pf.fstring_template(pf.resolve_expr(fn, lb[0].args[0]), lambda e: '{' + pf.nsrc(e) + '}')
    ctx.need(q is not None, 'PR._update_batch: list_batches query is not an f-string')
    terms = q.split()  # type: ignore[union-attr]
    ctx.check('source_sha={self.source_sha}' in terms, 'R5', f'{F}::PR._update_batch::list_batches query',
              f'the current build batch is not looked up by `source_sha={{self.source_sha}}` (query: {q!r}): the batch of a previous head is taken as '
              'the test of the current head', m.path, lb[0].lineno)
    ctx.check('test=1' in terms, 'R5', f'{F}::PR._update_batch::list_batches query test=1',
              f'the build batch query {q!r} does not select test batches', m.path, lb[0].lineno)


# --------------------------------------------------------------------------------------
# R11: the merge decision is about the batch whose currency it checks
# --------------------------------------------------------------------------------------
# is_up_to_date() looks at self.batch (whatever batch the PR currently holds, finished or not).  The only datum that describes the RESULT of that very
# batch is self.build_state (R5: written from the status of the batch stored in self.batch, reset when the batch is replaced).  The posted status map
# entry for CI describes the batch that was current when PR._heal last posted - _heal posts BEFORE it may start a new build.  So "tested against the
# current target" needs build_state == 'success' at the decision, not only a SUCCESS entry in the map.

BS_RELATED = ('build_state', 'intended_github_status', 'github_status_from_build_state')
CI_ENTRY = (f'{S_STATUS}.get(GITHUB_STATUS_CONTEXT)', f'{S_STATUS}[GITHUB_STATUS_CONTEXT]', f'{S_STATUS}.get(GITHUB_STATUS_CONTEXT, None)')


def _build_state_domain(ctx: Ctx, mods: List[pf.Module]) -> List[object]:
    """The finite set of values build_state takes: the constants passed to set_build_state / assigned to .build_state anywhere in ci/ci."""
    dom: List[object] = [None]
    for mod in mods:
        for n in ast.walk(mod.tree):
            v = None
            if isinstance(n, ast.Call) and isinstance(n.func, ast.Attribute) and n.func.attr == 'set_build_state' and len(n.args) == 1:
                v = n.args[0]
            elif isinstance(n, ast.Assign) and any(isinstance(t, ast.Attribute) and t.attr == 'build_state' for t in n.targets):
                v = n.value
            elif isinstance(n, ast.AnnAssign) and isinstance(n.target, ast.Attribute) and n.target.attr == 'build_state' and n.value is not None:
                v = n.value
            if v is None:
                continue
            if isinstance(v, ast.Constant):
                if v.value not in dom:
                    dom.append(v.value)
            elif isinstance(v, ast.Name) and isinstance(n, (ast.Assign, ast.AnnAssign)):
                continue  # `self.build_state = build_state` inside set_build_state: the parameter, covered by the call sites
            else:
                raise AnalysisError(f'{mod.rel}: build_state is given the computed value `{short(pf.nsrc(v), 50)}` - its domain is not a finite set of constants')
    ctx.need('success' in dom, "no write of build_state 'success' found (anchor vanished)")
    return dom


def _bs_sat(e: ast.expr, dom: List[object]) -> Optional[Set[object]]:
    """Members of the build_state domain for which the atomic test e (about self.build_state and constants only) is true; None if e is not such a test."""
    if pf.nsrc(e) == 'self.build_state':
        return {v for v in dom if v}
    if not (isinstance(e, ast.Compare) and len(e.ops) == 1):
        return None
    l, r, op = e.left, e.comparators[0], e.ops[0]

    def consts(x: ast.expr) -> Optional[List[object]]:
        if isinstance(x, (ast.Tuple, ast.List, ast.Set)) and all(isinstance(z, ast.Constant) for z in x.elts):
            return [z.value for z in x.elts]  # type: ignore[attr-defined]
        return None
    if isinstance(op, (ast.Eq, ast.NotEq, ast.Is, ast.IsNot)):
        for x, c in ((l, r), (r, l)):
            if pf.nsrc(x) == 'self.build_state' and isinstance(c, ast.Constant):
                eq = {v for v in dom if v == c.value and type(v) is type(c.value)}
                return eq if isinstance(op, (ast.Eq, ast.Is)) else set(dom) - eq
        return None
    if isinstance(op, (ast.In, ast.NotIn)) and pf.nsrc(l) == 'self.build_state' and consts(r) is not None:
        cs = consts(r)
        inn = {v for v in dom if any(v == c and type(v) is type(c) for c in cs)}  # type: ignore[union-attr]
        return inn if isinstance(op, ast.In) else set(dom) - inn
    return None


class _BS:
    """Abstract state on a path through is_mergeable: the build states still possible, whether CI's own entry of the status map is known NOT to be SUCCESS
    (then the all-SUCCESS conjunct fails, given that _heal forces the entry - R5), and any related test that was not understood."""
    __slots__ = ('allowed', 'ci_not_success', 'unknown')

    def __init__(self, allowed: frozenset, ci_not_success: bool = False, unknown: Optional[str] = None):
        self.allowed, self.ci_not_success, self.unknown = allowed, ci_not_success, unknown

    def key(self):
        return (self.allowed, self.ci_not_success, self.unknown)


def _bs_narrow(fn: pf.FuncDef, facts: Facts, st: _BS, fs: List[Fact], dom: List[object]) -> List[_BS]:
    """States after learning the facts fs (a disjunctive fact splits the state)."""
    states = [st]
    inlined = {id(e) for e, _ in fs if facts.inline(e, 1) is not None}
    for e, pol in fs:
        if id(e) in inlined:
            continue
        x = pf.expand_locals(fn, e, 4)
        nxt: List[_BS] = []
        for s0 in states:
            # a disjunction: not (a and b)  /  (a or b)
            if isinstance(x, ast.BoolOp) and ((isinstance(x.op, ast.And) and not pol) or (isinstance(x.op, ast.Or) and pol)):
                for d in x.values:
                    nxt += _bs_narrow(fn, facts, s0, facts.true(d) if pol else facts.false(d), dom)
                continue
            if isinstance(x, ast.UnaryOp) and isinstance(x.op, ast.Not):
                nxt += _bs_narrow(fn, facts, s0, [(x.operand, not pol)], dom)
                continue
            if isinstance(x, ast.BoolOp):
                nxt += _bs_narrow(fn, facts, s0, facts.true(x) if pol else facts.false(x), dom)
                continue
            sat = _bs_sat(x, dom)
            if sat is not None:
                keep = sat if pol else set(dom) - sat
                nxt.append(_BS(s0.allowed & frozenset(keep), s0.ci_not_success, s0.unknown))
                continue
            # the intended status is recomputed from build_state at every set_build_state; SUCCESS only for 'success' (R5)
            hit = False
            for lhs in ('self.intended_github_status', 'self.github_status_from_build_state()'):
                if lhs == 'self.intended_github_status' and lhs in pf.nsrc(x):
                    _intended_tracks_build_state(fn)
                if guards.is_eq_fact(x, pol, lhs, 'GithubStatus.SUCCESS'):
                    nxt.append(_BS(s0.allowed & frozenset(['success']), s0.ci_not_success, s0.unknown))
                    hit = True
                elif guards.is_neq_fact(x, pol, lhs, 'GithubStatus.SUCCESS'):
                    nxt.append(s0)
                    hit = True
            if hit:
                continue
            # CI's own entry of the map compared with the intended status: equal -> the entry is SUCCESS exactly when build_state is 'success'
            for lhs in CI_ENTRY:
                for rhs in ('self.intended_github_status', 'self.github_status_from_build_state()'):
                    if hit:
                        break
                    if guards.is_eq_fact(x, pol, lhs, rhs):
                        if rhs == 'self.intended_github_status':
                            _intended_tracks_build_state(fn)
                        nxt.append(_BS(s0.allowed & frozenset(['success']), s0.ci_not_success, s0.unknown))
                        nxt.append(_BS(s0.allowed - frozenset(['success']), True, s0.unknown))
                        hit = True
                    elif guards.is_neq_fact(x, pol, lhs, rhs):
                        nxt.append(s0)
                        hit = True
            if hit:
                continue
            # CI's own entry of the map
            for lhs in CI_ENTRY:
                if guards.is_neq_fact(x, pol, lhs, 'GithubStatus.SUCCESS'):
                    nxt.append(_BS(s0.allowed, True, s0.unknown))
                    hit = True
                elif guards.is_eq_fact(x, pol, lhs, 'GithubStatus.SUCCESS'):
                    nxt.append(s0)
                    hit = True
            if hit:
                continue
            if isinstance(x, ast.Compare) and len(x.ops) == 1 and pf.nsrc(x.left) == 'GITHUB_STATUS_CONTEXT' and pf.nsrc(x.comparators[0]) == S_STATUS \
                    and isinstance(x.ops[0], (ast.In, ast.NotIn)):
                absent = isinstance(x.ops[0], ast.NotIn) == pol
                nxt.append(_BS(s0.allowed, s0.ci_not_success or absent, s0.unknown))
                continue
            txt = pf.nsrc(x)
            if any(w in txt for w in BS_RELATED):
                nxt.append(_BS(s0.allowed, s0.ci_not_success, s0.unknown or (('' if pol else 'not ') + short(txt, 70))))
            else:
                nxt.append(s0)
        states = nxt
    return states


_INTENDED_PREMISE: Dict[str, Optional[str]] = {}


def _intended_tracks_build_state(fn: pf.FuncDef) -> None:
    """Premise for reading `intended_github_status == SUCCESS` as `build_state == 'success'`: build_state is written only by set_build_state (and the
    constructor), and set_build_state recomputes the intended status from the new build state.  Declines when that shape is not found."""
    if 'why' not in _INTENDED_PREMISE:
        why = None
        m = pf.load(F)
        for qual, f2 in m.functions():
            for n in pf.walk_shallow(f2):
                tg = n.targets if isinstance(n, ast.Assign) else ([n.target] if isinstance(n, (ast.AnnAssign, ast.AugAssign)) else [])
                for t in tg:
                    if isinstance(t, ast.Attribute) and t.attr == 'build_state' and qual not in ('PR.set_build_state', 'PR.__init__'):
                        why = why or f'{qual} writes build_state directly'
                    if isinstance(t, ast.Attribute) and t.attr == 'intended_github_status' and qual not in ('PR.set_build_state', 'PR.__init__'):
                        why = why or f'{qual} writes intended_github_status'
        sb = m.func('PR.set_build_state')
        cfg = pf.cfg(sb)
        w = [n for n in cfg.nodes if isinstance(n.ast, ast.Assign) and any(pf.nsrc(t) == 'self.build_state' for t in n.ast.targets)]
        r = [n for n in cfg.nodes if isinstance(n.ast, ast.Assign) and any(pf.nsrc(t) == 'self.intended_github_status' for t in n.ast.targets)
             and _deep(sb, n.ast.value) == 'self.github_status_from_build_state()']
        if len(w) != 1 or len(r) != 1:
            why = why or 'set_build_state: write of build_state / recomputation of intended_github_status not recognised'
        else:
            # from the write, the exit is reached only through the recomputation or through the edge `intended == current intended`
            def same(e: ast.expr, pol: bool) -> bool:
                return _deep(sb, e) in ('self.github_status_from_build_state() != self.intended_github_status',
                                        'self.intended_github_status != self.github_status_from_build_state()') and not pol
            path = guards.unguarded_path(cfg, Facts(None), [w[0]], lambda n: n is cfg.exit, same, avoid=lambda n: n is r[0])
            if path is not None:
                why = why or 'set_build_state can change build_state without recomputing intended_github_status'
        _INTENDED_PREMISE['why'] = why
    if _INTENDED_PREMISE['why'] is not None:
        raise AnalysisError(f"PR.is_mergeable tests intended_github_status, but it cannot be read as a statement about build_state: {_INTENDED_PREMISE['why']}")


def _stale_ci_entry(ctx: Ctx, m: pf.Module) -> Optional[str]:
    """Can PR._heal return with the CI entry of the status map older than build_state?  Returns a description of the path (the entry is stored, then
    _start_build - which resets build_state - runs, and nothing stores the entry again), None if every such reset is followed by a new store."""
    sb = m.func('PR._start_build')
    resets = [n for n in pf.walk_shallow(sb) if (isinstance(n, ast.Call) and pf.nsrc(n.func) == 'self.set_build_state' and n.args and _is_none(n.args[0]))
              or (isinstance(n, ast.Assign) and any(pf.nsrc(t) == 'self.build_state' for t in n.targets) and _is_none(n.value))]
    if not resets:
        return None
    fn = m.func('PR._heal')
    cfg = pf.cfg(fn)
    starts = [n for n in cfg.nodes if any(pf.nsrc(c.func) == 'self._start_build' for c in pf.node_calls(n))]
    if not starts:
        return None

    def is_store(n: pf.Node) -> bool:
        return isinstance(n.ast, ast.Assign) and any(pf.nsrc(t) == f'{S_STATUS}[GITHUB_STATUS_CONTEXT]' for t in n.ast.targets)
    for s0 in starts:
        path = cfg.path_avoiding(s0, lambda n: n is cfg.exit, is_store)
        if path is not None:
            return f'PR._heal: `{short(s0.text(), 50)}`@{s0.lineno} (build_state := None, self.batch := the new batch) -> return, no store of {S_STATUS}[GITHUB_STATUS_CONTEXT] after it'
    return None


def _check_decision_about_current_batch(ctx: Ctx, mods: List[pf.Module], m: pf.Module, facts: Facts) -> None:
    dom = _build_state_domain(ctx, mods)
    ctx.extra_cov['build_state_domain'] = [repr(v) for v in dom]
    # (a) is_mergeable: abstract execution over (possible build states, CI entry known not SUCCESS), split at disjunctive facts
    m_inl, _il = inline.inline_methods(m, 'PR', 'is_mergeable')
    fn = m_inl.func('PR.is_mergeable')
    cfg = pf.cfg(fn)
    for n in cfg.nodes:
        if n.ast is not None and n.kind in ('stmt',):
            for c in pf.node_calls(n):
                ctx.need(pf.nsrc(c.func) != 'self.set_build_state', 'PR.is_mergeable writes build_state (unrecognised shape)')
            if isinstance(n.ast, ast.Assign):
                ctx.need(not any(pf.nsrc(t) in ('self.build_state', 'self.intended_github_status') for t in n.ast.targets),
                         'PR.is_mergeable writes build_state / intended_github_status (unrecognised shape)')
    start = _BS(frozenset(dom))
    seen: Dict[Tuple[int, tuple], Optional[Tuple[int, tuple]]] = {(cfg.entry.id, start.key()): None}
    by_id = {n.id: n for n in cfg.nodes}
    queue: List[Tuple[pf.Node, _BS]] = [(cfg.entry, start)]
    bad: Optional[Tuple[Tuple[int, tuple], _BS]] = None
    undecided: Optional[Tuple[Tuple[int, tuple], _BS]] = None
    n_true_returns = 0
    counted: Set[int] = set()
    while queue:
        n, st = queue.pop(0)
        if n.kind == 'return' and isinstance(n.ast, ast.Return):
            v = n.ast.value
            if v is None or (isinstance(v, ast.Constant) and not v.value):
                continue
            if n.id not in counted:
                counted.add(n.id)
                n_true_returns += 1
            finals = [st] if isinstance(v, ast.Constant) else _bs_narrow(fn, facts, st, facts.true(v), dom)
            for f in finals:
                if not f.allowed or f.allowed <= frozenset(['success']) or f.ci_not_success:
                    continue
                if f.unknown is not None:
                    undecided = undecided or ((n.id, st.key()), f)
                else:
                    bad = bad or ((n.id, st.key()), f)
            continue
        for mm, lab in n.succ:
            if n.kind == 'test' and isinstance(n.ast, ast.expr) and lab in ('T', 'F'):
                outs = _bs_narrow(fn, facts, st, facts.edge(n, lab), dom)
            elif isinstance(n.ast, ast.Assert) and lab != 'exc':
                outs = _bs_narrow(fn, facts, st, facts.true(n.ast.test), dom)
            elif isinstance(n.ast, (ast.Assign, ast.AugAssign, ast.AnnAssign, ast.Delete)) and lab != 'exc' and S_STATUS in pf.nsrc(n.ast).split('=')[0]:
                # the decision procedure itself rewrites the status map
                val = _deep(fn, n.ast.value) if isinstance(n.ast, ast.Assign) and len(n.ast.targets) == 1 \
                    and pf.nsrc(n.ast.targets[0]) == f'{S_STATUS}[GITHUB_STATUS_CONTEXT]' else None
                if val in ('self.intended_github_status', 'self.github_status_from_build_state()'):
                    if val == 'self.intended_github_status':
                        _intended_tracks_build_state(fn)
                    # the entry is SUCCESS exactly when build_state is 'success' from here on
                    outs = [_BS(st.allowed & frozenset(['success']), st.ci_not_success, st.unknown), _BS(st.allowed - frozenset(['success']), True, st.unknown)]
                elif val in ('GithubStatus.PENDING', 'GithubStatus.FAILURE'):
                    outs = [_BS(st.allowed, True, st.unknown)]
                else:
                    outs = [_BS(st.allowed, False, st.unknown or f'write `{short(pf.nsrc(n.ast), 60)}`')]
            else:
                outs = [st]
            for o in outs:
                if not o.allowed:
                    continue  # infeasible
                k = (mm.id, o.key())
                if k in seen:
                    continue
                seen[k] = (n.id, st.key())
                queue.append((mm, o))
    ctx.need(n_true_returns >= 1, 'PR.is_mergeable: no result-bearing return found')
    ctx.unit('is_mergeable_abstract_states', len(seen))
    cons = f'{F}::PR.is_mergeable::build state of the batch checked by is_up_to_date'
    if bad is None and undecided is not None:
        raise AnalysisError(f'PR.is_mergeable: a true result is reachable without `build_state == \'success\'`, past the unrecognised related test `{undecided[1].unknown}` - cannot decide')
    if bad is None:
        ctx.ok('R11', cons, {'states': len(seen), 'true_returns': n_true_returns})
    else:
        k: Optional[Tuple[int, tuple]] = bad[0]
        nodes: List[pf.Node] = []
        while k is not None:
            nodes.append(by_id[k[0]])
            k = seen[k]
        nodes.reverse()
        left = sorted(repr(v) for v in bad[1].allowed if v != 'success')
        stale = _stale_ci_entry(ctx, m)
        if stale is None:
            raise AnalysisError('PR.is_mergeable no longer establishes build_state == \'success\' and whether the CI entry of the status map can be older than '
                                'build_state (PR._heal / PR._start_build shape changed) cannot be decided')
        ctx.bad('R11', cons,
                f'is_mergeable can return a true value with build_state in {{{", ".join(left)}}} while CI\'s own status entry is SUCCESS [{_fmt_path(nodes)}]: the SUCCESS '
                f'entry describes the batch that was current when _heal last posted, is_up_to_date() looks at the batch the PR holds now. {stale}. History: PR approved and '
                'green against target commit T1; the target moves to T2 (CI merges another PR); in one _update pass _heal records SUCCESS, then re-tests the PR '
                '(_start_build: build_state None, new batch with target_sha=T2, still running); try_to_merge follows in the same pass: every status SUCCESS, '
                'is_up_to_date() true -> merged onto T2 without a finished test against T2', m.path, nodes[-1].lineno,
                extra={'possible_build_states': left, 'path': [x.text() for x in nodes]})
    # (b) build_state describes self.batch: whoever installs another batch object resets build_state first
    n_inst = 0
    for qual, f2 in m.functions():
        if not qual.startswith('PR.') or qual in ('PR._update_batch', 'PR.__init__'):
            continue
        cfg2 = None
        for n in pf.walk_shallow(f2):
            if not (isinstance(n, ast.Assign) and any(pf.nsrc(t) == 'self.batch' for t in n.targets)) or _is_none(n.value):
                continue
            cfg2 = cfg2 or pf.cfg(f2)
            goals = cfg2.node_of(n)
            ctx.need(goals, f'{qual}: `{short(pf.nsrc(n), 40)}` not in CFG')

            def is_reset(x: pf.Node) -> bool:
                for c in pf.node_calls(x):
                    if pf.nsrc(c.func) == 'self.set_build_state' and len(c.args) == 1 and isinstance(c.args[0], ast.Constant) and c.args[0].value != 'success':
                        return True
                return isinstance(x.ast, ast.Assign) and any(pf.nsrc(t) == 'self.build_state' for t in x.ast.targets) and isinstance(x.ast.value, ast.Constant) \
                    and x.ast.value.value != 'success'
            path = cfg2.path_avoiding(cfg2.entry, lambda x: any(x is g for g in goals), is_reset)
            n_inst += 1
            ctx.check(path is None, 'R11', f'{F}::{qual}::{short(pf.nsrc(n), 50)}',
                      'self.batch is replaced by another batch without build_state being reset first ' + (f'[{_fmt_path(path)}]' if path else '')
                      + ": build_state keeps the result of the previous batch, so an already green PR that is re-tested against a moved target has build_state "
                      "'success', a SUCCESS status entry and an up-to-date (still running) batch at once and is merged untested", m.path, n.lineno)
    ctx.need(n_inst >= 1, 'no `self.batch = <new batch>` outside PR._update_batch found (anchor vanished)')


# --------------------------------------------------------------------------------------
# R6 / R7: dirty flags (test-and-clear) and the single-flight guard of the update coroutine
# --------------------------------------------------------------------------------------


def _attr_assigns(fn: ast.AST) -> List[Tuple[ast.AST, ast.Attribute, ast.expr]]:
    """(statement, attribute target, value) for every attribute written by a plain assignment in fn (nested defs excluded)."""
    out = []
    for n in pf.walk_shallow(fn):
        if isinstance(n, ast.Assign):
            for t in n.targets:
                if isinstance(t, ast.Attribute):
                    out.append((n, t, n.value))
        elif isinstance(n, ast.AnnAssign) and isinstance(n.target, ast.Attribute) and n.value is not None:
            out.append((n, n.target, n.value))
    return out


def _is_const(e: ast.AST, v: bool) -> bool:
    return isinstance(e, ast.Constant) and e.value is v


def _value_edges(cfg: pf.CFG, attr_src: str, value: bool) -> List[Tuple[pf.Node, str]]:
    """Branch edges whose traversal implies `attr_src` is `value`."""
    out = []
    for t in cfg.nodes:
        if t.kind != 'test' or not isinstance(t.ast, ast.expr) or not af.mentions(t.ast, attr_src):
            continue
        for label in ('T', 'F'):
            if any(lab == label for _, lab in t.succ) and af.implied_on_edge(t.ast, label, attr_src, value):
                out.append((t, label))
    return out


def _atomic_guard(cfg: pf.CFG, node: pf.Node, edges: List[Tuple[pf.Node, str]]) -> Tuple[Optional[Tuple[pf.Node, str]], Optional[pf.Node]]:
    """-> (guard edge reaching `node` on every path with no suspension in between | None, a suspension between a dominating guard and node | None)."""
    susp = None
    for t, label in edges:
        if not af.every_path_uses_edge(cfg, node, t, label) or not af.direct(cfg, t, node, label):
            continue
        if pf.node_has_await(t):
            susp = susp or t
            continue
        mid = [x for x in af.between(cfg, t, node, label) if pf.node_has_await(x)]
        if mid:
            susp = susp or mid[0]
            continue
        return (t, label), None
    return None, susp


def _check_flags(ctx: Ctx, mods: List[pf.Module]) -> None:
    # who raises which attribute (X.attr = True), anywhere in ci/ci
    raised: Dict[str, List[Tuple[str, str, ast.AST]]] = {}
    lowered: Dict[str, List[Tuple[pf.Module, str, pf.FuncDef, ast.AST]]] = {}
    for mod in mods:
        for qual, fn in mod.functions():
            for st, t, v in _attr_assigns(fn):
                if _is_const(v, True):
                    raised.setdefault(t.attr, []).append((mod.rel, qual, st))
                elif _is_const(v, False):
                    lowered.setdefault(t.attr, []).append((mod, qual, fn, st))
    n_cls = 0
    for mod in mods:
        for cls in mod.classes():
            for f0 in cls.body:
                if not isinstance(f0, ast.AsyncFunctionDef) or not f0.args.args:
                    continue
                recv = f0.args.args[0].arg
                qual = f'{cls.name}.{f0.name}'
                # cheap pre-filter on the un-inlined consumer: it tests and lowers some attribute that others raise
                own_low = {t.attr for _, t, v in _attr_assigns(f0) if _is_const(v, False) and pf.nsrc(t.value) == recv}
                cand = {a for a in own_low if any((r, q) != (mod.rel, qual) for r, q, _ in raised.get(a, []))}
                helper_low = {t.attr for f1 in cls.body if isinstance(f1, (ast.FunctionDef, ast.AsyncFunctionDef)) and f1 is not f0
                              for _, t, v in _attr_assigns(f1) if _is_const(v, False) and pf.nsrc(t.value) == (f1.args.args[0].arg if f1.args.args else '')}
                tested = {n.attr for n in pf.walk_shallow(f0) if isinstance(n, ast.Attribute) and pf.nsrc(n.value) == recv and isinstance(n.ctx, ast.Load)}
                if not ((cand | (helper_low & tested)) & tested):
                    continue
                # a private helper reached only from another coroutine of the class is analysed inlined into that one
                roots = [g.name for g in cls.body if isinstance(g, ast.AsyncFunctionDef) and g is not f0
                         and _only_reached_from(mods, cls.name, qual, f'{cls.name}.{g.name}')]
                if roots and f0.name in {h for h, _ in inline.inline_methods(mod, cls.name, roots[0])[1].inlined}:
                    continue
                m2, il = inline.inline_methods(mod, cls.name, f0.name)
                fn = [f for f in m2.cls(cls.name).body if isinstance(f, ast.AsyncFunctionDef) and f.name == f0.name][0]
                cfg = pf.cfg(fn)
                reach = cfg.reachable_from(cfg.entry)
                inlined = {h for h, _ in il.inlined}
                tests = [n for n in cfg.nodes if n.kind == 'test' and isinstance(n.ast, ast.expr) and n.id in reach]
                flags = []
                for a in sorted(tested | helper_low):
                    src = f'{recv}.{a}'
                    if not any(af.mentions(t.ast, src) and src in [absdom.atom_key(x) for x in absdom.bool_atoms(t.ast)] for t in tests):
                        continue
                    clears = [n for n in cfg.nodes if n.id in reach and n.kind == 'stmt' and any(pf.nsrc(t) == src and _is_const(v, False) for _, t, v in _attr_assigns(n.ast))]
                    outside = [(r, q) for r, q, _ in raised.get(a, []) if (r, q) != (mod.rel, qual)]
                    if clears and outside:
                        flags.append((a, src, clears, outside))
                if not flags:
                    continue
                n_cls += 1
                ctx.unit('flag_consumers')
                awaits = [n for n in cfg.nodes if n.id in reach and pf.node_has_await(n)]
                ctx.need(awaits, f'{mod.rel}::{qual}: dirty flags {[f[0] for f in flags]} but no suspension point (unrecognised consumer)')
                where = f'{mod.rel}::{qual}'
                for a, src, clears, outside in flags:
                    setters = sorted({q for _, q in outside if not q.endswith('.__init__')}) or sorted({q for _, q in outside})
                    # unrecognised reads / writes of the flag inside the consumer: decline
                    for n in cfg.nodes:
                        if n.id not in reach or n.ast is None:
                            continue
                        for x in pf.node_exprs(n):
                            for y in pf.walk_shallow(x):
                                if isinstance(y, ast.Attribute) and pf.nsrc(y) == src:
                                    if isinstance(y.ctx, ast.Load):
                                        ctx.need(n.kind == 'test', f'{where}: `{short(n.text(), 60)}` reads {src} outside a branch test (unrecognised test-and-clear idiom)')
                                    else:
                                        ok_w = n.kind == 'stmt' and isinstance(n.ast, (ast.Assign, ast.AnnAssign)) and isinstance(n.ast.value, ast.Constant) \
                                            and isinstance(n.ast.value.value, bool) and (not isinstance(n.ast, ast.Assign) or len(n.ast.targets) == 1)
                                        ctx.need(ok_w, f'{where}: `{short(n.text(), 60)}` writes {src} by an unrecognised idiom')
                    t_edges = _value_edges(cfg, src, True)
                    f_edges = {(t.id, lab) for t, lab in _value_edges(cfg, src, False)}
                    # (a) test-and-clear is atomic, (b) the consuming work follows the clear
                    for k in clears:
                        cons = f'{where}::flag {a}::clear'
                        guard, susp = _atomic_guard(cfg, k, t_edges)
                        if guard is None and susp is not None:
                            ctx.bad('R6', cons, f'`{src} = False` (line {k.lineno}) comes after the suspension point `{short(susp.text(), 60)}` that follows the test of {src}: '
                                    f'{"/".join(setters[:3])} only raise the flag and return while this coroutine is running, so a notification that arrives during that await is '
                                    'overwritten when the await finishes and is never processed (lost update). History: refresh in flight, the target branch is pushed and the '
                                    'webhook is delivered, the refresh finishes and clears the flag -> the branch sha stays stale; the next batch callback finds the PR '
                                    '"up to date" against the old target commit and merges it', mod.path, k.lineno)
                            continue
                        if guard is None:
                            ctx.bad('R6', cons, f'`{src} = False` (line {k.lineno}) is not reached through a test that found {src} set: the flag is cleared without its work being '
                                    f'done, so a notification raised by {"/".join(setters[:3])} since the last test is dropped (lost update: stale target sha / review / label / '
                                    'batch state is then used to merge)', mod.path, k.lineno)
                            continue
                        t = guard[0]
                        # (b) is decided on the consumer as written (helpers not inlined: whether a refresh helper awaits on every one of its own
                        # paths - e.g. with no open PR - is data, not structure)
                        idle = None
                        cfg0 = pf.cfg(f0)
                        for k0 in [n for n in cfg0.nodes if n.kind == 'stmt' and n.ast is not None
                                   and any(pf.nsrc(t0) == src and _is_const(v0, False) for _, t0, v0 in _attr_assigns(n.ast))]:
                            g0, _s0 = _atomic_guard(cfg0, k0, _value_edges(cfg0, src, True))
                            if g0 is not None:
                                idle = idle or cfg0.path_avoiding(k0, lambda n, t0=g0[0]: n is t0 or n is cfg0.exit, pf.node_has_await)
                        ctx.check(idle is None, 'R6', cons,
                                  f'after `{src} = False` the next test of the flag / the return is reachable without any awaited work '
                                  f'[{_fmt_path(idle) if idle else ""}]: the notification is consumed but the refresh it asks for is not performed', mod.path, k.lineno,
                                  detail={'guard': pf.nsrc(t.ast), 'edge': guard[1], 'raised_by': setters})
                    # (c) no normal exit after a suspension without re-testing the flag
                    leak = None
                    for w in awaits:
                        leak = cfg.path_avoiding(w, lambda n: n is cfg.exit, pf.node_has_await, edge_ok=lambda x, y, lab: (x.id, lab) not in f_edges)
                        if leak:
                            break
                    ctx.check(leak is None, 'R6', f'{where}::flag {a}::re-tested before release',
                              f'after the suspension point `{short(leak[0].text(), 50) if leak else ""}` the coroutine can return without testing {src} again '
                              f'[{_fmt_path(leak) if leak else ""}]: {"/".join(setters[:3])} arriving during that await only raise the flag (the consumer is busy), and nothing '
                              'processes it until some unrelated later event', mod.path, fn.lineno, detail={'exit_edges': len(f_edges)})
                # clears of these flags outside the consumer
                for a, src, clears, outside in flags:
                    for mod3, q3, f3, st in lowered.get(a, []):
                        if (mod3.rel, q3) == (mod.rel, qual) or q3.endswith('.__init__'):
                            continue
                        if mod3.rel == mod.rel and q3.split('.')[0] == cls.name and q3.split('.')[-1] in inlined:
                            continue  # seen inside the consumer
                        cfg3 = pf.cfg(f3)
                        tgt = [t for _, t, v in _attr_assigns(st) if t.attr == a][0]
                        src3 = pf.nsrc(tgt)
                        ks = cfg3.node_of(st)
                        ctx.need(ks, f'{mod3.rel}::{q3}: `{pf.nsrc(st)}` not found in the CFG')
                        guard, susp = _atomic_guard(cfg3, ks[0], _value_edges(cfg3, src3, True))
                        ctx.check(guard is not None, 'R6', f'{mod3.rel}::{q3}::flag {a}::clear',
                                  f'`{pf.nsrc(st)}` clears the dirty flag outside {qual} ' + ('after a suspension point ' if susp is not None else 'without having tested it ')
                                  + 'and without doing the refresh it stands for: a notification raised since the last refresh is dropped (lost update)', mod3.path, st.lineno)
                busy = _check_single_flight(ctx, mod, cls, qual, fn, cfg, reach, awaits, {f[0] for f in flags})
                # notifiers: a method that raises a flag and then runs the consumer must raise it on every path (in particular while the consumer is busy)
                flag_names = {f[0] for f in flags}
                for g in cls.body:
                    if not isinstance(g, (ast.FunctionDef, ast.AsyncFunctionDef)) or g is f0 or not g.args.args:
                        continue
                    r2 = g.args.args[0].arg
                    if not any(isinstance(c.func, ast.Attribute) and c.func.attr == f0.name and pf.nsrc(c.func.value) == r2 for c in pf.calls_in(g)):
                        continue
                    cfg_g = pf.cfg(g)
                    for a in sorted(flag_names):
                        raises = [n for n in cfg_g.nodes if n.kind == 'stmt' and n.ast is not None
                                  and any(t.attr == a and pf.nsrc(t.value) == r2 and _is_const(v, True) for _, t, v in _attr_assigns(n.ast))]
                        if not raises:
                            continue
                        skip = cfg_g.path_avoiding(cfg_g.entry, lambda n: n is cfg_g.exit, lambda n: any(n is x for x in raises))
                        ctx.check(skip is None, 'R6', f'{mod.rel}::{cls.name}.{g.name}::flag {a}::raised on every path',
                                  f'{cls.name}.{g.name} can return without `{r2}.{a} = True` [{_fmt_path(skip) if skip else ""}]: a notification that arrives while {qual} is '
                                  'busy (the only time the flag matters) is dropped, and the state CI merges on (target sha, review, labels, batch) stays stale',
                                  mod.path, g.lineno)
                if busy is not None:
                    # nobody but the consumer itself may make a notification depend on the busy guard
                    for mod3 in mods:
                        for q3, f3 in mod3.functions():
                            if (mod3.rel, q3) == (mod.rel, qual):
                                continue
                            tests = [n.test for n in pf.walk_shallow(f3) if isinstance(n, (ast.If, ast.While, ast.IfExp))]
                            tests = [t for t in tests if any(isinstance(x, ast.Attribute) and x.attr == busy and isinstance(x.ctx, ast.Load) for x in ast.walk(t))]
                            if not tests:
                                continue
                            raises_flag = any(isinstance(x, ast.Attribute) and x.attr in flag_names and isinstance(x.ctx, ast.Store) for x in pf.walk_shallow(f3))
                            calls_notifier = any(isinstance(c.func, ast.Attribute) and (c.func.attr.startswith('notify_') or c.func.attr in (f0.name, 'update'))
                                                 for c in pf.calls_in(f3))
                            if raises_flag or calls_notifier:
                                ctx.bad('R6', f'{mod3.rel}::{q3}::busy {busy} consulted by a notifier',
                                        f'`{short(pf.nsrc(tests[0]), 60)}` makes the notification depend on whether {qual} is running: an event delivered during an '
                                        'update is dropped instead of being recorded in its dirty flag (lost update: the target sha / review / label state CI merges '
                                        'on stays stale)', mod3.path, getattr(tests[0], 'lineno', 0))
    ctx.need(n_cls >= 1, 'no coroutine with the dirty-flag idiom (test / clear / awaited refresh) found in ci/ci (anchor vanished)')


def _check_single_flight(ctx: Ctx, mod: pf.Module, cls: ast.ClassDef, qual: str, fn: pf.FuncDef, cfg: pf.CFG, reach: Set[int], awaits: List[pf.Node],
                         flags: Set[str]) -> Optional[str]:
    recv = fn.args.args[0].arg
    where = f'{mod.rel}::{qual}'
    writes: Dict[str, Dict[bool, List[pf.Node]]] = {}
    for n in cfg.nodes:
        if n.id in reach and n.kind == 'stmt' and n.ast is not None:
            for _, t, v in _attr_assigns(n.ast):
                if pf.nsrc(t.value) == recv and isinstance(v, ast.Constant) and isinstance(v.value, bool):
                    writes.setdefault(t.attr, {True: [], False: []})[v.value].append(n)
    mutexes = [a for a, w in writes.items() if a not in flags and w[True] and af.mentions(fn, f'{recv}.{a}')
               and any(n.kind == 'test' and af.mentions(n.ast, f'{recv}.{a}') for n in cfg.nodes if n.id in reach and n.ast is not None)]
    if not mutexes:
        ctx.bad('R7', f'{where}::single flight', f'{qual} consumes the dirty flags {sorted(flags)} but no `self.<busy> = True` guard is taken before its suspension points: two '
                'notifications run the refresh / heal / merge sequence concurrently and each can merge a PR against the same target commit', mod.path, fn.lineno)
        return None
    ctx.need(len(mutexes) == 1, f'{where}: several candidate busy flags {mutexes}')
    u = mutexes[0]
    src = f'{recv}.{u}'
    acquires, releases = writes[u][True], writes[u][False]
    free_edges = _value_edges(cfg, src, False)
    for s in acquires:
        guard, susp = _atomic_guard(cfg, s, free_edges)
        ctx.check(guard is not None, 'R7', f'{where}::busy {u}::acquire',
                  f'`{src} = True` is not reached atomically from a test that found {src} false'
                  + (f' (suspension point `{short(susp.text(), 50)}` in between)' if susp is not None else '')
                  + ': two notifications both pass the test and run refresh / heal / try_to_merge concurrently, each merging a PR against the same target commit',
                  mod.path, s.lineno, detail={'guard': pf.nsrc(guard[0].ast) if guard else None})
    unlocked = None
    for w in awaits:
        if not cfg.dominated_by(w, lambda n: any(n is s for s in acquires)):
            unlocked = w
            break
    ctx.check(unlocked is None, 'R7', f'{where}::busy {u}::held across every suspension',
              f'the suspension point `{short(unlocked.text(), 60) if unlocked else ""}` (line {unlocked.lineno if unlocked else 0}) is reachable without `{src} = True`: while it is '
              'suspended a second notification enters the same coroutine, and both run try_to_merge on the same target commit (two merges per target update)',
              mod.path, unlocked.lineno if unlocked else fn.lineno)
    early = None
    for r in releases:
        early = cfg.path_avoiding(r, pf.node_has_await, lambda n: False)
        if early:
            break
    ctx.check(early is None and bool(releases), 'R7', f'{where}::busy {u}::released last',
              (f'`{src} = False` is followed by the suspension point `{short(early[-1].text(), 50)}` [{_fmt_path(early)}]: the guard is dropped while the coroutine still works, a '
               'concurrent notification starts a second refresh / merge pass' if early else f'`{src}` is never released'), mod.path, (releases[0].lineno if releases else fn.lineno))
    stuck = None
    for s in acquires:
        stuck = cfg.path_avoiding(s, lambda n: n is cfg.exit or n is cfg.raise_exit, lambda n: any(n is r for r in releases))
        if stuck:
            break
    ctx.check(stuck is None, 'R7', f'{where}::busy {u}::released on every exit',
              f'{qual} can leave with `{src}` still set [{_fmt_path(stuck) if stuck else ""}] (e.g. when a GitHub request raises): every later notification returns at the '
              '`already updating` test with its flag raised and never processed - the state CI acts on (target sha, reviews, labels) is frozen', mod.path, fn.lineno)
    return u


# --------------------------------------------------------------------------------------
# R8: where the review state comes from
# --------------------------------------------------------------------------------------


def _check_review_provenance(ctx: Ctx, mods: List[pf.Module], m: pf.Module, facts: Facts) -> None:
    # (a) writers of .review_state
    n_w = 0
    for mod in mods:
        for qual, fn in mod.functions():
            for st, t, v in _attr_assigns(fn):
                if t.attr != 'review_state':
                    continue
                n_w += 1
                cons = f'{mod.rel}::{qual}::{short(pf.nsrc(st), 50)}'
                if mod.rel == F and qual == 'PR.set_review_state':
                    params = [a.arg for a in fn.args.args]
                    ctx.check(isinstance(v, ast.Name) and v.id in params[1:] and pf.nsrc(t.value) == params[0], 'R8', cons,
                              f'set_review_state stores `{pf.nsrc(v)}`, not the state it is given', mod.path, st.lineno)
                elif mod.rel == F and qual == 'PR.__init__':
                    ctx.check(isinstance(v, ast.Constant) and v.value != 'approved', 'R8', cons,
                              f'a new PR object starts with review_state `{pf.nsrc(v)}`: it counts as approved before GitHub has been asked', mod.path, st.lineno)
                else:
                    ctx.bad('R8', cons, 'review_state is written outside PR.set_review_state / PR.__init__: the approval is_mergeable reads no longer is the '
                            'reviewDecision GitHub reported at the last refresh', mod.path, st.lineno)
    ctx.need(n_w >= 2, 'writers of review_state not found (anchor vanished)')
    # (b) callers of set_review_state
    calls = []
    for mod in mods:
        for qual, fn in mod.functions():
            for c in pf.calls_in(fn):
                if isinstance(c.func, ast.Attribute) and c.func.attr == 'set_review_state':
                    calls.append((mod, qual, fn, c))
    ctx.need(calls, 'no caller of set_review_state found (anchor vanished)')
    for mod, qual, fn, c in calls:
        cons = f'{mod.rel}::{qual}::{short(pf.nsrc(c), 50)}'
        if not (mod.rel == F and qual == 'PR._update_github' and pf.nsrc(c.func.value) == 'self'):
            arg = c.args[0] if c.args else None
            ctx.check(arg is not None and isinstance(arg, ast.Constant) and arg.value != 'approved', 'R8', cons,
                      'the review state is set outside PR._update_github (the refresh that reads GitHub\'s reviewDecision): an approval that GitHub does not report '
                      '(dismissed / changes requested) can make the PR mergeable', mod.path, c.lineno)
            continue
        ctx.need(len(c.args) == 1 and isinstance(c.args[0], ast.Name), f'{cons}: argument is not a local variable')
        var = c.args[0].id
        cfg = pf.cfg(fn)
        defs = guards.def_nodes(cfg, var)
        ctx.need(defs, f'{cons}: no definition of `{var}`')
        dec_vars: Set[str] = set()
        n_app = 0
        for d in defs:
            val = d.ast.value if isinstance(d.ast, (ast.Assign, ast.AnnAssign)) else None
            ctx.need(val is not None and pf.const_str(val) is not None, f'PR._update_github: `{short(d.text(), 50)}` is not a constant review state')
            if pf.const_str(val) != 'approved':
                continue
            n_app += 1

            def approved_edge(e: ast.expr, pol: bool) -> bool:
                if _const_eq_fact(e, pol, lambda x: isinstance(x, ast.Name), 'APPROVED'):
                    for side in (e.left, e.comparators[0]):  # type: ignore[attr-defined]
                        if isinstance(side, ast.Name):
                            dec_vars.add(side.id)
                    return True
                return False
            path = _unguarded_path(cfg, facts, [cfg.entry], lambda n, d=d: n is d, approved_edge)
            ctx.check(path is None, 'R8', f"{F}::PR._update_github::{var} = 'approved'",
                      f"`{var} = 'approved'` is reachable without `<reviewDecision> == 'APPROVED'` " + (f'[{_fmt_path(path)}]' if path else '')
                      + ': a PR whose review is pending / dismissed / changes-requested is recorded as approved and merged once its checks pass', m.path, d.lineno)
        ctx.need(n_app >= 1, "PR._update_github never derives 'approved' (anchor changed)")
        # the decision variable is read from this refresh's response
        for dv in sorted(dec_vars):
            srcs = []
            for n in ast.walk(fn):
                tg = []
                if isinstance(n, ast.Assign):
                    tg = [(t, n.value) for t in n.targets]
                elif isinstance(n, ast.NamedExpr):
                    tg = [(n.target, n.value)]
                for t, v in tg:
                    if isinstance(t, ast.Name) and t.id == dv:
                        srcs.append(v)
            ctx.need(srcs, f'PR._update_github: no assignment of `{dv}`')
            def leaves(v: ast.AST) -> List[ast.AST]:
                if isinstance(v, ast.IfExp):
                    return leaves(v.body) + leaves(v.orelse)
                if isinstance(v, ast.BoolOp) and isinstance(v.op, ast.Or):
                    return [x for y in v.values for x in leaves(y)]
                return [v]

            def leaf_ok(v: ast.AST) -> bool:
                return (isinstance(v, ast.Constant) and v.value != 'APPROVED') or (isinstance(v, ast.Subscript) and pf.const_str(v.slice) == 'reviewDecision')
            fresh = all(leaf_ok(x) for v in srcs for x in leaves(v))
            stale = [x for v in srcs for x in leaves(v) if not leaf_ok(x) and any(isinstance(y, ast.Attribute) and isinstance(y.value, ast.Name) and y.value.id == 'self'
                                                                                 for y in ast.walk(x))]
            cons2 = f'{F}::PR._update_github::{dv} source'
            if stale:
                ctx.bad('R8', cons2, f"`{dv}` is read from `{short(pf.nsrc(stale[0]), 60)}`, a field of the PR object, not from the `reviewDecision` of this refresh's "
                        'response: an approval that has been dismissed since stays in force', m.path, getattr(stale[0], 'lineno', fn.lineno))
            else:
                ctx.need(fresh, f'PR._update_github: `{dv}` is assigned from an unrecognised source')
                ctx.ok('R8', cons2, {'sources': [short(pf.nsrc(v), 60) for v in srcs]})
        # (c) a changed state is always stored
        set_nodes = cfg.node_of(c)
        path = _unguarded_path(cfg, facts, [n for d in defs for n, _ in d.succ] or [cfg.entry], lambda n: n is cfg.exit,
                               lambda e, pol: guards.is_eq_fact(e, pol, var, 'self.review_state'), avoid=lambda n: any(n is x for x in set_nodes))
        ctx.check(path is None, 'R8', f'{F}::PR._update_github::changed review state is stored',
                  f'PR._update_github can finish with `{var} != self.review_state` without calling set_review_state ' + (f'[{_fmt_path(path)}]' if path else '')
                  + ": e.g. an approval that was dismissed / turned into 'changes requested' is not recorded and the PR is still merged as approved", m.path, c.lineno)


# --------------------------------------------------------------------------------------
# R9: what the gate reads is refreshed from GitHub, and GitHub / batch events reach the refresh
# --------------------------------------------------------------------------------------


def _stored_when_changed(ctx: Ctx, m: pf.Module, qual: str, attr_src: str, source_ok: Callable[[pf.FuncDef, str, ast.AST], Optional[str]], why: str) -> None:
    """In `qual`, `attr_src` is assigned from a local that holds this refresh's answer, on every path on which the two differ."""
    fn = m.func(qual)
    cfg = pf.cfg(fn)
    stores = [n for n in cfg.nodes if n.kind == 'stmt' and isinstance(n.ast, (ast.Assign, ast.AnnAssign))
              and any(pf.nsrc(t) == attr_src for _, t, _v in _attr_assigns(n.ast))]
    cons = f'{F}::{qual}::{attr_src} refreshed'
    if not stores:
        ctx.bad('R9', cons, f'{qual} no longer stores {attr_src}: {why}', m.path, fn.lineno)
        return
    for st in stores:
        v = st.ast.value  # type: ignore[union-attr]
        if isinstance(v, ast.Constant) and v.value is None:
            continue  # forgetting the value is always safe (nothing is up to date / mergeable)
        ctx.need(isinstance(v, ast.Name), f'{qual}: `{short(st.text(), 60)}` does not store a local variable')
        var = v.id  # type: ignore[union-attr]
        defs = guards.def_nodes(cfg, var)
        ctx.need(len(defs) == 1 and isinstance(defs[0].ast, (ast.Assign, ast.AnnAssign)), f'{qual}: `{var}` does not have exactly one definition')
        bad_src = source_ok(fn, var, defs[0].ast.value)  # type: ignore[union-attr]
        if bad_src is not None:
            ctx.bad('R9', cons, f'`{st.text()}`: {bad_src}: {why}', m.path, st.lineno)
            continue
        path = _unguarded_path(cfg, Facts(), [x for x, _ in defs[0].succ], lambda n: n is cfg.exit,
                               lambda e, pol: guards.is_eq_fact(e, pol, var, attr_src), avoid=lambda n: any(n is x for x in stores))
        ctx.check(path is None, 'R9', cons, f'{qual} can finish with `{var} != {attr_src}` without storing the new value ' + (f'[{_fmt_path(path)}]' if path else '')
                  + f': {why}', m.path, st.lineno, detail={'local': var})


def _check_freshness(ctx: Ctx, mods: List[pf.Module], m: pf.Module) -> None:
    def from_ref_request(fn: pf.FuncDef, var: str, value: ast.AST) -> Optional[str]:
        e = pf.expand_locals(fn, value)
        base = e
        while isinstance(base, ast.Subscript):
            base = base.value
        if any(isinstance(x, ast.Attribute) and isinstance(x.value, ast.Name) and x.value.id == 'self' for x in ast.walk(e)):
            return f'`{var}` is computed from a field of the object (`{short(pf.nsrc(e), 50)}`), not from the branch ref GitHub returns in this refresh'
        ctx.need(isinstance(base, ast.Name), f'WatchedBranch._update_github: `{var} = {short(pf.nsrc(value), 50)}` is not a field of a response')
        d = pf.single_def(fn, base.id)  # type: ignore[union-attr]
        ctx.need(isinstance(d, ast.Await) and isinstance(d.value, ast.Call), f'WatchedBranch._update_github: `{base.id}` is not an awaited request')  # type: ignore[union-attr]
        tpl = ' '.join(pf.fstring_template(a, lambda x: '\x00') or '' for a in d.value.args)  # type: ignore[union-attr]
        ctx.need('/git/refs/heads/' in tpl or '/git/ref/heads/' in tpl or '/branches/' in tpl, f'WatchedBranch._update_github: `{short(pf.nsrc(d), 60)}` is not a branch ref request')
        return None

    def from_param(key: str) -> Callable[[pf.FuncDef, str, ast.AST], Optional[str]]:
        def chk(fn: pf.FuncDef, var: str, value: ast.AST) -> Optional[str]:
            params = {a.arg for a in fn.args.args[1:]}
            ok = any(isinstance(x, ast.Subscript) and pf.const_str(x.slice) == key and isinstance(x.value, ast.Name) and x.value.id in params for x in ast.walk(value))
            if ok:
                return None
            if any(isinstance(x, ast.Attribute) and isinstance(x.value, ast.Name) and x.value.id == 'self' for x in ast.walk(value)):
                return f"`{var}` is computed from the object's own fields, not from `{key}` of the GitHub payload"
            raise AnalysisError(f'{fn.name}: `{var} = {short(pf.nsrc(value), 50)}` is not derived from the payload field {key!r}')
        return chk

    def fresh_map(fn: pf.FuncDef, var: str, value: ast.AST) -> Optional[str]:
        if (isinstance(value, ast.Dict) and not value.keys) or (isinstance(value, ast.Call) and pf.dotted(value.func) == 'dict' and not value.args and not value.keywords):
            return None
        if any(isinstance(x, ast.Attribute) and pf.nsrc(x) == S_STATUS for x in ast.walk(value)):
            return f'the new status map `{var}` starts from the previous one (`{short(pf.nsrc(value), 50)}`): statuses GitHub reported for an earlier head stay in it'
        raise AnalysisError(f'PR._update_github: `{var} = {short(pf.nsrc(value), 50)}` is not a fresh map')

    _stored_when_changed(ctx, m, 'WatchedBranch._update_github', 'self.sha', from_ref_request,
                         'the target commit CI believes in stays stale and a PR tested against the old target commit is "up to date" and merged')
    _stored_when_changed(ctx, m, 'PR.update_from_gh_json', 'self.labels', from_param('labels'),
                         'a WIP / do-not-merge label added on GitHub is not seen and the PR is merged')
    _stored_when_changed(ctx, m, 'PR._update_github', S_STATUS, fresh_map,
                         'a check that turned to failure / pending on the head (or statuses of a previous head) is not seen and the PR is merged')
    # other writers of the whole status map / the labels
    for mod in mods:
        for qual, fn in mod.functions():
            for st, t, v in _attr_assigns(fn):
                if t.attr in ('last_known_github_status', 'labels') and not (mod.rel == F and qual in ('PR.__init__', 'PR._update_github', 'PR.update_from_gh_json')):
                    if mod.rel == F and qual.startswith('PR.') or pf.nsrc(t.value) != 'self':
                        ctx.bad('R9', f'{mod.rel}::{qual}::{short(pf.nsrc(st), 50)}', f'`{t.attr}` of a PR is written outside the GitHub refresh: is_mergeable no longer reads '
                                'what GitHub reported', mod.path, st.lineno)
    # wiring of the events
    mci = None
    for mod in mods:
        if mod.rel.endswith('ci/ci/ci.py'):
            mci = mod
    ctx.need(mci is not None, 'ci/ci/ci.py not found')
    handlers: Dict[str, List[pf.FuncDef]] = {}
    for qual, fn in mci.functions():  # type: ignore[union-attr]
        for d in fn.decorator_list:
            if isinstance(d, ast.Call) and isinstance(d.func, ast.Attribute) and d.func.attr == 'register' and d.args and pf.const_str(d.args[0]) is not None:
                handlers.setdefault(pf.const_str(d.args[0]), []).append(fn)  # type: ignore[arg-type]

    def notifies(fn: pf.FuncDef, what: str) -> bool:
        return any(isinstance(c.func, ast.Attribute) and c.func.attr in (what, 'update') for c in pf.calls_in(fn))
    for ev, why in (('push', 'a push to the target branch is not noticed: the target sha stays stale and a PR tested against the old commit is merged'),
                    ('pull_request', 'a new head commit / label change is not noticed until the periodic refresh'),
                    ('pull_request_review', 'a dismissed approval / requested change is not noticed: the PR is merged as approved')):
        cons = f'{mci.rel}::github event {ev}'  # type: ignore[union-attr]
        hs = handlers.get(ev, [])
        ctx.check(bool(hs) and all(notifies(h, 'notify_github_changed') for h in hs), 'R9', cons,
                  f'no handler of the GitHub `{ev}` event calls notify_github_changed: {why}', mci.path, hs[0].lineno if hs else 0)  # type: ignore[union-attr]
    bch = [fn for qual, fn in mci.functions() if notifies(fn, 'notify_batch_changed') and qual != 'update_loop']  # type: ignore[union-attr]
    ctx.check(bool(bch), 'R9', f'{mci.rel}::batch callback', 'no handler calls notify_batch_changed: batch completions are only seen by the periodic refresh',  # type: ignore[union-attr]
              mci.path, 0)  # type: ignore[union-attr]


# --------------------------------------------------------------------------------------
# R10: what counts as a succeeded check
# --------------------------------------------------------------------------------------

SUCCESS_STATES = {'SUCCESS', 'NEUTRAL'}  # GitHub's own "passing" conclusions; everything else is pending or failed


def _check_status_mapping(ctx: Ctx, mods: List[pf.Module], m: pf.Module) -> None:
    mu = None
    for mod in mods:
        if mod.has_func('github_status'):
            mu = mod
    ctx.need(mu is not None, 'github_status() not found in ci/ci (anchor vanished)')
    fn = mu.func('github_status')  # type: ignore[union-attr]
    params = [a.arg for a in fn.args.args]
    ctx.need(len(params) == 1, f'github_status: parameters {params}')
    st = params[0]
    cfg = pf.cfg(fn)
    n_succ = 0
    for r in [n for n in cfg.nodes if n.kind == 'return' and isinstance(n.ast, ast.Return)]:
        v = r.ast.value  # type: ignore[union-attr]
        ctx.need(v is not None and (pf.dotted(v) or '').startswith('GithubStatus.'), f'github_status: return `{pf.nsrc(r.ast)}` is not a GithubStatus constant')
        if pf.dotted(v) != 'GithubStatus.SUCCESS':
            continue
        n_succ += 1
        widened: List[str] = []

        def passing(e: ast.expr, pol: bool) -> bool:
            if not pol:
                return False
            if _const_eq_fact(e, True, lambda x: pf.nsrc(x) == st, 'SUCCESS') or _const_eq_fact(e, True, lambda x: pf.nsrc(x) == st, 'NEUTRAL'):
                return True
            if isinstance(e, ast.Compare) and len(e.ops) == 1 and isinstance(e.ops[0], ast.In) and pf.nsrc(e.left) == st \
                    and isinstance(e.comparators[0], (ast.Set, ast.List, ast.Tuple)) and all(pf.const_str(x) is not None for x in e.comparators[0].elts):
                vals = {pf.const_str(x) for x in e.comparators[0].elts}
                if vals <= SUCCESS_STATES:
                    return True
                widened.extend(sorted(vals - SUCCESS_STATES))  # type: ignore[arg-type]
            return False
        path = _unguarded_path(cfg, Facts(), [cfg.entry], lambda n, r=r: n is r, passing)
        extra = f' (the test that leads here also admits {sorted(set(widened))})' if widened else ''
        ctx.check(path is None, 'R10', f'{mu.rel}::github_status::return SUCCESS',  # type: ignore[union-attr]
                  f'GithubStatus.SUCCESS is returned for states other than SUCCESS / NEUTRAL{extra} ' + (f'[{_fmt_path(path)}]' if path else '')
                  + ': a skipped / cancelled / pending / unknown check on the head counts as succeeded and the PR is merged', mu.path, r.lineno)  # type: ignore[union-attr]
    ctx.need(n_succ >= 1, 'github_status never returns GithubStatus.SUCCESS (anchor changed)')
    # every reported (required) check enters the status map
    fn = m.func('PR._update_github')
    cfg = pf.cfg(fn)
    stores = [n for n in cfg.nodes if n.kind == 'stmt' and isinstance(n.ast, ast.Assign) and len(n.ast.targets) == 1 and isinstance(n.ast.targets[0], ast.Subscript)
              and isinstance(n.ast.value, ast.Call) and pf.dotted(n.ast.value.func) == 'github_status']
    ctx.need(stores, 'PR._update_github: no `<map>[…] = github_status(…)` found')
    maps = {pf.nsrc(n.ast.targets[0].value) for n in stores}  # type: ignore[union-attr]
    ctx.need(len(maps) == 1, f'PR._update_github: statuses stored into several maps {maps}')
    loops = [n for n in cfg.nodes if n.kind == 'loop' and any(af.direct(cfg, n, s2, 'T') for s2 in stores)]
    ctx.need(len(loops) == 1 and isinstance(loops[0].ast, ast.For) and isinstance(loops[0].ast.target, ast.Name), 'PR._update_github: the loop over the reported checks is not recognised')
    loop = loops[0]
    var = loop.ast.target.id  # type: ignore[union-attr]
    for s2 in stores:
        arg = s2.ast.value.args[0] if s2.ast.value.args else None  # type: ignore[union-attr]
        good = isinstance(arg, ast.Subscript) and pf.nsrc(arg.value) == var and pf.const_str(arg.slice) in ('state', 'conclusion')
        ctx.check(good, 'R10', f'{F}::PR._update_github::{short(s2.text(), 60)}', f'the status recorded for a check is `{pf.nsrc(s2.ast.value)}`, not github_status of the '  # type: ignore[union-attr]
                  f"check's own state / conclusion", m.path, s2.lineno)
    starts = [x for x, lab in loop.succ if lab == 'T']
    path = _unguarded_path(cfg, Facts(), starts, lambda n: n is loop,
                           lambda e, pol: (not pol) and isinstance(e, ast.Subscript) and pf.nsrc(e.value) == var and pf.const_str(e.slice) == 'isRequired',
                           avoid=lambda n: any(n is s2 for s2 in stores))
    ctx.check(path is None, 'R10', f'{F}::PR._update_github::every required check is recorded',
              'a reported check can be left out of the status map for a reason other than `not isRequired` ' + (f'[{_fmt_path(path)}]' if path else '')
              + ': e.g. a pending or failed check is ignored, the remaining ones are all SUCCESS and the PR is merged', m.path, loop.lineno)


def _is_none(e: ast.AST) -> bool:
    return isinstance(e, ast.Constant) and e.value is None


# --------------------------------------------------------------------------------------


def _group(ctx: Ctx, errors: List[str], fn: Callable, *args) -> None:
    """Run one rule group; an undecidable shape in one group must not hide the verdicts of the others."""
    try:
        fn(*args)
    except AnalysisError as e:
        errors.append(str(e))


def run(ctx: Ctx) -> None:
    ctx.explanation = ('Who-may-call closure over ci/ci/*.py for the GitHub merge request, PR.merge and try_to_merge; CFG must-pass-through with branch polarity '
                       'for the is_mergeable gate, the single-merge exit and the tested chain; fact extraction over the conjunction returned by is_mergeable; '
                       'abstract dict evaluation of the request body; await-atomicity of the dirty-flag test-and-clear and of the busy guard of the update coroutine; '
                       'abstract execution of is_mergeable over (possible build states x CI entry not SUCCESS).')
    ctx.rule('R1', 'merge request only in PR.merge; PR.merge only from try_to_merge behind `pr.is_mergeable()`; try_to_merge only from _update; no GraphQL merge mutation', 4)
    ctx.rule('R2', 'is_mergeable is a conjunction containing approved, statuses non-empty, all SUCCESS, batch target_sha == target sha, no DO_NOT_MERGE label', 6)
    ctx.rule('R3', 'a successful merge ends try_to_merge (no second merge) after resetting the target sha', 2)
    ctx.rule('R4', "merge request pins 'sha': self.source_sha; a head change records the head, clears batch and build state", 4)
    ctx.rule('R5', "tested chain: SUCCESS only from build_state 'success' <- completed successful batch of the current head and target; _heal before every merge attempt", 12)
    ctx.rule('R6', 'dirty flags raised by notifications are cleared only atomically with the test that found them set, before the awaited refresh, and are re-tested '
             'after every suspension before the update coroutine returns; notifiers raise their flag unconditionally (no lost update)', 11)
    ctx.rule('R7', 'the update coroutine is single-flight: busy guard taken atomically before the first suspension, held across all of them, released last and on every exit', 4)
    ctx.rule('R8', "review_state 'approved' is derived only from this refresh's reviewDecision == 'APPROVED', stored through set_review_state whenever it changed", 5)
    ctx.rule('R9', 'target sha, labels and status map are replaced by what this refresh read from GitHub whenever they differ; push / pull_request / review / batch '
             'events reach the refresh', 7)
    ctx.rule('R10', 'a check counts as succeeded only for GitHub states SUCCESS / NEUTRAL, and every required check reported for the head enters the status map', 4)
    ctx.rule('R11', "the merge decision is about the batch whose currency it checks: is_mergeable returns true only with build_state == 'success' established "
             "(or CI's own status entry not SUCCESS), and build_state is reset wherever self.batch is replaced", 3)
    ctx.assume('GitHub rejects PUT …/merge when the pinned sha is not the pull request head')
    ctx.assume('asyncio: a coroutine is atomic between two suspension points (await / async with / async for)')
    mods = [pf.load(rel) for rel in pf.walk_py(['ci/ci'])]
    ctx.unit('files', len(mods))
    ctx.unit('functions', sum(len(mm.functions()) for mm in mods))
    m = pf.load(F)
    _MODULE['m'] = m
    facts = cx.PRFacts(m.cls('PR'))
    errors: List[str] = []
    sites: List = []
    merge_calls: List = []

    def callers() -> None:
        sites.extend(_merge_request_sites(mods))
        merge_calls.extend(_check_callers(ctx, mods, m, facts, sites))
    _group(ctx, errors, callers)
    _group(ctx, errors, _check_is_mergeable, ctx, m, facts)
    _group(ctx, errors, lambda: _check_one_merge(ctx, m, facts, merge_calls) if merge_calls else None)
    _group(ctx, errors, _check_pin_and_reset, ctx, m, sites)
    _group(ctx, errors, _check_tested_chain, ctx, mods, m, facts)
    _group(ctx, errors, _check_decision_about_current_batch, ctx, mods, m, facts)
    _group(ctx, errors, _check_flags, ctx, mods)
    _group(ctx, errors, _check_review_provenance, ctx, mods, m, facts)
    _group(ctx, errors, _check_freshness, ctx, mods, m)
    _group(ctx, errors, _check_status_mapping, ctx, mods, m)
    if errors:
        raise AnalysisError('; '.join(errors[:3]))
