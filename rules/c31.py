"""C31 Hail type strings round-trip.

Decides (from the syntax trees / text of hail/expr/types.py, hail/expr/type_parsing.py, hail/utils/java.py, hail/utils/misc.py,
is/hail/expr/ir/Parser.scala and is/hail/utils/StringEscapeUtils.scala; nothing of the repository is run):
  R1  bare identifiers.  The language of names emitted WITHOUT back-ticks (escape_parsable: `_parsable_str` with the matching mode
      used; escape_id: its own regex) is included in (a) the Python type grammar's `simple_identifier` and (b) the engine's
      `JavaTokenParsers.ident` = JavaIdentifierStart JavaIdentifierPart* over UTF-16 units (the two predicates are tabulated from
      the installed JDK for every char); decided once over ASCII names and once over all names.
  R2  escapes.  The escapers are turned into UNIT TABLES (code-point range -> emitted text): escape_parsable from the platform's
      unicode_escape codec (tabulated for every code point) followed by the extracted `.replace`, escape_str/escape_id by symbolic
      evaluation of the per-character loop over code-point ranges.  Per unit kind, delimiter+unit+delimiter must be in (a) the
      engine lexer's quotedLiteral language (escapeChars extracted from Parser.scala), (b) for escape_parsable also the Python
      grammar's `escaped_identifier` (which must be prefix-free so that PEG matching is exact).
  R3  unescape_parsable is the mirror image of escape_parsable (inverse steps in reverse order, delimiter stripped by the
      visitor); every struct field name / reference genome name printed by tstruct / tlocus goes through escape_parsable.
  R4  printed forms parse back: the type grammar TEXT is read by our own PEG interpreter; for every HailType class the `__str__`
      template is instantiated with sample children / field names and must parse in full through the rule whose visitor constructs
      that very class; visitor tuple-unpacking arity == number of sequence members of the rule; every alternative has a visitor.
  R5  the engine decodes what it accepts: for every unit kind the lexer lets through, StringEscapeUtils.unescapeString (arms
      extracted) maps the emitted text back to the same UTF-16 code units.
  R6  engine type syntax: the keyword of every `_parsable_string` template has an arm in IRParser.type_expr, whose body consumes
      the punctuation the template prints.
Does not decide: semantic equality of parsed and printed types beyond the class; parsimonious >= 0.10 matches regex terminals with
the third-party `regex` module (not installed here) whose \\w differs from `re` for a few code points - `re` semantics are assumed.
"""
from __future__ import annotations

import ast
import os
import re
import subprocess
import tempfile
import unicodedata
from typing import Any, Dict, List, Optional, Sequence, Tuple

from engines import peglite as P
from engines import pyfacts as pf
from engines import relang as R
from engines import scalalite as S
from engines import strpred as sp
from engines.common import AnalysisError, Ctx

META = dict(
    category='other',
    text='Lexical agreement between the Python printers/escapers, the Python type grammar and the engine lexer is decided exactly on '
         'regular languages over all Unicode code points (inclusions by DFA product with shortest witnesses, per escape-unit kind); '
         'the print/parse round trip is decided per type class by interpreting the grammar text with our own PEG interpreter on '
         'instantiated print templates (structural induction over the type constructors, sampled field names). Sampling of field '
         'names and children in R4 keeps the level at other.',
    note='Trusted: CPython ast/re._parser, the unicode_escape codec and str predicates of the running interpreter, '
         'Character.isJavaIdentifierStart/Part of the installed JDK (fallback: unicodedata categories), the definition of '
         'scala-parser-combinators JavaTokenParsers.ident, engines/relang.py, peglite.py, scalalite.py, strpred.py. Assumes regex '
         'terminals of the grammar follow stdlib `re` semantics.',
    technique='static analysis: regular-language inclusion over a Unicode partition, symbolic evaluation of escapers into unit tables, '
              'PEG interpretation of the extracted grammar text, fail-closed Scala fragment extraction',
    design_ref='DESIGN.md §3 C31',
)

F_TYPES = 'hail/python/hail/expr/types.py'
F_GRAMMAR = 'hail/python/hail/expr/type_parsing.py'
F_JAVA = 'hail/python/hail/utils/java.py'
F_MISC = 'hail/python/hail/utils/misc.py'
F_PARSER = S.PARSER_SCALA
F_ESCUTIL = S.ESCAPE_UTILS_SCALA

# --------------------------------------------------------------------------------------
# platform tables
# --------------------------------------------------------------------------------------

_java_cache: Optional[Tuple[R.CharSet, R.CharSet, str]] = None

_JAVA_SRC = '''public class IdTab {
    public static void main(String[] a) {
        StringBuilder sb = new StringBuilder();
        for (int which = 0; which < 2; which++) {
            boolean prev = false; int start = 0;
            for (int c = 0; c <= 0x10000; c++) {
                boolean v = c <= 0xFFFF && (which == 0 ? Character.isJavaIdentifierStart((char) c) : Character.isJavaIdentifierPart((char) c));
                if (v && !prev) start = c;
                if (!v && prev) sb.append(Integer.toHexString(start)).append('-').append(Integer.toHexString(c - 1)).append(',');
                prev = v;
            }
            sb.append('\\n');
        }
        sb.append(System.getProperty("java.version")).append('\\n');
        System.out.print(sb);
    }
}
'''


def java_identifier_tables(ctx: Ctx) -> Tuple[R.CharSet, R.CharSet, str]:
    """(isJavaIdentifierStart, isJavaIdentifierPart) of `char` values 0..0xFFFF, from the installed JDK (platform definition)."""
    global _java_cache
    if _java_cache is not None:
        return _java_cache
    out = None
    tmp = tempfile.mkdtemp(prefix='verif_c31_java_')
    try:
        path = os.path.join(tmp, 'IdTab.java')
        with open(path, 'w') as fh:
            fh.write(_JAVA_SRC)
        try:
            p = subprocess.run(['java', '-XX:TieredStopAtLevel=1', path], capture_output=True, text=True, timeout=60, cwd=tmp)
            if p.returncode == 0 and p.stdout.count('\n') >= 3:
                out = p.stdout
        except (OSError, subprocess.SubprocessError):
            out = None
    finally:
        for f in os.listdir(tmp):
            os.unlink(os.path.join(tmp, f))
        os.rmdir(tmp)
    if out is not None:
        lines = out.split('\n')

        def parse(line: str) -> R.CharSet:
            rs = []
            for part in line.split(','):
                if part:
                    a, b = part.split('-')
                    rs.append((int(a, 16), int(b, 16)))
            return R.CharSet(rs)
        _java_cache = (parse(lines[0]), parse(lines[1]), f'JDK {lines[2].strip()}')
        ctx.trusted_base.append(f'Character.isJavaIdentifierStart/Part(char) tabulated from the installed {_java_cache[2]}')
        return _java_cache
    # fallback: the documented definition over unicodedata general categories
    start_cat = {'Lu', 'Ll', 'Lt', 'Lm', 'Lo', 'Nl', 'Sc', 'Pc'}
    part_cat = start_cat | {'Nd', 'Mn', 'Mc', 'Cf'}
    st, pt = [], []
    for c in range(0x10000):
        cat = unicodedata.category(chr(c))
        ign = c <= 8 or 0xE <= c <= 0x1B or 0x7F <= c <= 0x9F
        st.append(cat in start_cat)
        pt.append(cat in part_cat or ign)
    ctx.assume('`java` is not available: Character.isJavaIdentifierStart/Part are approximated from unicodedata general categories '
               f'(Unicode {unicodedata.unidata_version}), which may differ from the JDK\'s Unicode version')
    _java_cache = (R.from_table('java.start.fallback', st + [False] * (R.MAXCP + 1 - 0x10000)),
                   R.from_table('java.part.fallback', pt + [False] * (R.MAXCP + 1 - 0x10000)), 'unicodedata fallback')
    return _java_cache


def java_ident_language(ctx: Ctx) -> Tuple[R.Lang, str]:
    """JavaTokenParsers.ident over CODE POINTS: a supplementary code point is two surrogate chars, each of which must satisfy the
    char predicate."""
    start, part, origin = java_identifier_tables(ctx)
    hi_sur, lo_sur = R.CharSet([(0xD800, 0xDBFF)]), R.CharSet([(0xDC00, 0xDFFF)])

    def lift(cs: R.CharSet) -> R.CharSet:
        # supplementary code points qualify only if every high and low surrogate involved does; decide uniformly (all or nothing)
        if hi_sur.issubset(cs) and lo_sur.issubset(cs):
            return cs | R.CharSet([(0x10000, R.MAXCP)])
        if not (hi_sur & cs) or not (lo_sur & cs):
            return cs
        raise AnalysisError('Java identifier tables accept only some surrogates; the code-point lifting is not uniform')
    s2, p2 = lift(start), lift(part)
    return R.lang(R.seq(R.chars(s2), R.star(R.chars(p2))), 'JavaIdentifierStart JavaIdentifierPart*'), origin


# ---- unit tables ------------------------------------------------------------------------
# a unit: (lo, hi, parts)  parts: list of ('lit', text) | ('self',) | ('hex', min_width, upper)


class Unit:
    __slots__ = ('lo', 'hi', 'parts')

    def __init__(self, lo: int, hi: int, parts: List[tuple]):
        self.lo, self.hi, self.parts = lo, hi, parts

    def kind(self) -> str:
        out = []
        for p in self.parts:
            if p[0] == 'lit':
                out.append(p[1])
            elif p[0] == 'self':
                out.append('<the character itself>')
            else:
                out.append('N' * max(p[1], len(f'{self.hi:x}')) if len(f'{self.lo:x}') == len(f'{self.hi:x}') or p[1] >= len(f'{self.hi:x}')
                           else 'N' * p[1] + '+')
        return ''.join(out)

    def output(self, cp: int) -> str:
        out = []
        for p in self.parts:
            if p[0] == 'lit':
                out.append(p[1])
            elif p[0] == 'self':
                out.append(chr(cp))
            else:
                out.append(format(cp, f'0{p[1]}{"X" if p[2] else "x"}'))
        return ''.join(out)

    def regex(self) -> R.Re:
        kinds = [p[0] for p in self.parts]
        if kinds.count('self') + kinds.count('hex') > 1:
            raise AnalysisError('unit with more than one character-dependent part')
        items: List[R.Re] = []
        for p in self.parts:
            if p[0] == 'lit':
                items.append(R.lit(p[1]))
            elif p[0] == 'self':
                items.append(R.chars(R.CharSet([(self.lo, self.hi)])))
            else:
                width, upper = p[1], p[2]
                digits = '0123456789ABCDEF' if upper else '0123456789abcdef'
                alts = []
                d = max(width, 1)
                lo = self.lo
                while lo <= self.hi:
                    top = 16 ** d - 1
                    if lo <= top:
                        alts.append(R.numeral_range(lo, min(self.hi, top), d, digits))
                        lo = min(self.hi, top) + 1
                    d += 1
                items.append(alts[0] if len(alts) == 1 else R.alt(*alts))
        return R.seq(*items)

    def examples(self) -> List[int]:
        """Code points that exercise every digit count of the unit (plus a friendly one)."""
        out = {self.lo, self.hi}
        for nice in (0xE9, 0x1F600, 0x4E2D, ord('a'), ord(' ')):
            if self.lo <= nice <= self.hi:
                out.add(nice)
        d = 1
        while 16 ** d <= self.hi:
            if self.lo <= 16 ** d <= self.hi:
                out.add(16 ** d)
                out.add(16 ** d - 1) if self.lo <= 16 ** d - 1 else None
            d += 1
        return sorted(out)


def split_by_width(units: List[Unit]) -> List[Unit]:
    """Split hex units so that every unit has ONE digit count (kind labels then name the width exactly)."""
    out = []
    for u in units:
        hexp = [p for p in u.parts if p[0] == 'hex']
        if not hexp:
            out.append(u)
            continue
        w = hexp[0][1]
        lo = u.lo
        d = max(w, 1)
        while lo <= u.hi:
            top = 16 ** d - 1
            if lo <= top:
                out.append(Unit(lo, min(u.hi, top), [(p if p[0] != 'hex' else ('hex', d, p[2])) for p in u.parts]))
                lo = min(u.hi, top) + 1
            d += 1
    return out


_codec_cache: Optional[List[Unit]] = None


def unicode_escape_units() -> List[Unit]:
    """The unit table of str.encode('unicode_escape') of the running interpreter, tabulated over ALL code points by encoding the
    string of all code points once and cutting the result into runs (platform definition, like unicodedata)."""
    global _codec_cache
    if _codec_cache is not None:
        return _codec_cache
    data = R._all_chars().encode('unicode_escape')
    units: List[Unit] = []
    cp = 0
    pat = re.compile(rb'(?P<x>(?:\\x[0-9a-f]{2})+)|(?P<u>(?:\\u[0-9a-f]{4})+)|(?P<U>(?:\\U[0-9a-f]{8})+)|(?P<c>\\[^xuU])|(?P<raw>[^\\]+)', re.S)
    pos = 0
    for m in pat.finditer(data):
        if m.start() != pos:
            raise AnalysisError('unicode_escape tabulation: unexpected output shape')
        pos = m.end()
        kind = m.lastgroup
        text = m.group().decode('ascii')
        if kind in ('x', 'u', 'U'):
            w = {'x': 2, 'u': 4, 'U': 8}[kind]
            n = len(text) // (2 + w)
            first, last = text[:2 + w], text[-(2 + w):]
            if first != f'\\{kind}{cp:0{w}x}' or last != f'\\{kind}{cp + n - 1:0{w}x}':
                raise AnalysisError('unicode_escape tabulation: escapes are not the code point numerals in order')
            units.append(Unit(cp, cp + n - 1, [('lit', '\\' + kind), ('hex', w, False)]))
            cp += n
        elif kind == 'c':
            units.append(Unit(cp, cp, [('lit', text)]))
            cp += 1
        else:
            n = len(text)
            if text != ''.join(map(chr, range(cp, cp + n))):
                raise AnalysisError('unicode_escape tabulation: raw run is not the identity')
            units.append(Unit(cp, cp + n - 1, [('self',)]))
            cp += n
    if pos != len(data) or cp != R.MAXCP + 1:
        raise AnalysisError(f'unicode_escape tabulation covered {cp} code points')
    _codec_cache = units
    return units


def apply_replace(units: List[Unit], a: str, b: str, where: str) -> List[Unit]:
    """Effect of `.replace(a, b)` on a character-wise encoder's output, for a one-character a."""
    if len(a) != 1:
        raise AnalysisError(f'{where}: .replace({a!r}, ...) with a multi-character pattern can span units; not modelled')
    ca = ord(a)
    out: List[Unit] = []
    for u in units:
        if any(p[0] == 'hex' for p in u.parts) and a in '0123456789abcdefABCDEF':
            raise AnalysisError(f'{where}: .replace of a hex digit is not modelled')
        parts = [('lit', p[1].replace(a, b)) if p[0] == 'lit' else p for p in u.parts]
        if any(p[0] == 'self' for p in parts) and u.lo <= ca <= u.hi:
            if u.lo < ca:
                out.append(Unit(u.lo, ca - 1, parts))
            out.append(Unit(ca, ca, [('lit', b) if p[0] == 'self' else p for p in parts]))
            if ca < u.hi:
                out.append(Unit(ca + 1, u.hi, parts))
        else:
            out.append(Unit(u.lo, u.hi, parts))
    return out


def emitted_language(units: List[Unit], delim: str, label: str) -> R.Lang:
    return R.lang(R.seq(R.lit(delim), R.star(R.alt(*[u.regex() for u in units])), R.lit(delim)), label)


def encode_with(units: List[Unit], s: str) -> str:
    out = []
    for ch in s:
        cp = ord(ch)
        for u in units:
            if u.lo <= cp <= u.hi:
                out.append(u.output(cp))
                break
        else:
            raise AnalysisError(f'unit table has no entry for U+{cp:04X}')
    return ''.join(out)


# --------------------------------------------------------------------------------------
# Python side extraction
# --------------------------------------------------------------------------------------


def _norm_codec(c: str) -> str:
    return c.lower().replace('-', '').replace('_', '')


def _pipeline(ctx: Ctx, m: pf.Module, fn: pf.FuncDef, e: ast.AST, param: str) -> List[tuple]:
    """Chain of string operations applied to `param`, innermost first: ('encode', codec) ('decode', codec) ('replace', a, b)."""
    ops: List[tuple] = []
    cur = e
    while True:
        if isinstance(cur, ast.Name) and cur.id == param:
            break
        if isinstance(cur, ast.Call) and isinstance(cur.func, ast.Attribute) and not cur.keywords:
            attr = cur.func.attr
            args = [sp.const_string(m, fn, a) for a in cur.args]
            if attr in ('encode', 'decode') and len(args) == 1:
                ops.append((attr, _norm_codec(args[0])))
            elif attr == 'replace' and len(args) == 2:
                ops.append(('replace', args[0], args[1]))
            else:
                raise AnalysisError(f'{m.rel}::{fn.name}: unrecognised string operation `{pf.nsrc(cur)[:60]}`')
            cur = cur.func.value
            continue
        if isinstance(cur, ast.Call) and pf.dotted(cur.func) in ('bytes', 'str') and len(cur.args) == 2 and not cur.keywords:
            ops.append(('encode' if pf.dotted(cur.func) == 'bytes' else 'decode', _norm_codec(sp.const_string(m, fn, cur.args[1]))))
            cur = cur.args[0]
            continue
        raise AnalysisError(f'{m.rel}::{fn.name}: unrecognised string operation `{pf.nsrc(cur)[:60]}`')
    return list(reversed(ops))


class Escaper:
    """`if <regex>.fullmatch(s): return s  else: return D + f(s) + D`"""

    def __init__(self, ctx: Ctx, m: pf.Module, name: str):
        self.m = m
        self.name = name
        fn = m.func(name)
        self.fn = fn
        params = [a.arg for a in fn.args.args]
        ctx.need(len(params) == 1, f'{m.rel}::{name}: expected one parameter')
        self.param = params[0]
        body = [s for s in fn.body if not (isinstance(s, ast.Expr) and isinstance(s.value, ast.Constant))]
        ctx.need(body and isinstance(body[0], ast.If), f'{m.rel}::{name}: body does not start with `if <regex test>`')
        iff = body[0]
        rest = body[1:]
        rc = sp.regex_call(m, fn, iff.test)
        ctx.need(rc is not None, f'{m.rel}::{name}: the test `{pf.nsrc(iff.test)}` is not a regex matching call')
        self.rd, self.mode, subj = rc  # type: ignore[misc]
        ctx.need(isinstance(subj, ast.Name) and subj.id == self.param, f'{m.rel}::{name}: regex not applied to the parameter')
        ctx.need(len(iff.body) == 1 and isinstance(iff.body[0], ast.Return) and isinstance(iff.body[0].value, ast.Name)
                 and iff.body[0].value.id == self.param, f'{m.rel}::{name}: the matching branch does not return the name unchanged')
        other = iff.orelse if iff.orelse else rest
        ctx.need(len(other) == 1 and isinstance(other[0], ast.Return) and other[0].value is not None, f'{m.rel}::{name}: unrecognised escaping branch')
        self.escaped_expr = other[0].value
        self.test_line = iff.lineno
        self.bare = R.from_regex(self.rd.pattern, self.rd.flags, self.mode)
        self.bare.label = f'{name}: bare names {self.rd.pattern!r} ({self.mode})'


def _delimited(ctx: Ctx, m: pf.Module, fn: pf.FuncDef, e: ast.AST) -> Tuple[str, ast.AST]:
    """`D + X + D`, `'D{}D'.format(X)` or f'D{X}D'  ->  (D, X)"""
    if isinstance(e, ast.BinOp) and isinstance(e.op, ast.Add) and isinstance(e.left, ast.BinOp) and isinstance(e.left.op, ast.Add):
        l, x, r = pf.const_str(e.left.left), e.left.right, pf.const_str(e.right)
        if l is not None and r is not None and l == r and len(l) == 1:
            return l, x
    if isinstance(e, ast.Call) and isinstance(e.func, ast.Attribute) and e.func.attr == 'format' and len(e.args) == 1 and not e.keywords:
        t = pf.const_str(e.func.value)
        if t is not None and len(t) == 4 and t[1:3] == '{}' and t[0] == t[3]:
            return t[0], e.args[0]
    if isinstance(e, ast.JoinedStr) and len(e.values) == 3 and isinstance(e.values[1], ast.FormattedValue) and e.values[1].format_spec is None \
            and e.values[1].conversion == -1:
        l, r = pf.const_str(e.values[0]), pf.const_str(e.values[2])
        if l is not None and l == r and len(l) == 1:
            return l, e.values[1].value
    raise AnalysisError(f'{m.rel}::{fn.name}: escaped form `{pf.nsrc(e)[:70]}` is not <delimiter> + f(s) + <delimiter>')


# ---- escape_str by symbolic evaluation ---------------------------------------------------


class EscapeStr:
    """Unit table of misc.escape_str(s, backticked) for both values of `backticked`, by evaluating the per-character loop body over
    code-point ranges that no test of the body can split."""

    def __init__(self, ctx: Ctx, m: pf.Module):
        self.m = m
        fn = m.func('escape_str')
        self.fn = fn
        params = [a.arg for a in fn.args.args]
        ctx.need(params == ['s', 'backticked'] and len(fn.args.defaults) == 1 and isinstance(fn.args.defaults[0], ast.Constant)
                 and fn.args.defaults[0].value is False, f'{m.rel}::escape_str: signature changed ({params})')
        # upper_hex model
        uh = m.func('upper_hex')
        ctx.need(pf.nsrc(uh) == pf.nsrc(ast.parse(
            'def upper_hex(n, num_digits=None):\n    if num_digits is None:\n        return "{0:X}".format(n)\n    else:\n'
            '        return "{0:0{1}X}".format(n, num_digits)').body[0]), f'{m.rel}::upper_hex: body changed; the hex model does not apply')
        loops = [s for s in fn.body if isinstance(s, ast.For)]
        ctx.need(len(loops) == 1 and isinstance(loops[0].target, ast.Name) and pf.nsrc(loops[0].iter) == 's' and not loops[0].orelse,
                 f'{m.rel}::escape_str: expected one `for ch in s` loop')
        self.loop = loops[0]
        self.ch = loops[0].target.id
        # the buffer: sb = StringIO(); ... escaped = sb.getvalue(); return escaped
        pre = fn.body[:fn.body.index(self.loop)]
        post = fn.body[fn.body.index(self.loop) + 1:]
        self.buf = None
        self.dicts: Dict[str, Dict[str, str]] = {}
        for st in pre:
            if isinstance(st, ast.Expr) and isinstance(st.value, ast.Constant):
                continue
            ctx.need(isinstance(st, ast.Assign) and len(st.targets) == 1 and isinstance(st.targets[0], ast.Name),
                     f'{m.rel}::escape_str: unrecognised statement before the loop `{pf.nsrc(st)[:60]}`')
            tgt, v = st.targets[0].id, st.value  # type: ignore[union-attr]
            if isinstance(v, ast.Call) and pf.dotted(v.func) in ('StringIO', 'io.StringIO') and not v.args:
                self.buf = tgt
            elif isinstance(v, ast.Dict):
                d = {}
                for k, val in zip(v.keys, v.values):
                    ks, vs = pf.const_str(k) if k is not None else None, pf.const_str(val)
                    ctx.need(ks is not None and vs is not None and len(ks) == 1, f'{m.rel}::escape_str: {tgt} is not a char -> str literal table')
                    d[ks] = vs
                self.dicts[tgt] = d  # type: ignore[assignment]
            else:
                ctx.need(False, f'{m.rel}::escape_str: unrecognised statement before the loop `{pf.nsrc(st)[:60]}`')
        ctx.need(self.buf is not None, f'{m.rel}::escape_str: no StringIO buffer')
        post_src = [pf.nsrc(s) for s in post]
        ctx.need(post_src in ([f'escaped = {self.buf}.getvalue()', f'{self.buf}.close()', 'return escaped'], [f'return {self.buf}.getvalue()']),
                 f'{m.rel}::escape_str: unrecognised statements after the loop {post_src}')
        # boundaries
        self.bounds = {0, R.MAXCP + 1}
        for n in ast.walk(self.loop):
            if isinstance(n, ast.Constant):
                if isinstance(n.value, int) and not isinstance(n.value, bool) and 0 <= n.value <= R.MAXCP:
                    self.bounds |= {n.value, n.value + 1}
                elif isinstance(n.value, str) and len(n.value) == 1:
                    self.bounds |= {ord(n.value), ord(n.value) + 1}
        for d in self.dicts.values():
            for k in d:
                self.bounds |= {ord(k), ord(k) + 1}

    def units(self, backticked: bool) -> List[Unit]:
        bl = sorted(b for b in self.bounds if b <= R.MAXCP + 1)
        out: List[Unit] = []
        for i in range(len(bl) - 1):
            lo, hi = bl[i], bl[i + 1] - 1
            parts = self._run(self.loop.body, {'backticked': backticked}, lo)
            if parts is None:
                parts = []
            if out and out[-1].hi + 1 == lo and out[-1].parts == parts and not (len(parts) == 1 and parts[0][0] == 'lit'):
                out[-1].hi = hi
            elif len(parts) >= 1 and all(p[0] == 'lit' for p in parts) and hi > lo:
                raise AnalysisError(f'{self.m.rel}::escape_str: a constant output for a multi-character range {lo:#x}-{hi:#x}')
            else:
                out.append(Unit(lo, hi, parts))
        return out

    def _fail(self, e: ast.AST):
        raise AnalysisError(f'{self.m.rel}::escape_str: unrecognised construct in the character loop `{pf.nsrc(e)[:70]}`')

    def _val(self, e: ast.AST, env: Dict[str, Any], cp: int) -> Any:
        """Concrete value for the representative code point cp: int / bool / str, or a list of output parts for str-valued
        expressions that depend on the character."""
        if isinstance(e, ast.Constant):
            return e.value
        if isinstance(e, ast.Name):
            if e.id == self.ch:
                return ('CH',)
            if e.id in env:
                return env[e.id]
            self._fail(e)
        if isinstance(e, ast.Call) and pf.dotted(e.func) == 'ord' and len(e.args) == 1 and self._val(e.args[0], env, cp) == ('CH',):
            return ('ORD',)
        if isinstance(e, ast.BoolOp):
            vals = [self._truth(v, env, cp) for v in e.values]
            return all(vals) if isinstance(e.op, ast.And) else any(vals)
        if isinstance(e, ast.UnaryOp) and isinstance(e.op, ast.Not):
            return not self._truth(e.operand, env, cp)
        if isinstance(e, ast.Compare) and len(e.ops) == 1:
            op = e.ops[0]
            a = self._val(e.left, env, cp)
            if a == ('CH',) and isinstance(op, (ast.In, ast.NotIn)) and isinstance(e.comparators[0], ast.Name) and e.comparators[0].id in self.dicts:
                r = chr(cp) in self.dicts[e.comparators[0].id]
                return r if isinstance(op, ast.In) else not r
            b = self._val(e.comparators[0], env, cp)
            if a == ('ORD',) and isinstance(b, int):
                table = {ast.Lt: cp < b, ast.LtE: cp <= b, ast.Gt: cp > b, ast.GtE: cp >= b, ast.Eq: cp == b, ast.NotEq: cp != b}
                if type(op) in table:
                    return table[type(op)]
            if a == ('CH',) and isinstance(b, str) and isinstance(op, (ast.Eq, ast.NotEq)):
                r = len(b) == 1 and ord(b) == cp
                return r if isinstance(op, ast.Eq) else not r
            if a == ('CH',) and isinstance(op, (ast.In, ast.NotIn)):
                if isinstance(e.comparators[0], ast.Name) and e.comparators[0].id in self.dicts:
                    r = chr(cp) in self.dicts[e.comparators[0].id]
                elif isinstance(b, str):
                    r = chr(cp) in b
                else:
                    self._fail(e)
                return r if isinstance(op, ast.In) else not r
        self._fail(e)

    def _truth(self, e: ast.AST, env: Dict[str, Any], cp: int) -> bool:
        if isinstance(e, ast.Name) and e.id in self.dicts:
            self._fail(e)
        v = self._val(e, env, cp)
        if isinstance(v, bool):
            return v
        self._fail(e)
        raise AssertionError

    def _str(self, e: ast.AST, env: Dict[str, Any], cp: int) -> List[tuple]:
        if isinstance(e, ast.Constant) and isinstance(e.value, str):
            return [('lit', e.value)]
        if isinstance(e, ast.Name) and e.id == self.ch:
            return [('self',)]
        if isinstance(e, ast.BinOp) and isinstance(e.op, ast.Add):
            return self._str(e.left, env, cp) + self._str(e.right, env, cp)
        if isinstance(e, ast.Subscript) and isinstance(e.value, ast.Name) and e.value.id in self.dicts and isinstance(e.slice, ast.Name) \
                and e.slice.id == self.ch:
            d = self.dicts[e.value.id]
            if chr(cp) not in d:
                raise AnalysisError(f'{self.m.rel}::escape_str: `{pf.nsrc(e)}` evaluated for a character outside the table')
            return [('lit', d[chr(cp)])]
        if isinstance(e, ast.Call) and pf.dotted(e.func) == 'upper_hex' and not e.keywords and 1 <= len(e.args) <= 2:
            if self._val(e.args[0], env, cp) != ('ORD',):
                self._fail(e)
            w = 1
            if len(e.args) == 2:
                w = self._val(e.args[1], env, cp)
                if not isinstance(w, int) or isinstance(w, bool) or not 1 <= w <= 8:
                    self._fail(e)
            return [('hex', w, True)]
        self._fail(e)
        raise AssertionError

    def _run(self, stmts: Sequence[ast.stmt], env: Dict[str, Any], cp: int) -> Optional[List[tuple]]:
        parts: List[tuple] = []
        for st in stmts:
            if isinstance(st, ast.Assign) and len(st.targets) == 1 and isinstance(st.targets[0], ast.Name):
                env = dict(env)
                env[st.targets[0].id] = self._val(st.value, env, cp)
            elif isinstance(st, ast.If):
                sub = self._run(st.body if self._truth(st.test, env, cp) else st.orelse, env, cp)
                parts += sub or []
            elif isinstance(st, ast.Expr) and isinstance(st.value, ast.Call) and pf.dotted(st.value.func) == f'{self.buf}.write' \
                    and len(st.value.args) == 1 and not st.value.keywords:
                parts += self._str(st.value.args[0], env, cp)
            else:
                self._fail(st)
        # merge adjacent literals
        merged: List[tuple] = []
        for p in parts:
            if merged and p[0] == 'lit' and merged[-1][0] == 'lit':
                merged[-1] = ('lit', merged[-1][1] + p[1])
            else:
                merged.append(p)
        return merged


# --------------------------------------------------------------------------------------
# engine side
# --------------------------------------------------------------------------------------


def scala_quoted_language(delim: str, escape_chars: set, label: str) -> R.Lang:
    """IRLexer.quotedLiteral(delim): delim ( [^delim \\] | \\ [escapeChars] )* delim   (over UTF-16 units = any code point here)."""
    plain = ~R.CharSet.of([delim, '\\'])
    return R.lang(R.seq(R.lit(delim), R.star(R.alt(R.chars(plain), R.seq(R.lit('\\'), R.chars(R.CharSet.of(escape_chars))))), R.lit(delim)), label)


def scala_decode(body: str, arms: dict) -> Optional[List[int]]:
    """Our model of StringEscapeUtils.unescapeString driven by the extracted arms: UTF-16 code units of the result, or None when it
    reports an error."""
    out: List[int] = []
    units: List[int] = []
    for ch in body:
        cp = ord(ch)
        if cp > 0xFFFF:
            cp -= 0x10000
            units += [0xD800 + (cp >> 10), 0xDC00 + (cp & 0x3FF)]
        else:
            units.append(cp)
    had, in_uni, buf = False, False, ''
    for u in units:
        ch = chr(u)
        if in_uni:
            buf += ch
            if len(buf) == arms['unicode_width']:
                try:
                    out.append(int(buf, 16) & 0xFFFF)
                except ValueError:
                    return None
                buf, in_uni, had = '', False, False
        elif had:
            had = False
            if ch in arms['simple']:
                out.append(ord(arms['simple'][ch]))
            elif ch == arms['unicode_intro']:
                in_uni = True
            else:
                return None
        elif ch == '\\':
            had = True
        else:
            out.append(u)
    if had:
        out.append(ord('\\'))
    return out


def utf16(cp: int) -> List[int]:
    if cp > 0xFFFF:
        c = cp - 0x10000
        return [0xD800 + (c >> 10), 0xDC00 + (c & 0x3FF)]
    return [cp]


# --------------------------------------------------------------------------------------
# rules
# --------------------------------------------------------------------------------------


def _show(s: Optional[str]) -> str:
    return 'none' if s is None else ascii(s)


def _name_for(units: List[Unit], u: Unit, cp: int, bare_dfa: R.DFA) -> Tuple[str, str]:
    """A name whose escaped rendering contains unit u at cp and that is NOT emitted bare: (name, escaped body)."""
    name = chr(cp)
    if bare_dfa.accepts(name):
        name = name + ' '
        if bare_dfa.accepts(name):
            raise AnalysisError('cannot build a non-bare example name')
    return name, encode_with(units, name)


def check_units_against(ctx: Ctx, rule: str, cons_prefix: str, units: List[Unit], delim: str, target: R.Lang, target_name: str,
                        bare: Optional[R.Lang], src_file: str, src_line: int, emitter: str) -> Dict[str, bool]:
    """One instance per unit kind: delim+unit+delim must be in the target language.  Returns kind -> accepted."""
    by_kind: Dict[str, List[Unit]] = {}
    for u in split_by_width(units):
        by_kind.setdefault(u.kind(), []).append(u)
    bare_dfa = R.to_dfa(bare, R.alphabet_for([bare])) if bare is not None else None
    result: Dict[str, bool] = {}
    flat = split_by_width(units)
    for kind, us in by_kind.items():
        L = R.lang(R.seq(R.lit(delim), R.alt(*[u.regex() for u in us]), R.lit(delim)), kind)
        w = R.included(L, target)
        result[kind] = w is None
        cons = f'{cons_prefix}::unit {kind}'
        if w is None:
            ctx.ok(rule, cons, {'code_points': sum(u.hi - u.lo + 1 for u in us)})
            continue
        # a concrete name (friendly code points first)
        ex = ''
        cands = sorted(((cp, u) for u in us for cp in u.examples()), key=lambda t: (t[0] not in (0xE9, 0x1F600, 0x4E2D), t[0]))
        # characters of the automaton's witness are candidates too (raw units: the offending character itself)
        cands = [(ord(ch), u) for ch in w for u in us if u.lo <= ord(ch) <= u.hi and any(p[0] == 'self' for p in u.parts)] + cands
        for cp, u in cands:
            text = delim + u.output(cp) + delim
            if not R.accepts(target, text):
                if bare_dfa is not None:
                    name, body = _name_for(flat, u, cp, bare_dfa)
                else:
                    name, body = chr(cp), u.output(cp)
                full = delim + body + delim
                if not R.accepts(target, full):
                    ex = f'the name {ascii(name)} is emitted as {ascii(full)}'
                    break
        if not ex:
            raise AnalysisError(f'{cons}: the unit language is not included in {target_name} (witness {w!r}) but no concrete name reproduces it')
        n = sum(u.hi - u.lo + 1 for u in us)
        ctx.bad(rule, cons, f'{emitter} emits {kind!r} for {n} code point(s) (U+{us[0].lo:04X}..), which {target_name} does not accept: {ex}',
                src_file, src_line, extra={'witness': w})
    return result


def _hail_classes(ctx: Ctx, mt: pf.Module) -> Dict[str, ast.ClassDef]:
    out = {}
    for c in mt.tree.body:
        if isinstance(c, ast.ClassDef) and any(pf.dotted(b) == 'HailType' for b in c.bases):
            out[c.name] = c
    ctx.need(len(out) >= 15, f'{F_TYPES}: only {len(out)} HailType subclasses found')
    return out


def _method(c: ast.ClassDef, name: str) -> Optional[ast.FunctionDef]:
    for st in c.body:
        if isinstance(st, ast.FunctionDef) and st.name == name:
            return st
    return None


class Templates:
    """Sample strings of a printer method (`__str__` / `_parsable_string`) by symbolic evaluation of its return expression."""

    def __init__(self, ctx: Ctx, m: pf.Module, type_samples: List[str], ident_samples: List[str], escaper_name: str = 'escape_parsable'):
        self.ctx = ctx
        self.m = m
        self.types = type_samples
        self.idents = ident_samples
        self.escaper = escaper_name
        self.used_escaper = False

    def fail(self, e: ast.AST):
        raise AnalysisError(f'{self.m.rel}: printer expression not recognised `{pf.nsrc(e)[:80]}`')

    def samples(self, fn: ast.FunctionDef) -> List[str]:
        body = [s for s in fn.body if not (isinstance(s, ast.Expr) and isinstance(s.value, ast.Constant))]
        if len(body) != 1 or not isinstance(body[0], ast.Return) or body[0].value is None:
            raise AnalysisError(f'{self.m.rel}::{fn.name}: not a single `return <template>`')
        return self.ev(body[0].value, {})

    def category(self, e: ast.AST, env: Dict[str, str]) -> Optional[str]:
        if isinstance(e, ast.Name):
            return env.get(e.id)
        if isinstance(e, ast.Attribute) and isinstance(e.value, ast.Name) and e.value.id == 'self':
            a = e.attr.lstrip('_')
            if a == 'ndim':
                return 'NAT'
            if a in ('reference_genome', 'rg'):
                return 'NAME'
            if a.endswith('_type') or a == 'element_type':
                return 'TYPE'
        if isinstance(e, ast.Attribute) and e.attr == 'name' and self.category(e.value, env) == 'NAME':
            return 'NAME'
        if isinstance(e, ast.Call) and pf.dotted(e.func) == 'str' and len(e.args) == 1:
            return self.category(e.args[0], env)
        if isinstance(e, ast.Call) and isinstance(e.func, ast.Attribute) and e.func.attr in ('_parsable_string', '__str__') and not e.args:
            c = self.category(e.func.value, env)
            return c if c == 'TYPE' else None
        return None

    def ev(self, e: ast.AST, env: Dict[str, str]) -> List[str]:
        s = pf.const_str(e)
        if s is not None:
            return [s]
        if isinstance(e, ast.Call) and pf.dotted(e.func) == self.escaper and len(e.args) == 1 and not e.keywords:
            if self.category(e.args[0], env) != 'NAME':
                self.fail(e)
            self.used_escaper = True
            return list(self.idents)
        cat = self.category(e, env)
        if cat == 'TYPE':
            return list(self.types)
        if cat == 'NAT':
            return ['2', '0']
        if cat == 'NAME':
            # a name printed without the escaper: raw names
            return ['a', 'a b', '`']
        if isinstance(e, ast.BinOp) and isinstance(e.op, ast.Add):
            return self.combine([self.ev(e.left, env), self.ev(e.right, env)], lambda xs: ''.join(xs))
        if isinstance(e, ast.JoinedStr):
            parts = []
            for v in e.values:
                if isinstance(v, ast.Constant):
                    parts.append([str(v.value)])
                elif isinstance(v, ast.FormattedValue) and v.format_spec is None and v.conversion == -1:
                    parts.append(self.ev(v.value, env))
                else:
                    self.fail(e)
            return self.combine(parts, lambda xs: ''.join(xs))
        if isinstance(e, ast.Call) and isinstance(e.func, ast.Attribute) and e.func.attr == 'format' and not e.keywords:
            tmpl = pf.const_str(e.func.value)
            if tmpl is None:
                self.fail(e)
            pieces = self.split_format(tmpl, e)  # type: ignore[arg-type]
            if len(pieces) - 1 != len(e.args):
                self.fail(e)
            args = [self.ev(a, env) for a in e.args]
            return self.combine(args, lambda xs: ''.join(p + x for p, x in zip(pieces, list(xs) + [''])))
        if isinstance(e, ast.Call) and isinstance(e.func, ast.Attribute) and e.func.attr == 'join' and len(e.args) == 1 and not e.keywords:
            sep = pf.const_str(e.func.value)
            it = e.args[0]
            if sep is None or not isinstance(it, (ast.GeneratorExp, ast.ListComp)) or len(it.generators) != 1 or it.generators[0].ifs:
                self.fail(e)
            gen = it.generators[0]  # type: ignore[union-attr]
            env2 = dict(env)
            src = pf.nsrc(gen.iter)
            if src == 'self.items()' and isinstance(gen.target, ast.Tuple) and len(gen.target.elts) == 2 and all(isinstance(x, ast.Name) for x in gen.target.elts):
                env2[gen.target.elts[0].id] = 'NAME'  # type: ignore[union-attr]
                env2[gen.target.elts[1].id] = 'TYPE'  # type: ignore[union-attr]
            elif src in ('self.types', 'self._types') and isinstance(gen.target, ast.Name):
                env2[gen.target.id] = 'TYPE'
            else:
                self.fail(e)
            elts = self.ev(it.elt, env2)  # type: ignore[union-attr]
            out = ['']  # empty container
            out += [x for x in elts]  # one element
            out += [sep.join([elts[i % len(elts)], elts[(i + 1) % len(elts)]]) for i in range(len(elts))]  # type: ignore[union-attr]
            out.append(sep.join(elts))  # type: ignore[union-attr]
            return out
        self.fail(e)
        raise AssertionError

    @staticmethod
    def combine(parts: List[List[str]], f) -> List[str]:
        n = max(len(p) for p in parts) if parts else 1
        return [f([p[i % len(p)] for p in parts]) for i in range(n)]

    def split_format(self, tmpl: str, e: ast.AST) -> List[str]:
        """'a{}b{{c}}' -> ['a', 'b{c}'] (auto-numbered empty fields only)."""
        out, cur, i = [], '', 0
        while i < len(tmpl):
            if tmpl.startswith('{{', i):
                cur += '{'
                i += 2
            elif tmpl.startswith('}}', i):
                cur += '}'
                i += 2
            elif tmpl.startswith('{}', i):
                out.append(cur)
                cur = ''
                i += 2
            elif tmpl[i] in '{}':
                self.fail(e)
            else:
                cur += tmpl[i]
                i += 1
        out.append(cur)
        return out


def _visitor_class(ctx: Ctx, mg: pf.Module, mt: pf.Module, classes: Dict[str, ast.ClassDef], meth: ast.FunctionDef) -> Optional[str]:
    """Name of the types.py class a visitor method's result belongs to (`return types.X` / `return types.X(...)`)."""
    names = set()
    for n in ast.walk(meth):
        if isinstance(n, ast.Return) and n.value is not None:
            v = n.value
            if isinstance(v, ast.Call):
                v = v.func
            d = pf.dotted(v)
            if d is None or not d.startswith('types.'):
                return None
            names.add(d[len('types.'):])
    out = set()
    for nm in names:
        if nm in classes:
            out.add(nm)
            continue
        try:
            val = sp.module_const(mt, nm)
        except AnalysisError:
            # classes outside HailType's direct subclasses (tvariable)
            if any(isinstance(c, ast.ClassDef) and c.name == nm for c in mt.tree.body):
                out.add(nm)
                continue
            return None
        if isinstance(val, ast.Call) and pf.dotted(val.func) in classes and not val.args:
            out.add(pf.dotted(val.func))  # type: ignore[arg-type]
        elif isinstance(val, ast.Name):
            v2 = sp.module_const(mt, val.id)
            if isinstance(v2, ast.Call) and pf.dotted(v2.func) in classes:
                out.add(pf.dotted(v2.func))  # type: ignore[arg-type]
            else:
                return None
        else:
            return None
    return out.pop() if len(out) == 1 else None


def run(ctx: Ctx) -> None:
    ctx.explanation = ('Escapers are turned into unit tables (code-point range -> emitted text) and compared, as regular languages over all '
                       'Unicode code points, with the Python grammar terminals and with the engine lexer read from Parser.scala; printed '
                       'forms are parsed with our own PEG interpreter of the grammar text. No repository code is run.')
    ctx.rule('R1', 'names emitted bare are simple_identifier of the type grammar and JavaTokenParsers.ident of the engine lexer '
                   ' (ASCII names and all names)', 5)
    ctx.rule('R2', 'every escape unit the Python side can emit between delimiters is accepted by the engine lexer quotedLiteral / by the '
                   'grammar escaped_identifier (prefix-free)', 50)
    ctx.rule('R3', 'unescape_parsable mirrors escape_parsable; struct field and reference genome names are printed through escape_parsable', 9)
    ctx.rule('R4', 'every HailType __str__ form parses back through the grammar rule whose visitor builds that class; visitor arity; every '
                   'alternative of `type` has a visitor', 52)
    ctx.rule('R5', 'unescapeString maps every accepted escape unit back to the same UTF-16 code units', 35)
    ctx.rule('R6', 'the keyword of every _parsable_string form has an arm in IRParser.type_expr that consumes the punctuation printed', 18)
    ctx.assume('regex terminals of type_grammar follow stdlib `re` semantics (parsimonious >= 0.10 uses the third-party `regex` module, whose \\w '
               'differs for a few code points such as U+00B2; not installed here)')
    ctx.assume('JavaTokenParsers.ident = rep1(acceptIf(Character.isJavaIdentifierStart), elem(Character.isJavaIdentifierPart)) on UTF-16 chars '
               '(scala-parser-combinators), and is tried after skipping \\s+')
    ctx.assume('str.encode(\'unicode_escape\') encodes character by character (the table is cut out of the encoding of the string of all code points)')
    mj, mm, mt, mg = pf.load(F_JAVA), pf.load(F_MISC), pf.load(F_TYPES), pf.load(F_GRAMMAR)
    ctx.unit('files', 6)

    # ------------------------------------------------------------------ extraction
    esc = Escaper(ctx, mj, 'escape_parsable')
    delim, inner = _delimited(ctx, mj, esc.fn, esc.escaped_expr)
    ops = _pipeline(ctx, mj, esc.fn, inner, esc.param)
    ctx.need(ops[:1] == [('encode', 'unicodeescape')], f'{F_JAVA}::escape_parsable: the first step is not .encode(\'unicode_escape\') ({ops})')
    units_p = unicode_escape_units()
    for op in ops[1:]:
        if op[0] == 'decode' and op[1] in ('utf8', 'ascii', 'latin1'):
            continue
        if op[0] == 'replace':
            units_p = apply_replace(units_p, op[1], op[2], f'{F_JAVA}::escape_parsable')
            continue
        raise AnalysisError(f'{F_JAVA}::escape_parsable: step {op} is not modelled')
    ctx.unit('code_points_tabulated', R.MAXCP + 1)

    eid = Escaper(ctx, mm, 'escape_id')
    delim_id, inner_id = _delimited(ctx, mm, eid.fn, eid.escaped_expr)
    ctx.need(isinstance(inner_id, ast.Call) and pf.dotted(inner_id.func) == 'escape_str' and len(inner_id.args) == 1
             and pf.nsrc(inner_id.args[0]) == eid.param and [(k.arg, pf.nsrc(k.value)) for k in inner_id.keywords] == [('backticked', 'True')],
             f'{F_MISC}::escape_id: escaped form is not `escape_str(s, backticked=True)` ({pf.nsrc(inner_id)})')
    es = EscapeStr(ctx, mm)
    units_id = es.units(True)
    units_str = es.units(False)
    # parsable_strings: '"' + escape_str(s) + '"'
    ps = mm.func('parsable_strings')
    ps_ok = any(isinstance(n, ast.JoinedStr) and len(n.values) == 3 and pf.const_str(n.values[0]) == '"' and pf.const_str(n.values[2]) == '"'
                and isinstance(n.values[1], ast.FormattedValue) and pf.nsrc(n.values[1].value) == 'escape_str(s)' for n in ast.walk(ps))
    ctx.need(ps_ok, f'{F_MISC}::parsable_strings: elements are not rendered as "{{escape_str(s)}}"')

    grammar_text = sp.const_string(mg, None, ast.Name(id='type_grammar_str', ctx=ast.Load()))
    tg = sp.module_const(mg, 'type_grammar')
    ctx.need(isinstance(tg, ast.Call) and pf.dotted(tg.func) == 'Grammar' and [pf.nsrc(a) for a in tg.args] == ['type_grammar_str'],
             f'{F_GRAMMAR}: type_grammar is not Grammar(type_grammar_str)')
    G = P.parse_grammar(grammar_text, f'{F_GRAMMAR}::type_grammar_str')
    ctx.unit('grammar_rules', len(G.order))

    lex = S.irlexer_quoted_literal()
    ident = S.irlexer_identifier()
    tokens = S.irlexer_token_order()
    arms = S.unescape_string_arms()
    ctx.need(lex['decoder'] == 'unescapeString', f'{F_PARSER}: quotedLiteral decodes with {lex["decoder"]}, not unescapeString')
    ctx.unit('scala_extractors', 5)

    # ------------------------------------------------------------------ R1
    pat_simple, L_simple = G.regex_language('simple_identifier')
    L_java, java_origin = java_ident_language(ctx)
    ctx.need(ident['alternatives'] == ['backtickLiteral', 'ident'] or set(ident['alternatives']) == {'backtickLiteral', 'ident'},
             f'{F_PARSER}::IRLexer.identifier alternatives changed: {ident["alternatives"]}')
    ctx.need('identifier' in tokens, f'{F_PARSER}::IRLexer.token: no identifier alternative ({tokens})')
    w = R.included(esc.bare, L_simple)
    ctx.check(w is None, 'R1', f'{F_JAVA}::escape_parsable::bare names are simple_identifier',
              f'escape_parsable emits {_show(w)} without back-ticks (it matches {esc.rd.pattern!r} under {esc.mode}), but the type grammar\'s '
              f'simple_identifier {pat_simple!r} does not match it in full: the printed type does not parse back', mj.path, esc.test_line)
    ascii_only = R.lang(R.star(R.chars(R.pred('str.isascii'))), 'ASCII*')
    for e_, file_, m_ in ((esc, F_JAVA, mj), (eid, F_MISC, mm)):
        # (a) over ASCII names (the engine and Python agree on ASCII letters/digits: any difference here is a plain grammar mismatch)
        w = R.included(e_.bare & ascii_only, L_java)
        ctx.check(w is None, 'R1', f'{file_}::{e_.name}::bare ASCII names are JavaTokenParsers.ident',
                  f'{e_.name} emits the name {_show(w)} without back-ticks (it matches {e_.rd.pattern!r} under {e_.mode}), but that is not a Java identifier: '
                  f'IRLexer.ident does not read it as one identifier token', m_.path, e_.test_line)
        # (b) over all names
        w = R.included(e_.bare, L_java)
        ctx.check(w is None, 'R1', f'{file_}::{e_.name}::bare names are JavaTokenParsers.ident',
                  f'{e_.name} emits the name {_show(w)} without back-ticks (it matches {e_.rd.pattern!r} under {e_.mode}; Python\'s \\w accepts every '
                  f'str.isalnum() character), but U+{ord(w[-1]) if w else 0:04X} is not a Java identifier part ({java_origin}), so IRLexer.ident stops '
                  f'before it and the engine does not read the same name', m_.path, e_.test_line, detail={'java_tables': java_origin})

    # ------------------------------------------------------------------ R2
    L_backtick = scala_quoted_language(ident.get('backtick_delim', '`'), lex['escape_chars'], 'IRLexer.backtickLiteral')
    ctx.need(delim == ident.get('backtick_delim') and delim_id == delim, f'delimiters differ: python {delim!r}/{delim_id!r}, engine {ident.get("backtick_delim")!r}')
    acc_p = check_units_against(ctx, 'R2', f'{F_JAVA}::escape_parsable -> IRLexer.backtickLiteral', units_p, delim, L_backtick,
                                f'IRLexer.quotedLiteral (escapeChars {lex["literal"]}, Parser.scala:{lex["line"]})', esc.bare, mj.path, esc.test_line, 'escape_parsable')
    pat_esc, L_esc = G.regex_language('escaped_identifier')
    pfree = R.prefix_free(L_esc)
    ctx.check(pfree is None, 'R2', f'{F_GRAMMAR}::escaped_identifier::prefix-free',
              f'escaped_identifier {pat_esc!r} matches both {_show(pfree[0]) if pfree else ""} and its extension {_show(pfree[1]) if pfree else ""}: the PEG '
              'terminal may stop early or late', mg.path, 0)
    check_units_against(ctx, 'R2', f'{F_JAVA}::escape_parsable -> type_grammar.escaped_identifier', units_p, delim, L_esc,
                        f'the grammar terminal escaped_identifier {pat_esc!r}', esc.bare, mj.path, esc.test_line, 'escape_parsable')
    acc_id = check_units_against(ctx, 'R2', f'{F_MISC}::escape_id -> IRLexer.backtickLiteral', units_id, delim_id, L_backtick,
                                 f'IRLexer.quotedLiteral (escapeChars {lex["literal"]})', eid.bare, mm.path, eid.test_line, 'escape_id (escape_str, backticked=True)')
    L_dq = scala_quoted_language('"', lex['escape_chars'], 'IRLexer.stringLiteral')
    acc_str = check_units_against(ctx, 'R2', f'{F_MISC}::parsable_strings -> IRLexer.stringLiteral', units_str, '"', L_dq,
                                  f'IRLexer.quotedLiteral(\'"\') (escapeChars {lex["literal"]})', None, mm.path, ps.lineno, 'parsable_strings (escape_str)')
    # whole languages (all combinations of accepted units)
    for label, units, dl, tgt, acc in (('escape_id', units_id, delim_id, L_backtick, acc_id), ('parsable_strings', units_str, '"', L_dq, acc_str)):
        good = [u for u in split_by_width(units) if acc.get(u.kind(), False)]
        w = R.included(emitted_language(good, dl, label), tgt) if good else None
        ctx.check(w is None, 'R2', f'{F_MISC}::{label}::all combinations of accepted units',
                  f'units are accepted one by one but the combination {_show(w)} is not', mm.path, 0)
    good = [u for u in split_by_width(units_p) if acc_p.get(u.kind(), False)]
    w = R.included(emitted_language(good, delim, 'escape_parsable'), L_backtick)
    ctx.check(w is None, 'R2', f'{F_JAVA}::escape_parsable::all combinations of accepted units', f'units are accepted one by one but the combination {_show(w)} is not',
              mj.path, 0)

    # ------------------------------------------------------------------ R5
    def decode_check(label: str, file_: str, path_: str, line_: int, units: List[Unit], dl: str, acc: Dict[str, bool]) -> None:
        by_kind: Dict[str, List[Unit]] = {}
        for u in split_by_width(units):
            by_kind.setdefault(u.kind(), []).append(u)
        for kind, us in by_kind.items():
            if not acc.get(kind, False):
                continue  # not accepted by the lexer at all: reported under R2
            bad = None
            cand = [(cp, u) for u in us for cp in u.examples()]
            cand += [(c0, u) for u in us for c0 in (0x5C, ord(dl)) if u.lo <= c0 <= u.hi and any(p[0] == 'self' for p in u.parts)]
            for cp, u in sorted(cand, key=lambda t: (t[0] not in (0xE9, 0x1F600, 0x4E2D), t[0])):
                got = scala_decode(u.output(cp), arms)
                if got != utf16(cp):
                    bad = (cp, u.output(cp), got)
                    break
            cons = f'{file_}::{label}::unit {kind} decodes to the same character'
            if bad is None:
                ctx.ok('R5', cons, {'code_points': sum(u.hi - u.lo + 1 for u in us)})
            else:
                cp, text, got = bad
                gs = 'an error' if got is None else 'nothing (the escape is incomplete and swallows what follows)' if not got else 'the UTF-16 units ' + ' '.join(f'U+{x:04X}' for x in got) + f' ({ascii("".join(chr(x) for x in got))})'
                ctx.bad('R5', cons, f'{label} renders U+{cp:04X} as {ascii(text)}; the lexer accepts it but StringEscapeUtils.unescapeString '
                        f'(\\{arms["unicode_intro"]} reads exactly {arms["unicode_width"]} hex digits) decodes it to {gs} instead of '
                        f'U+{cp:04X} (UTF-16 ' + ' '.join(f'U+{x:04X}' for x in utf16(cp)) + '): the engine sees a different name', path_, line_)
    decode_check('escape_parsable', F_JAVA, mj.path, esc.test_line, units_p, delim, acc_p)
    decode_check('escape_id', F_MISC, mm.path, es.loop.lineno, units_id, delim_id, acc_id)
    decode_check('parsable_strings', F_MISC, mm.path, es.loop.lineno, units_str, '"', acc_str)

    # ------------------------------------------------------------------ R3
    une = mj.func('unescape_parsable')
    up = [a.arg for a in une.args.args]
    ubody = [s for s in une.body if not (isinstance(s, ast.Expr) and isinstance(s.value, ast.Constant))]
    ctx.need(len(up) == 1 and len(ubody) == 1 and isinstance(ubody[0], ast.Return) and ubody[0].value is not None, f'{F_JAVA}::unescape_parsable: unrecognised body')
    uops = _pipeline(ctx, mj, une, ubody[0].value, up[0])  # type: ignore[arg-type]

    def inverse(op: tuple) -> tuple:
        if op[0] == 'encode':
            return ('decode', op[1])
        if op[0] == 'decode':
            return ('encode', op[1])
        return ('replace', op[2], op[1])
    want = [inverse(op) for op in reversed(ops)]
    ctx.check(uops == want, 'R3', f'{F_JAVA}::unescape_parsable::mirror of escape_parsable',
              f'escape_parsable applies {ops}; its inverse is {want}, but unescape_parsable applies {uops}: a printed name does not come back unchanged '
              f'(e.g. a name containing {delim!r} or a backslash)', mj.path, une.lineno, detail={'escape': [list(o) for o in ops], 'unescape': [list(o) for o in uops]})
    # the visitor strips exactly the delimiters
    vis = mg.cls('TypeConstructor')
    vm = _method(vis, 'visit_escaped_identifier')
    ctx.need(vm is not None, f'{F_GRAMMAR}: visit_escaped_identifier vanished')
    rets = [n for n in ast.walk(vm) if isinstance(n, ast.Return)]  # type: ignore[arg-type]
    ok = len(rets) == 1 and pf.nsrc(rets[0].value) == f'unescape_parsable(node.text[{len(delim)}:-{len(delim)}])'
    ctx.check(ok, 'R3', f'{F_GRAMMAR}::TypeConstructor.visit_escaped_identifier',
              f'returns `{pf.nsrc(rets[0].value) if rets else "?"}`, expected unescape_parsable(node.text[1:-1]) (strip the two back-ticks, then unescape)',
              mg.path, vm.lineno if vm else 0)
    vs = _method(vis, 'visit_simple_identifier')
    ctx.need(vs is not None, f'{F_GRAMMAR}: visit_simple_identifier vanished')
    rets = [n for n in ast.walk(vs) if isinstance(n, ast.Return)]  # type: ignore[arg-type]
    ctx.check(len(rets) == 1 and pf.nsrc(rets[0].value) == 'node.text', 'R3', f'{F_GRAMMAR}::TypeConstructor.visit_simple_identifier',
              f'returns `{pf.nsrc(rets[0].value) if rets else "?"}`, expected the matched text unchanged', mg.path, vs.lineno if vs else 0)
    ctx.need(sp.imports_of(mg).get('unescape_parsable', '').endswith('utils.java.unescape_parsable'), f'{F_GRAMMAR}: unescape_parsable is not imported from hail.utils.java')
    ctx.need(sp.imports_of(mt).get('escape_parsable', '').endswith('utils.java.escape_parsable'), f'{F_TYPES}: escape_parsable is not imported from utils.java')
    # every name printed goes through escape_parsable
    classes = _hail_classes(ctx, mt)
    par = mt.parents()
    for cname, attr_desc in (('tstruct', 'field name'), ('tlocus', 'reference genome name')):
        c = classes.get(cname)
        ctx.need(c is not None, f'{F_TYPES}: class {cname} vanished')
        for mname in ('__str__', '_parsable_string', '_pretty'):
            meth = _method(c, mname)  # type: ignore[arg-type]
            ctx.need(meth is not None, f'{F_TYPES}::{cname}.{mname} vanished')
            uses: List[ast.AST] = []
            if cname == 'tstruct':
                # loop variables bound to field names: first element of the target of an iteration over self.items()
                fvars = set()
                for n in ast.walk(meth):  # type: ignore[arg-type]
                    it, tgt = None, None
                    if isinstance(n, ast.comprehension):
                        it, tgt = n.iter, n.target
                    elif isinstance(n, ast.For):
                        it, tgt = n.iter, n.target
                    if it is None:
                        continue
                    src = pf.nsrc(it)
                    if src == 'self.items()' and isinstance(tgt, ast.Tuple) and isinstance(tgt.elts[0], ast.Name):
                        fvars.add(tgt.elts[0].id)
                    elif src == 'enumerate(self.items())' and isinstance(tgt, ast.Tuple) and len(tgt.elts) == 2 and isinstance(tgt.elts[1], ast.Tuple) \
                            and isinstance(tgt.elts[1].elts[0], ast.Name):
                        fvars.add(tgt.elts[1].elts[0].id)
                    elif 'self.items()' in src or 'self._fields' in src or 'self.fields' in src or 'self._field_types' in src:
                        raise AnalysisError(f'{F_TYPES}::{cname}.{mname}: iteration `{src}` over the fields not recognised')
                uses = [n for n in ast.walk(meth) if isinstance(n, ast.Name) and n.id in fvars and isinstance(n.ctx, ast.Load)]  # type: ignore[arg-type]
                if not fvars and mname != '_pretty' or (mname == '_pretty' and not fvars):
                    ctx.need(bool(fvars), f'{F_TYPES}::{cname}.{mname}: no iteration over self.items() found')
            else:
                uses = [n for n in ast.walk(meth) if isinstance(n, ast.Attribute) and isinstance(n.value, ast.Name) and n.value.id == 'self'  # type: ignore[arg-type]
                        and n.attr in ('reference_genome', '_rg')]
                ctx.need(bool(uses), f'{F_TYPES}::{cname}.{mname}: does not mention the reference genome')
            raw = []
            for u in uses:
                cur: Optional[ast.AST] = u
                wrapped = False
                while cur is not None and cur is not meth:
                    p = par.get(cur)
                    if isinstance(p, ast.Call) and pf.dotted(p.func) == 'escape_parsable' and cur in p.args:
                        wrapped = True
                        break
                    cur = p
                if not wrapped:
                    # only a use that flows into the printed text is a violation; anything else is a shape we do not know
                    cur2: Optional[ast.AST] = u
                    printing = False
                    while cur2 is not None and cur2 is not meth:
                        p2 = par.get(cur2)
                        if isinstance(p2, ast.Attribute) or (isinstance(p2, ast.Call) and pf.dotted(p2.func) == 'str' and cur2 in p2.args):
                            cur2 = p2
                            continue
                        printing = isinstance(p2, (ast.FormattedValue, ast.JoinedStr)) or (isinstance(p2, ast.BinOp) and isinstance(p2.op, ast.Add)) or \
                            (isinstance(p2, ast.Call) and isinstance(p2.func, ast.Attribute) and p2.func.attr in ('format', 'append', 'join', 'write') and cur2 in p2.args)
                        break
                    ctx.need(printing, f'{F_TYPES}::{cname}.{mname}: use of `{pf.nsrc(u)}` (line {getattr(u, "lineno", 0)}) is neither wrapped in '
                                       f'escape_parsable nor a recognised printing context')
                    raw.append(u)
            ctx.check(not raw, 'R3', f'{F_TYPES}::{cname}.{mname}::{attr_desc} printed through escape_parsable',
                      f'{cname}.{mname} prints the {attr_desc} `{pf.nsrc(raw[0]) if raw else ""}` without escape_parsable (line {getattr(raw[0], "lineno", 0) if raw else 0}): '
                      f'a name such as \'a b\' or \'x`y\' is printed raw and the result does not parse back', mt.path, meth.lineno if meth else 0,
                      detail={'uses': len(uses)})

    # ------------------------------------------------------------------ R4
    bare_dfa = R.to_dfa(esc.bare, R.alphabet_for([esc.bare]))
    flat_p = split_by_width(units_p)
    names = ['a', 'x_1', 'a b', '`', '\\', 'é', '1a', '', '\n', '\U0001f600', 'int32', 'a:b', '}', "it's", 'tab\there']
    ident_samples = [n if bare_dfa.accepts(n) else delim + encode_with(flat_p, n) + delim for n in names]
    type_samples = ['int32', 'struct{`a b`: str}', 'array<float64>']
    T = Templates(ctx, mt, type_samples, ident_samples)
    type_rule = G.rules.get('type')
    ctx.need(type_rule is not None and type_rule[0] == 'seq' and any(x[0] == 'alt' for x in type_rule[1]), f'{F_GRAMMAR}: rule `type` is not `_ ( alternatives ) _`')
    alternatives = [x[1] for x in [y for y in type_rule[1] if y[0] == 'alt'][0][1] if x[0] == 'ref']  # type: ignore[index]
    visitors = {st.name[len('visit_'):]: st for st in vis.body if isinstance(st, ast.FunctionDef) and st.name.startswith('visit_')}
    rule_class: Dict[str, Optional[str]] = {}
    for alt in alternatives:
        vmeth = visitors.get(alt)
        ctx.check(vmeth is not None, 'R4', f'{F_GRAMMAR}::type alternative {alt} has a visitor',
                  f'`type` lists the alternative {alt} but TypeConstructor has no visit_{alt}: generic_visit would return a list instead of a type', mg.path, 0)
        if vmeth is not None:
            rule_class[alt] = _visitor_class(ctx, mg, mt, classes, vmeth)
    # arity of tuple-unpacking visitors
    for rname, vmeth in visitors.items():
        if rname not in G.rules:
            ctx.bad('R4', f'{F_GRAMMAR}::visit_{rname}::rule exists', f'visit_{rname} has no rule `{rname}` in type_grammar_str (dead visitor: renamed rule?)',
                    mg.path, vmeth.lineno)
            continue
        ar = P.top_sequence_arity(G, rname)
        for st in vmeth.body:
            if isinstance(st, ast.Assign) and pf.nsrc(st.value) == 'visited_children' and isinstance(st.targets[0], (ast.Tuple, ast.List)):
                n_t = len(st.targets[0].elts)
                ctx.check(ar is not None and n_t == ar, 'R4', f'{F_GRAMMAR}::visit_{rname}::arity',
                          f'visit_{rname} unpacks visited_children into {n_t} names but rule `{rname}` has {ar} members: ValueError at parse time',
                          mg.path, st.lineno)
    # printed forms
    n_samples = 0
    for cname, c in classes.items():
        meth = _method(c, '__str__')
        if meth is None:
            continue
        cons = f'{F_TYPES}::{cname}.__str__::parses back as {cname}'
        try:
            samples = T.samples(meth)
        except AnalysisError as e:
            if cname in ('tvariable',):
                ctx.info(f'{cname}.__str__ is not a single template; not covered ({e})')
                continue
            raise
        wrong = None
        for text in samples:
            n_samples += 1
            try:
                node = G.parse(text)
            except P.ParseFailure as e:
                wrong = f'the printed form {ascii(text)} does not parse with type_grammar ({e})'
                break
            chosen = node.first_rule_below()
            rname = chosen.label if chosen is not None else None
            if rule_class.get(rname or '') != cname:
                wrong = (f'the printed form {ascii(text)} is parsed by the alternative `{rname}`, whose visitor builds '
                         f'{rule_class.get(rname or "")}, not {cname} (ordered choice commits to the first alternative that matches)')
                break
        ctx.check(wrong is None, 'R4', cons, wrong or '', mt.path, meth.lineno, detail={'samples': len(samples)})
    ctx.unit('printed_forms_parsed', n_samples)

    # ------------------------------------------------------------------ R6
    cases = S.irparser_type_cases()
    psrc = S.load(F_PARSER)
    pspan = psrc.find_object('IRParser')
    def_names = set(re.findall(r'\bdef\s+(\w+)', psrc.code[pspan[0]:pspan[1]])) - {'type_expr', 'ptype_expr', 'identifier', 'punctuation', 'error'}

    def arm_closure(text: str, depth: int = 3) -> str:
        """The arm plus the bodies of the IRParser helper defs it mentions (transitively, bounded), type_expr itself excluded."""
        seen: set = set()
        out = [text]
        frontier = [text]
        for _ in range(depth):
            nxt = []
            for t in frontier:
                for w in set(re.findall(r'\b[A-Za-z_][A-Za-z_0-9]*\b', t)) & def_names - seen:
                    seen.add(w)
                    for _st, lo, hi, _sig in psrc.find_defs(w, pspan):
                        body = psrc.norm(lo, hi)
                        out.append(body)
                        nxt.append(body)
            frontier = nxt
        return ' '.join(out)
    punct_pat = [t for t in tokens if t.endswith('.r')]
    ctx.need(len(punct_pat) == 1, f'{F_PARSER}::IRLexer.token: punctuation alternative not found')
    punct_class = R.from_regex(S.scala_string_value(punct_pat[0][:-2], F_PARSER), 0, 'fullmatch')
    T2 = Templates(ctx, mt, ['Int32'], ['a', '`a b`'])
    for cname, c in classes.items():
        meth = _method(c, '_parsable_string')
        if meth is None:
            continue
        body = [s for s in meth.body if not (isinstance(s, ast.Expr) and isinstance(s.value, ast.Constant))]
        if len(body) == 1 and isinstance(body[0], ast.Raise):
            continue
        samples = T2.samples(meth)
        cons = f'{F_TYPES}::{cname}._parsable_string::engine syntax'
        text = max(samples, key=len)
        km = re.match(r'[A-Za-z_][A-Za-z_0-9]*', text)
        ctx.need(km is not None, f'{cname}._parsable_string: sample {text!r} does not start with a keyword')
        kw = km.group()  # type: ignore[union-attr]
        if kw not in cases:
            if cname == '_trngstate':
                ctx.info(f'{cname}._parsable_string() prints {kw!r}, which has no arm in IRParser.type_expr (scala.MatchError if such a type string is ever sent); '
                         'the statement only requires acceptance by the lexer, so this is reported as information')
                ctx.ok('R6', cons, 'keyword has no parser arm; lexically an identifier (see INFO)', nontrivial=False)
                continue
            ctx.bad('R6', cons, f'{cname}._parsable_string() prints the keyword {kw!r}, which IRParser.type_expr does not know ({sorted(cases)})', mt.path, meth.lineno)
            continue
        arm = arm_closure(cases[kw])
        # punctuation printed (outside names and child types): take it from the template with children removed
        skeleton = text
        for child in ('Int32', '`a b`', 'a'):
            skeleton = skeleton.replace(child, ' ')
        skeleton = skeleton.replace(kw, ' ', 1)
        puncts = [ch for ch in skeleton if not ch.isspace() and not ch.isalnum()]
        problems = []
        for ch in dict.fromkeys(puncts):
            if not R.accepts(punct_class, ch):
                problems.append(f'{ch!r} is not a punctuation token of IRLexer')
            elif f'punctuation(it, "{ch}")' not in arm and f'PunctuationToken("{ch}")' not in arm:
                problems.append(f'the arm `case "{kw}"` never consumes {ch!r}')
        ctx.check(not problems, 'R6', cons, f'{cname}._parsable_string() prints e.g. {text!r}: ' + '; '.join(problems), mt.path, meth.lineno,
                  detail={'keyword': kw, 'punctuation': ''.join(dict.fromkeys(puncts))})
