"""C31 Hail type strings round-trip.

Decides (from the syntax trees / text of hail/expr/types.py, hail/expr/type_parsing.py, hail/utils/java.py, hail/utils/misc.py,
is/hail/expr/ir/Parser.scala and is/hail/utils/StringEscapeUtils.scala; nothing of the repository is run):
  R1  bare identifiers.  The language of names emitted WITHOUT back-ticks (escape_parsable: `_parsable_str` with the matching mode
      used; escape_id: its own regex) is included in (a) the Python type grammar's `simple_identifier` and (b) the engine's
      `JavaTokenParsers.ident` = JavaIdentifierStart JavaIdentifierPart* over UTF-16 units (the two predicates are tabulated from
      the installed JDK for every char); decided once over ASCII names and once over all names.
  R2  escapes.  The escapers are turned into UNIT TABLES (code-point range -> emitted text): escape_parsable from the platform's
      unicode_escape codec (tabulated for every code point) followed by the extracted `.replace`, escape_str/escape_id by symbolic
      evaluation of the per-character loop over code-point ranges.  Per unit kind, delimiter+unit+delimiter must be in (a) the
      engine lexer's quotedLiteral language (escapeChars extracted from Parser.scala), (b) for escape_parsable also the Python
      grammar's `escaped_identifier` (which must be prefix-free so that PEG matching is exact).
  R3  unescape_parsable is the mirror image of escape_parsable (inverse steps in reverse order, delimiter stripped by the
      visitor); every struct field name / reference genome name printed by tstruct / tlocus goes through escape_parsable.
  R4  printed forms parse back: the type grammar TEXT is read by our own PEG interpreter; for every HailType class the `__str__`
      template is instantiated with sample children / field names and must parse in full through the rule whose visitor constructs
      that very class; visitor tuple-unpacking arity == number of sequence members of the rule; every alternative has a visitor.
  R5  the engine decodes what it accepts: for every unit kind the lexer lets through, StringEscapeUtils.unescapeString (arms
      extracted) maps the emitted text back to the same UTF-16 code units.
  R6  engine type syntax: the keyword of every `_parsable_string` template has an arm in IRParser.type_expr, whose body consumes
      the punctuation the template prints.
  R7  hl.dtype returns the parse of ITS OWN argument (abstract data flow over dtype and the helpers it calls, across modules): every
      return is visit(parse(T(arg))) with T the identity or a transformation the GRAMMAR makes harmless (strip(): the start rule begins and
      ends with a greedy whitespace terminal covering what is stripped), or a read of a memo container whose key K(arg) is injective with
      respect to the parse (closed table: the argument, tuples / str() / constant affixes of it, strip) and that is only written with the
      value parsed from the same text under the same key; functools caches are keyed by the argument itself.  For other key / input
      transformations the expression is EVALUATED on the printed forms of the sample types: a collision of two texts that denote different
      types (replayed through dtype in a fresh modelled process) is reported with the concrete history; no collision -> decline.  The
      visitor class keeps no state; a printer that remembers its text only reads attributes fixed at construction.
  R8  semantic round trip by evaluation (engines/pyconc.py, our own evaluator; the repository is parsed, never run): sample instances of
      every HailType class (constructor argument kinds from the typecheck decorator; field / genome names from a battery of colliding and
      hostile names; nested positions) are printed with the interpreted `__str__` / `pretty`, parsed by the interpreted hl.dtype (grammar:
      peglite; parsimonious node shapes and NodeVisitor.visit modelled) and compared with the interpreted `==`; in two modelled processes
      (sample order / reverse order) so that a result that depends on earlier calls shows.
  R9  the engine reading: IRLexer.token and IRParser.type_expr (arm scripts: punctuation / identifier / int32_literal / type_expr /
      repsepUntil / struct_field, extracted fail-closed) are run on `_parsable_string()` of every sample; the text must be consumed in full
      and yield the same constructor structure, names (after unescapeString) and dimensions as the Python grammar reads from `str()`;
      constructor arguments of each arm in reading order.
Does not decide: equality beyond the sampled instances (R4/R8/R9 sample; R1/R2/R5/R7 are exhaustive over their domains); tvariable;
parsimonious >= 0.10 matches regex terminals with the third-party `regex` module (not installed here) whose \\w differs from `re` for
a few code points - `re` semantics are assumed.
"""
from __future__ import annotations

import ast
import os
import re
import subprocess
import tempfile
import unicodedata
from typing import Any, Dict, List, Optional, Sequence, Tuple

from engines import peglite as P
from engines import pyconc as C
from engines import pyfacts as pf
from engines import relang as R
from engines import scalalite as S
from engines import strpred as sp
from engines.common import AnalysisError, Ctx

META = dict(
    category='other',
    text='Lexical agreement between the Python printers/escapers, the Python type grammar and the engine lexer is decided exactly on '
         'regular languages over all Unicode code points (inclusions by DFA product with shortest witnesses, per escape-unit kind); '
         'the print/parse round trip is decided per type class by interpreting the grammar text with our own PEG interpreter on '
         'instantiated print templates (structural induction over the type constructors, sampled field names); hl.dtype is decided by abstract '
         'data flow (its result is the parse of its own argument; memo keys injective with respect to the parse, lossy keys shown by a concrete '
         'colliding history); printers, dtype, the visitor and the engine parser are evaluated / modelled on sample types of every class. '
         'Sampling of field names and children in R4/R8/R9 keeps the level at other.',
    note='Trusted: CPython ast/re._parser, the unicode_escape codec and str predicates of the running interpreter, '
         'Character.isJavaIdentifierStart/Part of the installed JDK (fallback: unicodedata categories), the definition of '
         'scala-parser-combinators JavaTokenParsers.ident, engines/relang.py, peglite.py, scalalite.py, strpred.py, pyconc.py (our evaluator of a '
         'Python subset), the models of parsimonious Grammar / NodeVisitor and of the reference-genome registry. Assumes regex '
         'terminals of the grammar follow stdlib `re` semantics.',
    technique='static analysis: regular-language inclusion over a Unicode partition, symbolic evaluation of escapers into unit tables, '
              'PEG interpretation of the extracted grammar text, fail-closed Scala fragment extraction, inter-procedural abstract data flow, '
              'concrete evaluation of extracted syntax trees with our own interpreter',
    design_ref='DESIGN.md §3 C31',
)

F_TYPES = 'hail/python/hail/expr/types.py'
F_GRAMMAR = 'hail/python/hail/expr/type_parsing.py'
F_JAVA = 'hail/python/hail/utils/java.py'
F_MISC = 'hail/python/hail/utils/misc.py'
F_PARSER = S.PARSER_SCALA
F_ESCUTIL = S.ESCAPE_UTILS_SCALA

# --------------------------------------------------------------------------------------
# platform tables
# --------------------------------------------------------------------------------------

_java_cache: Optional[Tuple[R.CharSet, R.CharSet, str]] = None

_JAVA_SRC = '''public class IdTab {
    public static void main(String[] a) {
        StringBuilder sb = new StringBuilder();
        for (int which = 0; which < 2; which++) {
            boolean prev = false; int start = 0;
            for (int c = 0; c <= 0x10000; c++) {
                boolean v = c <= 0xFFFF && (which == 0 ? Character.isJavaIdentifierStart((char) c) : Character.isJavaIdentifierPart((char) c));
                if (v && !prev) start = c;
                if (!v && prev) sb.append(Integer.toHexString(start)).append('-').append(Integer.toHexString(c - 1)).append(',');
                prev = v;
            }
            sb.append('\\n');
        }
        sb.append(System.getProperty("java.version")).append('\\n');
        System.out.print(sb);
    }
}
'''


def java_identifier_tables(ctx: Ctx) -> Tuple[R.CharSet, R.CharSet, str]:
    """(isJavaIdentifierStart, isJavaIdentifierPart) of `char` values 0..0xFFFF, from the installed JDK (platform definition)."""
    global _java_cache
    if _java_cache is not None:
        return _java_cache
    out = None
    tmp = tempfile.mkdtemp(prefix='verif_c31_java_')
    try:
        path = os.path.join(tmp, 'IdTab.java')
        with open(path, 'w') as fh:
            fh.write(_JAVA_SRC)
        try:
            p = subprocess.run(['java', '-XX:TieredStopAtLevel=1', path], capture_output=True, text=True, timeout=60, cwd=tmp)
            if p.returncode == 0 and p.stdout.count('\n') >= 3:
                out = p.stdout
        except (OSError, subprocess.SubprocessError):
            out = None
    finally:
        for f in os.listdir(tmp):
            os.unlink(os.path.join(tmp, f))
        os.rmdir(tmp)
    if out is not None:
        lines = out.split('\n')

        def parse(line: str) -> R.CharSet:
            rs = []
            for part in line.split(','):
                if part:
                    a, b = part.split('-')
                    rs.append((int(a, 16), int(b, 16)))
            return R.CharSet(rs)
        _java_cache = (parse(lines[0]), parse(lines[1]), f'JDK {lines[2].strip()}')
        ctx.trusted_base.append(f'Character.isJavaIdentifierStart/Part(char) tabulated from the installed {_java_cache[2]}')
        return _java_cache
    # fallback: the documented definition over unicodedata general categories
    start_cat = {'Lu', 'Ll', 'Lt', 'Lm', 'Lo', 'Nl', 'Sc', 'Pc'}
    part_cat = start_cat | {'Nd', 'Mn', 'Mc', 'Cf'}
    st, pt = [], []
    for c in range(0x10000):
        cat = unicodedata.category(chr(c))
        ign = c <= 8 or 0xE <= c <= 0x1B or 0x7F <= c <= 0x9F
        st.append(cat in start_cat)
        pt.append(cat in part_cat or ign)
    ctx.assume('`java` is not available: Character.isJavaIdentifierStart/Part are approximated from unicodedata general categories '
               f'(Unicode {unicodedata.unidata_version}), which may differ from the JDK\'s Unicode version')
    _java_cache = (R.from_table('java.start.fallback', st + [False] * (R.MAXCP + 1 - 0x10000)),
                   R.from_table('java.part.fallback', pt + [False] * (R.MAXCP + 1 - 0x10000)), 'unicodedata fallback')
    return _java_cache


def java_ident_language(ctx: Ctx) -> Tuple[R.Lang, str]:
    """JavaTokenParsers.ident over CODE POINTS: a supplementary code point is two surrogate chars, each of which must satisfy the
    char predicate."""
    start, part, origin = java_identifier_tables(ctx)
    hi_sur, lo_sur = R.CharSet([(0xD800, 0xDBFF)]), R.CharSet([(0xDC00, 0xDFFF)])

    def lift(cs: R.CharSet) -> R.CharSet:
        # supplementary code points qualify only if every high and low surrogate involved does; decide uniformly (all or nothing)
        if hi_sur.issubset(cs) and lo_sur.issubset(cs):
            return cs | R.CharSet([(0x10000, R.MAXCP)])
        if not (hi_sur & cs) or not (lo_sur & cs):
            return cs
        raise AnalysisError('Java identifier tables accept only some surrogates; the code-point lifting is not uniform')
    s2, p2 = lift(start), lift(part)
    return R.lang(R.seq(R.chars(s2), R.star(R.chars(p2))), 'JavaIdentifierStart JavaIdentifierPart*'), origin


# ---- unit tables ------------------------------------------------------------------------
# a unit: (lo, hi, parts)  parts: list of ('lit', text) | ('self',) | ('hex', min_width, upper)


class Unit:
    __slots__ = ('lo', 'hi', 'parts')

    def __init__(self, lo: int, hi: int, parts: List[tuple]):
        self.lo, self.hi, self.parts = lo, hi, parts

    def kind(self) -> str:
        out = []
        for p in self.parts:
            if p[0] == 'lit':
                out.append(p[1])
            elif p[0] == 'self':
                out.append('<the character itself>')
            else:
                out.append('N' * max(p[1], len(f'{self.hi:x}')) if len(f'{self.lo:x}') == len(f'{self.hi:x}') or p[1] >= len(f'{self.hi:x}')
                           else 'N' * p[1] + '+')
        return ''.join(out)

    def output(self, cp: int) -> str:
        out = []
        for p in self.parts:
            if p[0] == 'lit':
                out.append(p[1])
            elif p[0] == 'self':
                out.append(chr(cp))
            else:
                out.append(format(cp, f'0{p[1]}{"X" if p[2] else "x"}'))
        return ''.join(out)

    def regex(self) -> R.Re:
        kinds = [p[0] for p in self.parts]
        if kinds.count('self') + kinds.count('hex') > 1:
            raise AnalysisError('unit with more than one character-dependent part')
        items: List[R.Re] = []
        for p in self.parts:
            if p[0] == 'lit':
                items.append(R.lit(p[1]))
            elif p[0] == 'self':
                items.append(R.chars(R.CharSet([(self.lo, self.hi)])))
            else:
                width, upper = p[1], p[2]
                digits = '0123456789ABCDEF' if upper else '0123456789abcdef'
                alts = []
                d = max(width, 1)
                lo = self.lo
                while lo <= self.hi:
                    top = 16 ** d - 1
                    if lo <= top:
                        alts.append(R.numeral_range(lo, min(self.hi, top), d, digits))
                        lo = min(self.hi, top) + 1
                    d += 1
                items.append(alts[0] if len(alts) == 1 else R.alt(*alts))
        return R.seq(*items)

    def examples(self) -> List[int]:
        """Code points that exercise every digit count of the unit (plus a friendly one)."""
        out = {self.lo, self.hi}
        for nice in (0xE9, 0x1F600, 0x4E2D, ord('a'), ord(' ')):
            if self.lo <= nice <= self.hi:
                out.add(nice)
        d = 1
        while 16 ** d <= self.hi:
            if self.lo <= 16 ** d <= self.hi:
                out.add(16 ** d)
                out.add(16 ** d - 1) if self.lo <= 16 ** d - 1 else None
            d += 1
        return sorted(out)


def split_by_width(units: List[Unit]) -> List[Unit]:
    """Split hex units so that every unit has ONE digit count (kind labels then name the width exactly)."""
    out = []
    for u in units:
        hexp = [p for p in u.parts if p[0] == 'hex']
        if not hexp:
            out.append(u)
            continue
        w = hexp[0][1]
        lo = u.lo
        d = max(w, 1)
        while lo <= u.hi:
            top = 16 ** d - 1
            if lo <= top:
                out.append(Unit(lo, min(u.hi, top), [(p if p[0] != 'hex' else ('hex', d, p[2])) for p in u.parts]))
                lo = min(u.hi, top) + 1
            d += 1
    return out


_codec_cache: Optional[List[Unit]] = None


def unicode_escape_units() -> List[Unit]:
    """The unit table of str.encode('unicode_escape') of the running interpreter, tabulated over ALL code points by encoding the
    string of all code points once and cutting the result into runs (platform definition, like unicodedata)."""
    global _codec_cache
    if _codec_cache is not None:
        return _codec_cache
    data = R._all_chars().encode('unicode_escape')
    units: List[Unit] = []
    cp = 0
    pat = re.compile(rb'(?P<x>(?:\\x[0-9a-f]{2})+)|(?P<u>(?:\\u[0-9a-f]{4})+)|(?P<U>(?:\\U[0-9a-f]{8})+)|(?P<c>\\[^xuU])|(?P<raw>[^\\]+)', re.S)
    pos = 0
    for m in pat.finditer(data):
        if m.start() != pos:
            raise AnalysisError('unicode_escape tabulation: unexpected output shape')
        pos = m.end()
        kind = m.lastgroup
        text = m.group().decode('ascii')
        if kind in ('x', 'u', 'U'):
            w = {'x': 2, 'u': 4, 'U': 8}[kind]
            n = len(text) // (2 + w)
            first, last = text[:2 + w], text[-(2 + w):]
            if first != f'\\{kind}{cp:0{w}x}' or last != f'\\{kind}{cp + n - 1:0{w}x}':
                raise AnalysisError('unicode_escape tabulation: escapes are not the code point numerals in order')
            units.append(Unit(cp, cp + n - 1, [('lit', '\\' + kind), ('hex', w, False)]))
            cp += n
        elif kind == 'c':
            units.append(Unit(cp, cp, [('lit', text)]))
            cp += 1
        else:
            n = len(text)
            if text != ''.join(map(chr, range(cp, cp + n))):
                raise AnalysisError('unicode_escape tabulation: raw run is not the identity')
            units.append(Unit(cp, cp + n - 1, [('self',)]))
            cp += n
    if pos != len(data) or cp != R.MAXCP + 1:
        raise AnalysisError(f'unicode_escape tabulation covered {cp} code points')
    _codec_cache = units
    return units


def apply_replace(units: List[Unit], a: str, b: str, where: str) -> List[Unit]:
    """Effect of `.replace(a, b)` on a character-wise encoder's output, for a one-character a."""
    if len(a) != 1:
        raise AnalysisError(f'{where}: .replace({a!r}, ...) with a multi-character pattern can span units; not modelled')
    ca = ord(a)
    out: List[Unit] = []
    for u in units:
        if any(p[0] == 'hex' for p in u.parts) and a in '0123456789abcdefABCDEF':
            raise AnalysisError(f'{where}: .replace of a hex digit is not modelled')
        parts = [('lit', p[1].replace(a, b)) if p[0] == 'lit' else p for p in u.parts]
        if any(p[0] == 'self' for p in parts) and u.lo <= ca <= u.hi:
            if u.lo < ca:
                out.append(Unit(u.lo, ca - 1, parts))
            out.append(Unit(ca, ca, [('lit', b) if p[0] == 'self' else p for p in parts]))
            if ca < u.hi:
                out.append(Unit(ca + 1, u.hi, parts))
        else:
            out.append(Unit(u.lo, u.hi, parts))
    return out


def emitted_language(units: List[Unit], delim: str, label: str) -> R.Lang:
    return R.lang(R.seq(R.lit(delim), R.star(R.alt(*[u.regex() for u in units])), R.lit(delim)), label)


def encode_with(units: List[Unit], s: str) -> str:
    out = []
    for ch in s:
        cp = ord(ch)
        for u in units:
            if u.lo <= cp <= u.hi:
                out.append(u.output(cp))
                break
        else:
            raise AnalysisError(f'unit table has no entry for U+{cp:04X}')
    return ''.join(out)


# --------------------------------------------------------------------------------------
# Python side extraction
# --------------------------------------------------------------------------------------


def _norm_codec(c: str) -> str:
    return c.lower().replace('-', '').replace('_', '')


def _pipeline(ctx: Ctx, m: pf.Module, fn: pf.FuncDef, e: ast.AST, param: str) -> List[tuple]:
    """Chain of string operations applied to `param`, innermost first: ('encode', codec) ('decode', codec) ('replace', a, b)."""
    ops: List[tuple] = []
    cur = e
    while True:
        if isinstance(cur, ast.Name) and cur.id == param:
            break
        if isinstance(cur, ast.Call) and isinstance(cur.func, ast.Attribute) and not cur.keywords:
            attr = cur.func.attr
            args = [sp.const_string(m, fn, a) for a in cur.args]
            if attr in ('encode', 'decode') and len(args) == 1:
                ops.append((attr, _norm_codec(args[0])))
            elif attr == 'replace' and len(args) == 2:
                ops.append(('replace', args[0], args[1]))
            else:
                raise AnalysisError(f'{m.rel}::{fn.name}: unrecognised string operation `{pf.nsrc(cur)[:60]}`')
            cur = cur.func.value
            continue
        if isinstance(cur, ast.Call) and pf.dotted(cur.func) in ('bytes', 'str') and len(cur.args) == 2 and not cur.keywords:
            ops.append(('encode' if pf.dotted(cur.func) == 'bytes' else 'decode', _norm_codec(sp.const_string(m, fn, cur.args[1]))))
            cur = cur.args[0]
            continue
        raise AnalysisError(f'{m.rel}::{fn.name}: unrecognised string operation `{pf.nsrc(cur)[:60]}`')
    return list(reversed(ops))


class _Cond(sp.Translator):
    """strpred's translator plus `s.isidentifier()` (XID_Start|_ then XID_Continue*, tabulated from the running interpreter)."""

    def cond(self, e: ast.AST) -> R.Lang:
        if isinstance(e, ast.Call) and isinstance(e.func, ast.Attribute) and e.func.attr == 'isidentifier' and not e.args and not e.keywords \
                and self._is_param(e.func.value):
            start = R.tabulate('str.isidentifier.start', lambda c: c.isidentifier())
            cont = R.tabulate('str.isidentifier.continue', lambda c: ('a' + c).isidentifier())
            return R.lang(R.seq(R.chars(start), R.star(R.chars(cont))), 'str.isidentifier')
        if isinstance(e, ast.Call) and pf.dotted(e.func) in ('keyword.iskeyword', 'iskeyword') and len(e.args) == 1 and self._is_param(e.args[0]):
            import keyword
            return R.lang(R.alt(*[R.lit(k) for k in keyword.kwlist]), 'keyword.iskeyword')
        return super().cond(e)


class Escaper:
    """`if <test on s>: return s  else: return D + f(s) + D`  (either branch order; the test is a regex call or any combination of string
    predicates engines/strpred can turn into a regular language)."""

    def __init__(self, ctx: Ctx, m: pf.Module, name: str):
        self.m = m
        self.name = name
        fn = m.func(name)
        self.fn = fn
        params = [a.arg for a in fn.args.args]
        ctx.need(len(params) == 1, f'{m.rel}::{name}: expected one parameter')
        self.param = params[0]
        body = [s for s in fn.body if not (isinstance(s, ast.Expr) and isinstance(s.value, ast.Constant))]
        ctx.need(body and isinstance(body[0], ast.If), f'{m.rel}::{name}: body does not start with `if <test on the name>`')
        iff = body[0]
        rest = body[1:]
        then = list(iff.body)
        other = list(iff.orelse) if iff.orelse else rest
        ctx.need(not (iff.orelse and rest), f'{m.rel}::{name}: statements after an if/else')

        def is_bare(stmts: List[ast.stmt]) -> bool:
            return len(stmts) == 1 and isinstance(stmts[0], ast.Return) and isinstance(stmts[0].value, ast.Name) and stmts[0].value.id == self.param
        ctx.need(is_bare(then) != is_bare(other), f'{m.rel}::{name}: exactly one branch must return the name unchanged')
        esc_branch = other if is_bare(then) else then
        ctx.need(len(esc_branch) == 1 and isinstance(esc_branch[0], ast.Return) and esc_branch[0].value is not None, f'{m.rel}::{name}: unrecognised escaping branch')
        self.escaped_expr = esc_branch[0].value
        self.test_line = iff.lineno
        rc = None
        try:
            rc = sp.regex_call(m, fn, iff.test)
        except AnalysisError:
            rc = None
        if rc is not None and isinstance(rc[2], ast.Name) and rc[2].id == self.param:
            rd, mode, _subj = rc
            lang = R.from_regex(rd.pattern, rd.flags, mode)
            self.why = f'it matches {rd.pattern!r} under {mode}'
        else:
            lang = _Cond(m, fn, self.param).cond(iff.test)
            self.why = f'it satisfies `{pf.nsrc(iff.test)}`'
        if not is_bare(then):
            lang = ~lang
            self.why = f'it does not satisfy `{pf.nsrc(iff.test)}`'
        self.bare = lang
        self.bare.label = f'{name}: bare names ({self.why})'


def _delimited(ctx: Ctx, m: pf.Module, fn: pf.FuncDef, e: ast.AST) -> Tuple[str, ast.AST]:
    """`D + X + D`, `'D{}D'.format(X)` or f'D{X}D'  ->  (D, X)"""
    if isinstance(e, ast.BinOp) and isinstance(e.op, ast.Add) and isinstance(e.left, ast.BinOp) and isinstance(e.left.op, ast.Add):
        l, x, r = pf.const_str(e.left.left), e.left.right, pf.const_str(e.right)
        if l is not None and r is not None and l == r and len(l) == 1:
            return l, x
    if isinstance(e, ast.Call) and isinstance(e.func, ast.Attribute) and e.func.attr == 'format' and len(e.args) == 1 and not e.keywords:
        t = pf.const_str(e.func.value)
        if t is not None and len(t) == 4 and t[1:3] == '{}' and t[0] == t[3]:
            return t[0], e.args[0]
    if isinstance(e, ast.JoinedStr) and len(e.values) == 3 and isinstance(e.values[1], ast.FormattedValue) and e.values[1].format_spec is None \
            and e.values[1].conversion == -1:
        l, r = pf.const_str(e.values[0]), pf.const_str(e.values[2])
        if l is not None and l == r and len(l) == 1:
            return l, e.values[1].value
    raise AnalysisError(f'{m.rel}::{fn.name}: escaped form `{pf.nsrc(e)[:70]}` is not <delimiter> + f(s) + <delimiter>')


# ---- escape_str by symbolic evaluation ---------------------------------------------------


class EscapeStr:
    """Unit table of misc.escape_str(s, backticked) for both values of `backticked`, by evaluating the per-character loop body over
    code-point ranges that no test of the body can split."""

    def __init__(self, ctx: Ctx, m: pf.Module):
        self.m = m
        fn = m.func('escape_str')
        self.fn = fn
        params = [a.arg for a in fn.args.args]
        ctx.need(params == ['s', 'backticked'] and len(fn.args.defaults) == 1 and isinstance(fn.args.defaults[0], ast.Constant)
                 and fn.args.defaults[0].value is False, f'{m.rel}::escape_str: signature changed ({params})')
        # upper_hex model
        uh = m.func('upper_hex')
        ctx.need(pf.nsrc(uh) == pf.nsrc(ast.parse(
            'def upper_hex(n, num_digits=None):\n    if num_digits is None:\n        return "{0:X}".format(n)\n    else:\n'
            '        return "{0:0{1}X}".format(n, num_digits)').body[0]), f'{m.rel}::upper_hex: body changed; the hex model does not apply')
        loops = [s for s in fn.body if isinstance(s, ast.For)]
        ctx.need(len(loops) == 1 and isinstance(loops[0].target, ast.Name) and pf.nsrc(loops[0].iter) == 's' and not loops[0].orelse,
                 f'{m.rel}::escape_str: expected one `for ch in s` loop')
        self.loop = loops[0]
        self.ch = loops[0].target.id
        # the buffer: sb = StringIO(); ... escaped = sb.getvalue(); return escaped
        pre = fn.body[:fn.body.index(self.loop)]
        post = fn.body[fn.body.index(self.loop) + 1:]
        self.buf = None
        self.dicts: Dict[str, Dict[str, str]] = {}
        for st in pre:
            if isinstance(st, ast.Expr) and isinstance(st.value, ast.Constant):
                continue
            ctx.need(isinstance(st, ast.Assign) and len(st.targets) == 1 and isinstance(st.targets[0], ast.Name),
                     f'{m.rel}::escape_str: unrecognised statement before the loop `{pf.nsrc(st)[:60]}`')
            tgt, v = st.targets[0].id, st.value  # type: ignore[union-attr]
            if isinstance(v, ast.Call) and pf.dotted(v.func) in ('StringIO', 'io.StringIO') and not v.args:
                self.buf = tgt
            elif isinstance(v, ast.Dict):
                d = {}
                for k, val in zip(v.keys, v.values):
                    ks, vs = pf.const_str(k) if k is not None else None, pf.const_str(val)
                    ctx.need(ks is not None and vs is not None and len(ks) == 1, f'{m.rel}::escape_str: {tgt} is not a char -> str literal table')
                    d[ks] = vs
                self.dicts[tgt] = d  # type: ignore[assignment]
            else:
                ctx.need(False, f'{m.rel}::escape_str: unrecognised statement before the loop `{pf.nsrc(st)[:60]}`')
        ctx.need(self.buf is not None, f'{m.rel}::escape_str: no StringIO buffer')
        post_src = [pf.nsrc(s) for s in post]
        ctx.need(post_src in ([f'escaped = {self.buf}.getvalue()', f'{self.buf}.close()', 'return escaped'], [f'return {self.buf}.getvalue()']),
                 f'{m.rel}::escape_str: unrecognised statements after the loop {post_src}')
        # boundaries
        self.bounds = {0, R.MAXCP + 1}
        for n in ast.walk(self.loop):
            if isinstance(n, ast.Constant):
                if isinstance(n.value, int) and not isinstance(n.value, bool) and 0 <= n.value <= R.MAXCP:
                    self.bounds |= {n.value, n.value + 1}
                elif isinstance(n.value, str) and len(n.value) == 1:
                    self.bounds |= {ord(n.value), ord(n.value) + 1}
        for d in self.dicts.values():
            for k in d:
                self.bounds |= {ord(k), ord(k) + 1}

    def units(self, backticked: bool) -> List[Unit]:
        bl = sorted(b for b in self.bounds if b <= R.MAXCP + 1)
        out: List[Unit] = []
        for i in range(len(bl) - 1):
            lo, hi = bl[i], bl[i + 1] - 1
            parts = self._run(self.loop.body, {'backticked': backticked}, lo)
            if parts is None:
                parts = []
            if out and out[-1].hi + 1 == lo and out[-1].parts == parts and not (len(parts) == 1 and parts[0][0] == 'lit'):
                out[-1].hi = hi
            elif len(parts) >= 1 and all(p[0] == 'lit' for p in parts) and hi > lo:
                raise AnalysisError(f'{self.m.rel}::escape_str: a constant output for a multi-character range {lo:#x}-{hi:#x}')
            else:
                out.append(Unit(lo, hi, parts))
        return out

    def _fail(self, e: ast.AST):
        raise AnalysisError(f'{self.m.rel}::escape_str: unrecognised construct in the character loop `{pf.nsrc(e)[:70]}`')

    def _val(self, e: ast.AST, env: Dict[str, Any], cp: int) -> Any:
        """Concrete value for the representative code point cp: int / bool / str, or a list of output parts for str-valued
        expressions that depend on the character."""
        if isinstance(e, ast.Constant):
            return e.value
        if isinstance(e, ast.Name):
            if e.id == self.ch:
                return ('CH',)
            if e.id in env:
                return env[e.id]
            self._fail(e)
        if isinstance(e, ast.Call) and pf.dotted(e.func) == 'ord' and len(e.args) == 1 and self._val(e.args[0], env, cp) == ('CH',):
            return ('ORD',)
        if isinstance(e, ast.BoolOp):
            vals = [self._truth(v, env, cp) for v in e.values]
            return all(vals) if isinstance(e.op, ast.And) else any(vals)
        if isinstance(e, ast.UnaryOp) and isinstance(e.op, ast.Not):
            return not self._truth(e.operand, env, cp)
        if isinstance(e, ast.Compare) and len(e.ops) == 1:
            op = e.ops[0]
            a = self._val(e.left, env, cp)
            if a == ('CH',) and isinstance(op, (ast.In, ast.NotIn)) and isinstance(e.comparators[0], ast.Name) and e.comparators[0].id in self.dicts:
                r = chr(cp) in self.dicts[e.comparators[0].id]
                return r if isinstance(op, ast.In) else not r
            b = self._val(e.comparators[0], env, cp)
            if a == ('ORD',) and isinstance(b, int):
                table = {ast.Lt: cp < b, ast.LtE: cp <= b, ast.Gt: cp > b, ast.GtE: cp >= b, ast.Eq: cp == b, ast.NotEq: cp != b}
                if type(op) in table:
                    return table[type(op)]
            if a == ('CH',) and isinstance(b, str) and isinstance(op, (ast.Eq, ast.NotEq)):
                r = len(b) == 1 and ord(b) == cp
                return r if isinstance(op, ast.Eq) else not r
            if a == ('CH',) and isinstance(op, (ast.In, ast.NotIn)):
                if isinstance(e.comparators[0], ast.Name) and e.comparators[0].id in self.dicts:
                    r = chr(cp) in self.dicts[e.comparators[0].id]
                elif isinstance(b, str):
                    r = chr(cp) in b
                else:
                    self._fail(e)
                return r if isinstance(op, ast.In) else not r
        self._fail(e)

    def _truth(self, e: ast.AST, env: Dict[str, Any], cp: int) -> bool:
        if isinstance(e, ast.Name) and e.id in self.dicts:
            self._fail(e)
        v = self._val(e, env, cp)
        if isinstance(v, bool):
            return v
        self._fail(e)
        raise AssertionError

    def _str(self, e: ast.AST, env: Dict[str, Any], cp: int) -> List[tuple]:
        if isinstance(e, ast.Constant) and isinstance(e.value, str):
            return [('lit', e.value)]
        if isinstance(e, ast.Name) and e.id == self.ch:
            return [('self',)]
        if isinstance(e, ast.BinOp) and isinstance(e.op, ast.Add):
            return self._str(e.left, env, cp) + self._str(e.right, env, cp)
        if isinstance(e, ast.Subscript) and isinstance(e.value, ast.Name) and e.value.id in self.dicts and isinstance(e.slice, ast.Name) \
                and e.slice.id == self.ch:
            d = self.dicts[e.value.id]
            if chr(cp) not in d:
                raise AnalysisError(f'{self.m.rel}::escape_str: `{pf.nsrc(e)}` evaluated for a character outside the table')
            return [('lit', d[chr(cp)])]
        if isinstance(e, ast.Call) and pf.dotted(e.func) == 'upper_hex' and not e.keywords and 1 <= len(e.args) <= 2:
            if self._val(e.args[0], env, cp) != ('ORD',):
                self._fail(e)
            w = 1
            if len(e.args) == 2:
                w = self._val(e.args[1], env, cp)
                if not isinstance(w, int) or isinstance(w, bool) or not 1 <= w <= 8:
                    self._fail(e)
            return [('hex', w, True)]
        self._fail(e)
        raise AssertionError

    def _run(self, stmts: Sequence[ast.stmt], env: Dict[str, Any], cp: int) -> Optional[List[tuple]]:
        parts: List[tuple] = []
        for st in stmts:
            if isinstance(st, ast.Assign) and len(st.targets) == 1 and isinstance(st.targets[0], ast.Name):
                env = dict(env)
                env[st.targets[0].id] = self._val(st.value, env, cp)
            elif isinstance(st, ast.If):
                sub = self._run(st.body if self._truth(st.test, env, cp) else st.orelse, env, cp)
                parts += sub or []
            elif isinstance(st, ast.Expr) and isinstance(st.value, ast.Call) and pf.dotted(st.value.func) == f'{self.buf}.write' \
                    and len(st.value.args) == 1 and not st.value.keywords:
                parts += self._str(st.value.args[0], env, cp)
            else:
                self._fail(st)
        # merge adjacent literals
        merged: List[tuple] = []
        for p in parts:
            if merged and p[0] == 'lit' and merged[-1][0] == 'lit':
                merged[-1] = ('lit', merged[-1][1] + p[1])
            else:
                merged.append(p)
        return merged


# --------------------------------------------------------------------------------------
# engine side
# --------------------------------------------------------------------------------------


def scala_quoted_language(delim: str, escape_chars: set, label: str) -> R.Lang:
    """IRLexer.quotedLiteral(delim): delim ( [^delim \\] | \\ [escapeChars] )* delim   (over UTF-16 units = any code point here)."""
    plain = ~R.CharSet.of([delim, '\\'])
    return R.lang(R.seq(R.lit(delim), R.star(R.alt(R.chars(plain), R.seq(R.lit('\\'), R.chars(R.CharSet.of(escape_chars))))), R.lit(delim)), label)


def scala_decode(body: str, arms: dict) -> Optional[List[int]]:
    """Our model of StringEscapeUtils.unescapeString driven by the extracted arms: UTF-16 code units of the result, or None when it
    reports an error."""
    out: List[int] = []
    units: List[int] = []
    for ch in body:
        cp = ord(ch)
        if cp > 0xFFFF:
            cp -= 0x10000
            units += [0xD800 + (cp >> 10), 0xDC00 + (cp & 0x3FF)]
        else:
            units.append(cp)
    had, in_uni, buf = False, False, ''
    for u in units:
        ch = chr(u)
        if in_uni:
            buf += ch
            if len(buf) == arms['unicode_width']:
                try:
                    out.append(int(buf, 16) & 0xFFFF)
                except ValueError:
                    return None
                buf, in_uni, had = '', False, False
        elif had:
            had = False
            if ch in arms['simple']:
                out.append(ord(arms['simple'][ch]))
            elif ch == arms['unicode_intro']:
                in_uni = True
            else:
                return None
        elif ch == '\\':
            had = True
        else:
            out.append(u)
    if had:
        out.append(ord('\\'))
    return out


def utf16(cp: int) -> List[int]:
    if cp > 0xFFFF:
        c = cp - 0x10000
        return [0xD800 + (c >> 10), 0xDC00 + (c & 0x3FF)]
    return [cp]


# --------------------------------------------------------------------------------------
# rules
# --------------------------------------------------------------------------------------


def _show(s: Optional[str]) -> str:
    return 'none' if s is None else ascii(s)


def _name_for(units: List[Unit], u: Unit, cp: int, bare_dfa: R.DFA) -> Tuple[str, str]:
    """A name whose escaped rendering contains unit u at cp and that is NOT emitted bare: (name, escaped body)."""
    name = chr(cp)
    if bare_dfa.accepts(name):
        name = name + ' '
        if bare_dfa.accepts(name):
            raise AnalysisError('cannot build a non-bare example name')
    return name, encode_with(units, name)


def check_units_against(ctx: Ctx, rule: str, cons_prefix: str, units: List[Unit], delim: str, target: R.Lang, target_name: str,
                        bare: Optional[R.Lang], src_file: str, src_line: int, emitter: str) -> Dict[str, bool]:
    """One instance per unit kind: delim+unit+delim must be in the target language.  Returns kind -> accepted."""
    by_kind: Dict[str, List[Unit]] = {}
    for u in split_by_width(units):
        by_kind.setdefault(u.kind(), []).append(u)
    bare_dfa = R.to_dfa(bare, R.alphabet_for([bare])) if bare is not None else None
    result: Dict[str, bool] = {}
    flat = split_by_width(units)
    for kind, us in by_kind.items():
        L = R.lang(R.seq(R.lit(delim), R.alt(*[u.regex() for u in us]), R.lit(delim)), kind)
        w = R.included(L, target)
        result[kind] = w is None
        cons = f'{cons_prefix}::unit {kind}'
        if w is None:
            ctx.ok(rule, cons, {'code_points': sum(u.hi - u.lo + 1 for u in us)})
            continue
        # a concrete name (friendly code points first)
        ex = ''
        cands = sorted(((cp, u) for u in us for cp in u.examples()), key=lambda t: (t[0] not in (0xE9, 0x1F600, 0x4E2D), t[0]))
        # characters of the automaton's witness are candidates too (raw units: the offending character itself)
        cands = [(ord(ch), u) for ch in w for u in us if u.lo <= ord(ch) <= u.hi and any(p[0] == 'self' for p in u.parts)] + cands
        for cp, u in cands:
            text = delim + u.output(cp) + delim
            if not R.accepts(target, text):
                if bare_dfa is not None:
                    name, body = _name_for(flat, u, cp, bare_dfa)
                else:
                    name, body = chr(cp), u.output(cp)
                full = delim + body + delim
                if not R.accepts(target, full):
                    ex = f'the name {ascii(name)} is emitted as {ascii(full)}'
                    break
        if not ex:
            raise AnalysisError(f'{cons}: the unit language is not included in {target_name} (witness {w!r}) but no concrete name reproduces it')
        n = sum(u.hi - u.lo + 1 for u in us)
        ctx.bad(rule, cons, f'{emitter} emits {kind!r} for {n} code point(s) (U+{us[0].lo:04X}..), which {target_name} does not accept: {ex}',
                src_file, src_line, extra={'witness': w})
    return result


def _hail_classes(ctx: Ctx, mt: pf.Module) -> Dict[str, ast.ClassDef]:
    out = {}
    for c in mt.tree.body:
        if isinstance(c, ast.ClassDef) and any(pf.dotted(b) == 'HailType' for b in c.bases):
            out[c.name] = c
    ctx.need(len(out) >= 15, f'{F_TYPES}: only {len(out)} HailType subclasses found')
    return out


def _method(c: ast.ClassDef, name: str) -> Optional[ast.FunctionDef]:
    for st in c.body:
        if isinstance(st, ast.FunctionDef) and st.name == name:
            return st
    return None


class Templates:
    """Sample strings of a printer method (`__str__` / `_parsable_string`) by symbolic evaluation of its return expression."""

    def __init__(self, ctx: Ctx, m: pf.Module, type_samples: List[str], ident_samples: List[str], escaper_name: str = 'escape_parsable'):
        self.ctx = ctx
        self.m = m
        self.types = type_samples
        self.idents = ident_samples
        self.escaper = escaper_name
        self.used_escaper = False

    def fail(self, e: ast.AST):
        raise AnalysisError(f'{self.m.rel}: printer expression not recognised `{pf.nsrc(e)[:80]}`')

    def samples(self, fn: ast.FunctionDef) -> List[str]:
        body = [s for s in fn.body if not (isinstance(s, ast.Expr) and isinstance(s.value, ast.Constant))]
        if len(body) != 1 or not isinstance(body[0], ast.Return) or body[0].value is None:
            raise AnalysisError(f'{self.m.rel}::{fn.name}: not a single `return <template>`')
        return self.ev(body[0].value, {})

    def category(self, e: ast.AST, env: Dict[str, str]) -> Optional[str]:
        if isinstance(e, ast.Name):
            return env.get(e.id)
        if isinstance(e, ast.Attribute) and isinstance(e.value, ast.Name) and e.value.id == 'self':
            a = e.attr.lstrip('_')
            if a == 'ndim':
                return 'NAT'
            if a in ('reference_genome', 'rg'):
                return 'NAME'
            if a.endswith('_type') or a == 'element_type':
                return 'TYPE'
        if isinstance(e, ast.Attribute) and e.attr == 'name' and self.category(e.value, env) == 'NAME':
            return 'NAME'
        if isinstance(e, ast.Call) and pf.dotted(e.func) == 'str' and len(e.args) == 1:
            return self.category(e.args[0], env)
        if isinstance(e, ast.Call) and isinstance(e.func, ast.Attribute) and e.func.attr in ('_parsable_string', '__str__') and not e.args:
            c = self.category(e.func.value, env)
            return c if c == 'TYPE' else None
        return None

    def ev(self, e: ast.AST, env: Dict[str, str]) -> List[str]:
        s = pf.const_str(e)
        if s is not None:
            return [s]
        if isinstance(e, ast.Call) and pf.dotted(e.func) == self.escaper and len(e.args) == 1 and not e.keywords:
            if self.category(e.args[0], env) != 'NAME':
                self.fail(e)
            self.used_escaper = True
            return list(self.idents)
        cat = self.category(e, env)
        if cat == 'TYPE':
            return list(self.types)
        if cat == 'NAT':
            return ['2', '0']
        if cat == 'NAME':
            # a name printed without the escaper: raw names
            return ['a', 'a b', '`']
        if isinstance(e, ast.BinOp) and isinstance(e.op, ast.Add):
            return self.combine([self.ev(e.left, env), self.ev(e.right, env)], lambda xs: ''.join(xs))
        if isinstance(e, ast.JoinedStr):
            parts = []
            for v in e.values:
                if isinstance(v, ast.Constant):
                    parts.append([str(v.value)])
                elif isinstance(v, ast.FormattedValue) and v.format_spec is None and v.conversion == -1:
                    parts.append(self.ev(v.value, env))
                else:
                    self.fail(e)
            return self.combine(parts, lambda xs: ''.join(xs))
        if isinstance(e, ast.Call) and isinstance(e.func, ast.Attribute) and e.func.attr == 'format' and not e.keywords:
            tmpl = pf.const_str(e.func.value)
            if tmpl is None:
                self.fail(e)
            pieces = self.split_format(tmpl, e)  # type: ignore[arg-type]
            if len(pieces) - 1 != len(e.args):
                self.fail(e)
            args = [self.ev(a, env) for a in e.args]
            return self.combine(args, lambda xs: ''.join(p + x for p, x in zip(pieces, list(xs) + [''])))
        if isinstance(e, ast.Call) and isinstance(e.func, ast.Attribute) and e.func.attr == 'join' and len(e.args) == 1 and not e.keywords:
            sep = pf.const_str(e.func.value)
            it = e.args[0]
            if sep is None or not isinstance(it, (ast.GeneratorExp, ast.ListComp)) or len(it.generators) != 1 or it.generators[0].ifs:
                self.fail(e)
            gen = it.generators[0]  # type: ignore[union-attr]
            env2 = dict(env)
            src = pf.nsrc(gen.iter)
            if src == 'self.items()' and isinstance(gen.target, ast.Tuple) and len(gen.target.elts) == 2 and all(isinstance(x, ast.Name) for x in gen.target.elts):
                env2[gen.target.elts[0].id] = 'NAME'  # type: ignore[union-attr]
                env2[gen.target.elts[1].id] = 'TYPE'  # type: ignore[union-attr]
            elif src in ('self.types', 'self._types') and isinstance(gen.target, ast.Name):
                env2[gen.target.id] = 'TYPE'
            else:
                self.fail(e)
            elts = self.ev(it.elt, env2)  # type: ignore[union-attr]
            out = ['']  # empty container
            out += [x for x in elts]  # one element
            out += [sep.join([elts[i % len(elts)], elts[(i + 1) % len(elts)]]) for i in range(len(elts))]  # type: ignore[union-attr]
            out.append(sep.join(elts))  # type: ignore[union-attr]
            return out
        self.fail(e)
        raise AssertionError

    @staticmethod
    def combine(parts: List[List[str]], f) -> List[str]:
        n = max(len(p) for p in parts) if parts else 1
        return [f([p[i % len(p)] for p in parts]) for i in range(n)]

    def split_format(self, tmpl: str, e: ast.AST) -> List[str]:
        """'a{}b{{c}}' -> ['a', 'b{c}'] (auto-numbered empty fields only)."""
        out, cur, i = [], '', 0
        while i < len(tmpl):
            if tmpl.startswith('{{', i):
                cur += '{'
                i += 2
            elif tmpl.startswith('}}', i):
                cur += '}'
                i += 2
            elif tmpl.startswith('{}', i):
                out.append(cur)
                cur = ''
                i += 2
            elif tmpl[i] in '{}':
                self.fail(e)
            else:
                cur += tmpl[i]
                i += 1
        out.append(cur)
        return out


def _visitor_class(ctx: Ctx, mg: pf.Module, mt: pf.Module, classes: Dict[str, ast.ClassDef], meth: ast.FunctionDef) -> Optional[str]:
    """Name of the types.py class a visitor method's result belongs to (`return types.X` / `return types.X(...)`)."""
    names = set()
    for n in ast.walk(meth):
        if isinstance(n, ast.Return) and n.value is not None:
            v = n.value
            if isinstance(v, ast.Call):
                v = v.func
            d = pf.dotted(v)
            if d is None or not d.startswith('types.'):
                return None
            names.add(d[len('types.'):])
    out = set()
    for nm in names:
        if nm in classes:
            out.add(nm)
            continue
        try:
            val = sp.module_const(mt, nm)
        except AnalysisError:
            # classes outside HailType's direct subclasses (tvariable)
            if any(isinstance(c, ast.ClassDef) and c.name == nm for c in mt.tree.body):
                out.add(nm)
                continue
            return None
        if isinstance(val, ast.Call) and pf.dotted(val.func) in classes and not val.args:
            out.add(pf.dotted(val.func))  # type: ignore[arg-type]
        elif isinstance(val, ast.Name):
            v2 = sp.module_const(mt, val.id)
            if isinstance(v2, ast.Call) and pf.dotted(v2.func) in classes:
                out.add(pf.dotted(v2.func))  # type: ignore[arg-type]
            else:
                return None
        else:
            return None
    return out.pop() if len(out) == 1 else None



# --------------------------------------------------------------------------------------
# concrete evaluation of the printers, hl.dtype and the visitor on sample types (engines/pyconc.py)
# --------------------------------------------------------------------------------------


class _RG(C.ExtObj):
    """Model of a registered ReferenceGenome: identified by its name; str(rg) == rg.name == the registered name."""
    kind = 'ReferenceGenome'

    def __init__(self, name: str):
        self.name = name

    def py_getattr(self, it, n):
        if n == 'name':
            return self.name
        raise C.Unsupported(f'ReferenceGenome.{n} is not modelled')

    def py_str(self, it):
        return self.name

    def py_eq(self, it, o):
        return isinstance(o, _RG) and o.name == self.name


class _PNodeV(C.ExtObj):
    kind = 'parsimonious.Node'

    def __init__(self, n: P.PNode):
        self.n = n
        self.kids: Optional[List['_PNodeV']] = None

    def children(self) -> List['_PNodeV']:
        if self.kids is None:
            self.kids = [_PNodeV(c) for c in self.n.children]
        return self.kids

    def py_getattr(self, it, a):
        if a == 'text':
            return self.n.text
        if a == 'expr_name':
            return self.n.expr_name
        if a == 'children':
            return self.children()
        if a in ('start', 'end', 'full_text'):
            return getattr(self.n, a)
        raise C.Unsupported(f'parsimonious Node.{a} is not modelled')

    def py_iter(self, it):
        return list(self.children())


class _GrammarV(C.ExtObj):
    kind = 'parsimonious.Grammar'
    _parsed: Dict[str, P.Grammar] = {}

    def __init__(self, text: Any):
        if not isinstance(text, str):
            raise C.Unsupported('Grammar(<non-string>)')
        g = _GrammarV._parsed.get(text)
        if g is None:
            g = P.parse_grammar(text, 'Grammar(...)')
            _GrammarV._parsed[text] = g
        self.g = g

    def py_getattr(self, it, a):
        if a == 'parse':
            def parse(it2, args, kw):
                if len(args) != 1 or kw or not isinstance(args[0], str):
                    raise C.Unsupported('Grammar.parse arguments')
                try:
                    return _PNodeV(P.parsimonious_tree(self.g, args[0]))
                except P.ParseFailure as e:
                    raise C.PyRaise('ParseError', (str(e),)) from None
            return C.Builtin('Grammar.parse', parse)
        raise C.Unsupported(f'parsimonious Grammar.{a} is not modelled')


def _nv_visit(it, inst, args, kw):
    """parsimonious NodeVisitor.visit: method visit_<expr_name> (else generic_visit) applied to (node, [visit(child) ...])."""
    if len(args) != 1 or kw or not isinstance(args[0], _PNodeV):
        raise C.Unsupported('NodeVisitor.visit arguments')
    node = args[0]
    try:
        m = it.getattr(inst, 'visit_' + node.n.expr_name)
    except C.PyRaise as r:
        if r.name != 'AttributeError':
            raise
        m = it.getattr(inst, 'generic_visit')
    return it.call(m, [node, [_nv_visit(it, inst, [c], {}) for c in node.children()]])


def _nv_generic(it, inst, args, kw):
    raise C.PyRaise('NotImplementedError', ('NodeVisitor.generic_visit',))


class _HailNS(C.ExtObj):
    """`import hail as hl`: names defined in hail/expr/types.py are re-exported by the package; the reference registry is modelled."""
    kind = 'hail'

    def py_getattr(self, it, a):
        if a == 'default_reference':
            return C.Builtin('default_reference', lambda it2, a2, k2: _RG('GRCh37'))
        if a == 'get_reference':
            return C.Builtin('get_reference', lambda it2, a2, k2: _co_rg(it2, a2[0]))
        return it.global_lookup(it.module(F_TYPES), a)


def _co_rg(it, v):
    if isinstance(v, str):
        return _RG('GRCh37' if v == 'default' else v)
    return v


def _co_hail_type(it, v):
    if isinstance(v, str):
        return it.call(it.global_lookup(it.module(F_TYPES), 'dtype'), [v])
    return v


class Session:
    """One modelled Python process: module-level state of the interpreted modules (caches!) lives as long as the session."""

    def __init__(self):
        self.it = C.Interp(
            externals={'parsimonious.Grammar': C.Builtin('Grammar', lambda it, a, k: _GrammarV(a[0] if a else None)), 'hail': _HailNS()},
            package_roots={'hail': 'hail/python/hail', 'hailtop': 'hail/python/hailtop'},
            coercers={'reference_genome_type': _co_rg, 'hail_type': _co_hail_type},
            ext_class_methods={'parsimonious.NodeVisitor': {'visit': _nv_visit, 'generic_visit': _nv_generic, '__init__': lambda it, o, a, k: None}})

    def expr(self, src: str, **variables: Any) -> Any:
        return self.it.eval_src(F_TYPES, src, variables)

    def dtype(self, s: str) -> Any:
        return self.it.call(self.it.global_lookup(self.it.module(F_TYPES), 'dtype'), [s])

    def try_dtype(self, s: str) -> Tuple[Any, Optional[str]]:
        try:
            return self.dtype(s), None
        except C.PyRaise as r:
            return None, f'{r.name}{r.pargs!r}'[:200]

    def show(self, t: Any) -> str:
        try:
            return self.it.to_str(t) if isinstance(t, (C.Inst, C.ExtObj)) else repr(t)
        except (C.PyRaise, AnalysisError):
            return repr(t)


_NAME_BATTERY = ['a', 'x_1', 'a b', 'a  b', ' a b', 'a b ', 'A b', 'ab', 'AB', 'a-b', 'a - b', '`', '\\', '\xe9', '\xc9', '1a', '', '\n', '\U0001f600', 'int32',
                 'a:b', '}', "it's", 'tab\there', 'a.b', '"', 'struct', '\ufb01', 'fi', 'a\ufb01', 'afi', 'a\xa0b', '_x', 'a\xe9', 'a\xc9']


class Samples:
    """Sample instances of every HailType class that has its own `__str__`, built through the interpreted constructors.  The
    argument kinds of a constructor are read off its typecheck decorator."""

    def __init__(self, ctx: Ctx, ses: Session, mt: pf.Module, classes: Dict[str, ast.ClassDef]):
        self.ses = ses
        self.by_class: Dict[str, List[Tuple[str, Any]]] = {}
        self.skipped: List[str] = []
        it = ses.it
        pool_src = ['tint32', 'tstr', 'tarray(tfloat64)', "tstruct(**{'a b': tbool})", 'tint64']
        try:
            pool = [(src, ses.expr(src)) for src in pool_src]
        except C.PyRaise as r:
            raise AnalysisError(f'{F_TYPES}: cannot build the sample children {pool_src}: {r}') from None
        rgs = [(repr(n), _RG(n)) for n in ('GRCh38', 'my genome', '1kg`x', 'é', 'GRCh37', ' padded ', 'grch38')]
        nats = [('2', 2), ('0', 0), ('11', 11)]
        for cname, c in classes.items():
            if _method(c, '__str__') is None:
                continue
            init = None
            for k in self._chain(classes, c):
                init = _method(k, '__init__')
                if init is not None:
                    break
            kinds = self._kinds(init)
            if kinds is None:
                self.skipped.append(cname)
                continue
            cref = it.global_lookup(it.module(F_TYPES), cname)
            combos: List[Tuple[str, list, dict]] = []
            if not kinds:
                combos.append(('', [], {}))
            elif kinds == ['TYPES']:
                for sel in ([], [0], [1, 0, 2], [0, 0], [3, 4]):
                    combos.append((', '.join(pool[i][0] for i in sel), [pool[i][1] for i in sel], {}))
            elif kinds == ['FIELDS']:
                combos.append(('', [], {}))
                for i, n in enumerate(_NAME_BATTERY):
                    combos.append((f'**{{{n!r}: {pool[0][0]}}}', [], {n: pool[0][1]}))
                multi = [['b', 'a', 'c c'], ['z', 'A', 'a', '`'], ['x', 'a b', 'a  b']]
                for names in multi:
                    combos.append(('**{' + ', '.join(f'{n!r}: {pool[j % len(pool)][0]}' for j, n in enumerate(names)) + '}', [],
                                   {n: pool[j % len(pool)][1] for j, n in enumerate(names)}))
                long_fields = {f'f{j}': pool[j % 2][1] for j in range(24)}
                combos.append(('**{f0..f23, last: tint32}', [], {**long_fields, 'last': pool[0][1]}))
                combos.append(('**{f0..f23, last: tstr}', [], {**long_fields, 'last': pool[1][1]}))
            else:
                per: List[List[Tuple[str, Any]]] = []
                ti = 0
                for kd in kinds:
                    if kd == 'TYPE':
                        per.append([pool[(ti + j) % len(pool)] for j in (0, 2, 1, 3)])
                        ti += 1
                    elif kd == 'RG':
                        per.append(rgs)
                    elif kd == 'NAT':
                        per.append(nats)
                    else:
                        per = []
                        break
                if not per:
                    self.skipped.append(cname)
                    continue
                n = max(len(x) for x in per)
                for i in range(n):
                    pick = [x[i % len(x)] for x in per]
                    combos.append((', '.join(p[0] for p in pick), [p[1] for p in pick], {}))
            out = []
            for desc, args, kwargs in combos:
                try:
                    out.append((f'{cname}({desc})', it.call(cref, list(args), dict(kwargs))))
                except C.PyRaise as r:
                    raise AnalysisError(f'{F_TYPES}: the sample {cname}({desc}) cannot be constructed: {r}') from None
            self.by_class[cname] = out
        # nested positions: the most demanding samples once more inside containers
        nest = []
        for cname in ('tstruct', 'tlocus', 'ttuple'):
            for desc, t in self.by_class.get(cname, [])[:(14 if cname == 'tstruct' else 4)]:
                nest.append((desc, t))
        self.nested: List[Tuple[str, Any]] = []
        for i, (desc, t) in enumerate(nest):
            wrap = ('tarray(T)', 'tdict(tstr, T)', 'ttuple(tint32, T)', "tstruct(**{'k': tint32, 'v v': T})")[i % 4]
            try:
                self.nested.append((wrap.replace('T', desc), ses.expr(wrap, T=t)))
            except C.PyRaise as r:
                raise AnalysisError(f'{F_TYPES}: the sample {wrap} cannot be constructed: {r}') from None

    @staticmethod
    def _chain(classes: Dict[str, ast.ClassDef], c: ast.ClassDef) -> List[ast.ClassDef]:
        out = [c]
        for b in c.bases:
            d = pf.dotted(b)
            if d in classes:
                out += Samples._chain(classes, classes[d])
        return out

    @staticmethod
    def _kinds(init: Optional[ast.FunctionDef]) -> Optional[List[str]]:
        if init is None:
            return []
        a = init.args
        params = [x.arg for x in a.posonlyargs + a.args]
        chk: Dict[str, str] = {}
        for d in init.decorator_list:
            if isinstance(d, ast.Call) and (pf.dotted(d.func) or '').split('.')[-1] in ('typecheck_method', 'typecheck'):
                for k in d.keywords:
                    if k.arg:
                        chk[k.arg] = pf.nsrc(k.value)

        def kind(src: Optional[str]) -> Optional[str]:
            if src == 'hail_type':
                return 'TYPE'
            if src in ('reference_genome_type', 'nullable(reference_genome_type)'):
                return 'RG'
            if src in ('oneof(NatBase, int)', 'oneof(int, NatBase)', 'int'):
                return 'NAT'
            return None
        if a.kwonlyargs:
            return None
        if a.vararg is not None and a.kwarg is not None and not params and chk.get(a.kwarg.arg) == 'hail_type':
            return ['FIELDS']  # tstruct: __init__(*args, **field_types) with self = args[0]
        if a.kwarg is not None:
            if params == ['self'] and a.vararg is None and chk.get(a.kwarg.arg) == 'hail_type':
                return ['FIELDS']
            return None
        if a.vararg is not None:
            if params == ['self'] and chk.get(a.vararg.arg) == 'hail_type':
                return ['TYPES']
            return None
        out = []
        for p_ in params[1:]:
            k = kind(chk.get(p_))
            if k is None:
                return None
            out.append(k)
        return out

    def all(self) -> List[Tuple[str, str, Any]]:
        out = [(cname, desc, t) for cname, lst in self.by_class.items() for desc, t in lst]
        out += [('nested', desc, t) for desc, t in self.nested]
        return out


def struct_equal(it: C.Interp, a: Any, b: Any, depth: int = 0) -> bool:
    """Attribute-wise equality of two interpreted objects (stronger than any `_eq`); caches (`_context`) are ignored."""
    if depth > 12:
        return False
    if isinstance(a, C.Inst) and isinstance(b, C.Inst):
        if a.cls is not b.cls and (a.cls.mod.rel, a.cls.name) != (b.cls.mod.rel, b.cls.name):
            return False
        ka = {k for k in a.attrs if k not in ('_context',)}
        kb = {k for k in b.attrs if k not in ('_context',)}
        return ka == kb and all(struct_equal(it, a.attrs[k], b.attrs[k], depth + 1) for k in ka)
    if isinstance(a, C.ExtObj) or isinstance(b, C.ExtObj):
        return isinstance(a, C.ExtObj) and a.py_eq(it, b)
    if isinstance(a, (list, tuple)) and type(a) is type(b):
        return len(a) == len(b) and all(struct_equal(it, x, y, depth + 1) for x, y in zip(a, b))
    if isinstance(a, dict) and isinstance(b, dict):
        return list(a.keys()) == list(b.keys()) and all(struct_equal(it, a[k], b[k], depth + 1) for k in a)
    if isinstance(a, (C.Inst, list, tuple, dict)) or isinstance(b, (C.Inst, list, tuple, dict)):
        return False
    try:
        return type(a) is type(b) and a == b
    except Exception:  # noqa: BLE001
        return a is b


def types_equal(ses: Session, t: Any, t2: Any) -> bool:
    """`t == t2` as the repository defines it (interpreted HailType.__eq__ / _eq); attribute-wise equality when `_eq` is outside the
    evaluator's subset."""
    try:
        return bool(ses.it.py_eq(t, t2))
    except C.Unsupported:
        if struct_equal(ses.it, t, t2):
            return True
        raise


def _same_as(ses_a: Session, ses_b: Session, ta: Any, tb: Any) -> bool:
    """Cross-process comparison: an object of process a against an object of process b (classes are compared by name)."""
    return struct_equal(ses_a.it, ta, tb)


PRINTERS = (('__str__', 'str(t)', 'str(t)'), ('pretty', 't.pretty()', 't.pretty()'))


def check_round_trip(ctx: Ctx, mt: pf.Module, classes: Dict[str, ast.ClassDef], ses: Session, sm: Samples) -> None:
    """R8: for every sample type t and every printer, dtype(<printed t>) == t, evaluated with our interpreter on the printers, dtype,
    the grammar text (peglite) and the visitor; once in sample order and once in reverse order in a second modelled process."""
    for cname in sm.skipped:
        ctx.info(f'{cname}: constructor arguments are not described by a typecheck decorator we can sample; print/parse round trip of {cname} not evaluated')
    allsamples = sm.all()
    ctx.unit('sample_types', len(allsamples))
    printed: List[Tuple[str, str, str, Any, str, str]] = []  # (cname, printer, desc, t, text, how)
    for cname, desc, t in allsamples:
        for pname, src, how in PRINTERS:
            try:
                text = ses.expr(src, t=t)
            except C.PyRaise as r:
                ctx.bad('R8', f'{F_TYPES}::{cname}.{pname}::prints', f'{how} raises {r.name}{r.pargs!r} for t = {desc}', mt.path,
                        classes[cname].lineno if cname in classes else 0)
                continue
            if not isinstance(text, str):
                raise AnalysisError(f'{F_TYPES}::{cname}.{pname}: printed form of {desc} is not a string')
            printed.append((cname, pname, desc, t, text, how))
    failures: Dict[Tuple[str, str], str] = {}
    counts: Dict[Tuple[str, str], int] = {}
    bad_a = set()
    res_a: Dict[int, Any] = {}
    seen_a: Dict[str, Tuple[Any, Optional[str]]] = {}
    seen_b: Dict[str, Tuple[Any, Optional[str]]] = {}
    for i, (cname, pname, desc, t, text, how) in enumerate(printed):
        key = (cname, pname)
        counts[key] = counts.get(key, 0) + 1
        if text in seen_a:
            t2, err = seen_a[text]
        else:
            t2, err = ses.try_dtype(text)
            seen_a[text] = (t2, err)
        ok = err is None and types_equal(ses, t, t2)
        res_a[i] = t2
        if not ok:
            bad_a.add(i)
            if key not in failures:
                # the same string alone, in a fresh modelled process
                fresh = Session()
                f2, ferr = fresh.try_dtype(text)
                alone_ok = ferr is None and _same_as(ses, fresh, t, f2)
                got = f'raises {err}' if err is not None else f'returns {ascii(ses.show(t2))}'
                if alone_ok:
                    failures[key] = (f'for t = {desc}, {how} = {ascii(text)} and hl.dtype of it {got} when the earlier sample strings have been parsed in the same '
                                     f'process, although it returns t when parsed first: the result of dtype depends on the history of earlier calls')
                else:
                    failures[key] = f'for t = {desc}, {how} = {ascii(text)} and hl.dtype of it {got}, which is not equal to t'
    # second modelled process, reverse order: results must not depend on what was parsed before
    ses_b = Session()
    for i in range(len(printed) - 1, -1, -1):
        cname, pname, desc, t, text, how = printed[i]
        if i in bad_a:
            continue
        if text in seen_b:
            t2, err = seen_b[text]
        else:
            t2, err = ses_b.try_dtype(text)
            seen_b[text] = (t2, err)
        ok = err is None and struct_equal(ses_b.it, res_a[i], t2)
        if not ok and (cname, pname) not in failures:
            got = f'raises {err}' if err is not None else f'returns {ascii(ses_b.show(t2))}'
            failures[(cname, pname)] = (f'for t = {desc}, {how} = {ascii(text)}; hl.dtype of it returns t when the samples are parsed in one order, but {got} '
                                        f'when they are parsed in the reverse order in a fresh process: the result of dtype depends on the history of earlier calls')
    for key, n in counts.items():
        cname, pname = key
        cons = f'{F_TYPES}::{cname}.{pname}::dtype({"str(t)" if pname == "__str__" else "t.pretty()"}) == t'
        line = classes[cname].lineno if cname in classes else 0
        ctx.check(key not in failures, 'R8', cons, failures.get(key, ''), mt.path, line, detail={'samples': n})
    ctx.unit('round_trips_evaluated', 2 * len(printed))



# --------------------------------------------------------------------------------------
# R7: what hl.dtype returns is a function of the parse of ITS OWN argument (abstract data flow over dtype and its helpers)
# --------------------------------------------------------------------------------------

ARG = '__ARG__'
_PURE_STR_METHODS = C._STR_METHODS - {'format_map'}
_PURE_FUNCS = {'str', 'tuple', 'list', 'sorted', 'reversed', 'len', 'repr', 'ascii', 'bytes', 'frozenset', 'sys.intern', 'intern', 're.sub', 're.split',
               're.escape', 'unicodedata.normalize', 'map', 'filter'}
_CONTAINER_CTORS = {'dict', 'OrderedDict', 'defaultdict', 'WeakValueDictionary', 'collections.OrderedDict', 'collections.defaultdict',
                    'weakref.WeakValueDictionary', 'list', 'set', 'LRUCache', 'TTLCache', 'cachetools.LRUCache', 'cachetools.TTLCache'}
_CACHE_DECORATORS = {'lru_cache', 'cache', 'functools.lru_cache', 'functools.cache'}
_NEUTRAL_DECORATORS = {'typecheck', 'typecheck_method', 'staticmethod', 'functools.wraps', 'wraps'}


class Flow:
    """Flow-insensitive, inter-procedural abstract evaluation.  Abstract values:
         ('arg', T, rel)      a pure function T (expression over the name __ARG__, evaluated in module rel) of the root argument
         ('const', v)         a constant
         ('tree', T, rel)     <grammar>.parse(T(arg))
         ('parsed', T, rel)   <visitor>.visit(<grammar>.parse(T(arg)))
         ('memo', C, K, rel)  a read of the container C at the key K(arg)
         ('grammar',) ('visitor', cls) ('container', C) ('func', rel, def) ('pure', dotted) ('unknown', why)"""

    def __init__(self, ctx: Ctx):
        self.ctx = ctx
        self.writes: List[dict] = []
        self.decorated: List[str] = []
        self.visitors: List[Tuple[str, ast.ClassDef]] = []
        self.functions: List[Tuple[str, str]] = []
        self.steps = 0

    # ---- module level
    def resolve_global(self, m: pf.Module, name: str, depth: int = 0) -> tuple:
        if depth > 5:
            return ('unknown', f'import chain of {name} too deep')
        bindings: List[Any] = []
        for st in m.tree.body:
            if isinstance(st, (ast.FunctionDef, ast.AsyncFunctionDef, ast.ClassDef)) and st.name == name:
                bindings.append(st)
            elif isinstance(st, ast.Assign) and any(isinstance(x, ast.Name) and x.id == name and isinstance(x.ctx, ast.Store) for t in st.targets for x in ast.walk(t)):
                bindings.append(st.value if all(isinstance(t, ast.Name) for t in st.targets) else st)
            elif isinstance(st, ast.AnnAssign) and isinstance(st.target, ast.Name) and st.target.id == name and st.value is not None:
                bindings.append(st.value)
            elif isinstance(st, ast.AugAssign) and isinstance(st.target, ast.Name) and st.target.id == name:
                bindings.append(st)
            elif isinstance(st, (ast.Import, ast.ImportFrom)):
                for a in st.names:
                    if (a.asname or a.name.split('.')[0]) == name:
                        bindings.append((st, a))
            elif isinstance(st, (ast.If, ast.Try, ast.For, ast.While, ast.With)):
                if any(isinstance(x, ast.Name) and x.id == name and isinstance(x.ctx, ast.Store) for x in ast.walk(st)) or \
                        any(isinstance(x, (ast.FunctionDef, ast.ClassDef)) and x.name == name for x in ast.walk(st)):
                    bindings.append(st)
        for n in ast.walk(m.tree):
            if isinstance(n, ast.Global) and name in n.names:
                return ('state', f'{m.rel}::{name}', 'rebound through `global`')
        if not bindings:
            if name in C.BUILTINS or name in C._NATIVE_TYPES:
                return ('pure', name)
            return ('unknown', f'{m.rel}: name {name} is not bound at module level')
        if len(bindings) != 1:
            return ('unknown', f'{m.rel}: {name} is bound {len(bindings)} times at module level')
        b = bindings[0]
        if isinstance(b, ast.FunctionDef):
            return ('func', m, b)
        if isinstance(b, ast.ClassDef):
            return ('class', m, b)
        if isinstance(b, tuple):
            st, a = b
            if isinstance(st, ast.Import):
                return ('pure', a.name if a.asname else a.name.split('.')[0])
            tgt = self._import_target(m, st)
            if tgt is None:
                return ('pure', f'{st.module}.{a.name}')
            return self.resolve_global(tgt, a.name, depth + 1)
        if not isinstance(b, ast.expr):
            return ('unknown', f'{m.rel}: binding of {name} is not a plain assignment')
        if isinstance(b, ast.Constant):
            return ('const', b.value)
        if isinstance(b, (ast.Dict, ast.List, ast.Set, ast.DictComp, ast.ListComp, ast.SetComp)):
            return ('container', f'{m.rel}::{name}', b, m)
        if isinstance(b, ast.Name):
            return self.resolve_global(m, b.id, depth + 1)
        if isinstance(b, ast.Call):
            head = pf.dotted(b.func)
            # f = functools.lru_cache(maxsize=N)(g)  /  f = functools.cache(g)
            deco = b.func.func if isinstance(b.func, ast.Call) else b.func
            dn = pf.dotted(deco)
            if dn in _CACHE_DECORATORS and len(b.args) == 1 and isinstance(b.args[0], ast.Name) and not b.keywords and \
                    (isinstance(b.func, ast.Call) or dn.split('.')[-1] == 'cache' or True):
                r0 = self.resolve_global(m, dn.split('.')[0], depth + 1)
                inner = self.resolve_global(m, b.args[0].id, depth + 1)
                if r0[0] == 'pure' and (r0[1].startswith('functools') or r0[1] in _CACHE_DECORATORS) and inner[0] == 'func':
                    self.decorated.append(f'{m.rel}::{name} = {dn}({b.args[0].id})')
                    return inner
            if head is not None:
                h = self.resolve_global(m, head.split('.')[0], depth + 1) if '.' not in head else ('pure', head)
                if h[0] == 'pure' and h[1].split('.')[-1] == 'Grammar' and 'parsimonious' in h[1]:
                    return ('grammar', m, b)
                if h[0] == 'class':
                    km, kn = h[1], h[2]
                    if self._is_visitor_class(km, kn):
                        if b.args or b.keywords:
                            return ('unknown', f'{m.rel}: visitor {name} is constructed with arguments')
                        return ('visitor', km, kn)
                    return ('unknown', f'{m.rel}: {name} is an instance of {kn.name}')
                if h[0] == 'pure' and (h[1].startswith('re.') or h[1] in ('re.compile',)) or head in ('re.compile',):
                    return ('pure', f'{m.rel}::{name}')
                if head.split('.')[-1] in {c.split('.')[-1] for c in _CONTAINER_CTORS}:
                    return ('container', f'{m.rel}::{name}', b, m)
            return ('unknown', f'{m.rel}: {name} = {pf.nsrc(b)[:60]} is not recognised')
        return ('unknown', f'{m.rel}: {name} = {pf.nsrc(b)[:60]} is not recognised')

    def _is_visitor_class(self, m: pf.Module, c: ast.ClassDef) -> bool:
        for b in c.bases:
            d = pf.dotted(b)
            if d is None:
                continue
            r = self.resolve_global(m, d.split('.')[0])
            if r[0] == 'pure' and r[1].split('.')[-1] == 'NodeVisitor':
                return True
            if r[0] == 'class' and self._is_visitor_class(r[1], r[2]):
                return True
        return False

    @staticmethod
    def _import_target(m: pf.Module, st: ast.ImportFrom) -> Optional[pf.Module]:
        if st.level > 0:
            base = os.path.dirname(m.rel)
            for _ in range(st.level - 1):
                base = os.path.dirname(base)
            parts = [p_ for p_ in (st.module or '').split('.') if p_]
            stem = os.path.join(base, *parts) if parts else base
            cands = [stem + '.py', os.path.join(stem, '__init__.py')]
        else:
            mod = st.module or ''
            roots = {'hail': 'hail/python/hail', 'hailtop': 'hail/python/hailtop'}
            head = mod.split('.')[0]
            if head not in roots:
                return None
            stem = roots[head] + ('/' + '/'.join(mod.split('.')[1:]) if '.' in mod else '')
            cands = [stem + '.py', stem + '/__init__.py']
        for cnd in cands:
            try:
                return pf.load(cnd)
            except AnalysisError:
                continue
        return None

    # ---- expressions
    def ev(self, e: ast.AST, fx: dict) -> List[tuple]:
        self.steps += 1
        if self.steps > 20000:
            return [('unknown', 'abstract evaluation budget')]
        m: pf.Module = fx['m']
        if isinstance(e, ast.Constant):
            return [('const', e.value)]
        if isinstance(e, ast.Name):
            return self._name(e.id, fx)
        if isinstance(e, ast.NamedExpr):
            return self.ev(e.value, fx)
        if isinstance(e, ast.IfExp):
            return self.ev(e.body, fx) + self.ev(e.orelse, fx)
        if isinstance(e, ast.BoolOp):
            out: List[tuple] = []
            for v in e.values:
                out += self.ev(v, fx)
            return out
        if isinstance(e, ast.Attribute):
            base = self.ev(e.value, fx)
            out = []
            for b in base:
                if b[0] == 'func':
                    out.append(('container', f'{b[1].rel}::{b[2].name}.{e.attr}', None, b[1]))
                elif b[0] == 'pure':
                    out.append(('pure', f'{b[1]}.{e.attr}'))
                elif b[0] == 'self':
                    out.append(('container', f'{b[1]}.{e.attr}', None, m))
                else:
                    out.append(('unknown', f'attribute `{pf.nsrc(e)[:50]}`'))
            return out
        if isinstance(e, ast.Subscript):
            base = self.ev(e.value, fx)
            out = []
            for b in base:
                if b[0] == 'container':
                    for k in self.ev(e.slice, fx):
                        out.append(self._memo(b[1], k, e))
                elif b[0] in ('arg', 'const'):
                    out += self._compose(e, fx)
                else:
                    out.append(('unknown', f'subscript `{pf.nsrc(e)[:50]}`'))
            return out
        if isinstance(e, ast.Call):
            return self._call(e, fx)
        if isinstance(e, (ast.Tuple, ast.List, ast.JoinedStr, ast.BinOp, ast.FormattedValue, ast.ListComp, ast.GeneratorExp, ast.Compare, ast.UnaryOp)):
            return self._compose(e, fx)
        return [('unknown', f'expression `{pf.nsrc(e)[:60]}`')]

    def _memo(self, cid: str, k: tuple, e: ast.AST) -> tuple:
        if k[0] == 'arg':
            return ('memo', cid, k[1], k[2])
        if k[0] == 'const':
            return ('memo', cid, ast.Constant(value=k[1]), None)
        return ('unknown', f'key of `{pf.nsrc(e)[:50]}` is not a pure function of the argument ({k[0]}: {k[1] if len(k) > 1 else ""})')

    def _name(self, name: str, fx: dict) -> List[tuple]:
        env = fx['env']
        if name in env:
            return list(env[name])
        fn = fx['fn']
        if name in fx['busy']:
            return []
        defs = fx['defs'].get(name)
        if defs is not None:
            out: List[tuple] = []
            fx['busy'].add(name)
            try:
                for d in defs:
                    if isinstance(d, ast.expr):
                        out += self.ev(d, fx)
                    elif isinstance(d, ast.AugAssign):
                        out.append(('unknown', f'{name} is updated in place'))
                    elif isinstance(d, ast.arg):
                        out.append(('unknown', f'parameter {name} is not bound'))
                    elif isinstance(d, ast.ExceptHandler):
                        out.append(('const', None))
                    else:
                        out.append(('unknown', f'{name} is bound by `{pf.nsrc(d)[:50]}`'))
            finally:
                fx['busy'].discard(name)
            return out
        for n in pf.walk_shallow(fn):
            if isinstance(n, ast.Global) and name in n.names:
                return [('unknown', f'`global {name}` in {fn.name}: a scalar memo is not modelled')]
            if isinstance(n, ast.ImportFrom) and any((a.asname or a.name) == name for a in n.names):
                a0 = [a for a in n.names if (a.asname or a.name) == name][0]
                tgt = self._import_target(fx['m'], n)
                return [self.resolve_global(tgt, a0.name) if tgt is not None else ('pure', f'{n.module}.{a0.name}')]
            if isinstance(n, ast.Import) and any((a.asname or a.name.split('.')[0]) == name for a in n.names):
                a0 = [a for a in n.names if (a.asname or a.name.split('.')[0]) == name][0]
                return [('pure', a0.name if a0.asname else a0.name.split('.')[0])]
        r = self.resolve_global(fx['m'], name)
        if r[0] == 'state':
            return [('unknown', f'{r[1]} is module state {r[2]}; a scalar memo is not modelled')]
        return [r]

    def _compose(self, e: ast.AST, fx: dict) -> List[tuple]:
        """A pure expression over already-abstract parts: substitute and keep it as one T."""
        import copy
        holes: List[Tuple[ast.AST, List[tuple]]] = []

        class _Sub(ast.NodeTransformer):
            def __init__(s2, choice: Dict[int, ast.AST]):
                s2.choice = choice

            def generic_visit(s2, node):
                if id(node) in s2.choice:
                    return copy.deepcopy(s2.choice[id(node)])
                return super().generic_visit(node)

        # leaves that need resolution: Names (not bound by a comprehension inside e) and calls of repository functions
        bound = {x.id for g in ast.walk(e) if isinstance(g, ast.comprehension) for x in ast.walk(g.target) if isinstance(x, ast.Name)}
        bound |= {a.arg for l_ in ast.walk(e) if isinstance(l_, ast.Lambda) for a in l_.args.args}
        problems: List[tuple] = []
        rels = set()
        for n in ast.walk(e):
            if isinstance(n, ast.Name) and isinstance(n.ctx, ast.Load) and n.id not in bound:
                vals = self._name(n.id, fx)
                holes.append((n, vals))
            elif isinstance(n, (ast.Await, ast.Yield, ast.YieldFrom, ast.Starred)):
                problems.append(('unknown', f'`{pf.nsrc(e)[:50]}`'))
        combos: List[Dict[int, ast.AST]] = [{}]
        for n, vals in holes:
            alts: List[Optional[ast.AST]] = []
            for v in vals:
                if v[0] == 'arg':
                    alts.append(v[1])
                    if v[2] is not None:
                        rels.add(v[2])
                elif v[0] == 'const':
                    if v[1] is None or isinstance(v[1], (str, int, bool, bytes, float)):
                        alts.append(ast.Constant(value=v[1]))
                    else:
                        problems.append(('unknown', f'constant in `{pf.nsrc(e)[:50]}`'))
                elif v[0] == 'pure':
                    alts.append(None)  # keep the name: resolved in its module when T is evaluated
                    rels.add(fx['m'].rel)
                else:
                    problems.append(v if v[0] == 'unknown' else ('unknown', f'`{pf.nsrc(n)}` in `{pf.nsrc(e)[:50]}` is a {v[0]}'))
            if not alts:
                problems.append(('unknown', f'`{pf.nsrc(n)}` has no value'))
                continue
            nxt = []
            for cmb in combos:
                for a in alts:
                    c2 = dict(cmb)
                    if a is not None:
                        c2[id(n)] = a
                    nxt.append(c2)
            combos = nxt[:8]
        if problems:
            return problems[:1]
        # method calls must be pure str methods / pure functions
        for n in ast.walk(e):
            if isinstance(n, ast.Call):
                d = pf.dotted(n.func)
                ok = False
                if isinstance(n.func, ast.Attribute) and n.func.attr in _PURE_STR_METHODS | {'sub', 'split', 'subn', 'fullmatch', 'match', 'search', 'group', 'decode', 'items', 'keys', 'values'}:
                    ok = True
                if d is not None:
                    r = self.resolve_global(fx['m'], d.split('.')[0]) if d.split('.')[0] not in bound and d.split('.')[0] not in fx['env'] and d.split('.')[0] not in fx['defs'] else ('local',)
                    full = (r[1] + d[len(d.split('.')[0]):]) if r[0] == 'pure' else d
                    if full in _PURE_FUNCS or (r[0] == 'pure' and full.split('.')[-1] in {p_.split('.')[-1] for p_ in _PURE_FUNCS} and full.split('.')[0] in ('re', 'sys', 'unicodedata', 'str', 'tuple', 'list', 'sorted', 'len', 'repr', 'bytes', 'map', 'filter', 'reversed', 'ascii', 'frozenset')):
                        ok = True
                    if full in ('hash', 'id') or full.endswith('.hash'):
                        return [('unknown', f'`{pf.nsrc(n)[:50]}`: hash()/id() are not functions of the text alone (randomised / collisions)')]
                if not ok:
                    return [('unknown', f'`{pf.nsrc(n)[:60]}` is not a recognised pure string operation')]
        if len(rels) > 1:
            return [('unknown', f'`{pf.nsrc(e)[:50]}` mixes names of several modules')]
        rel = next(iter(rels)) if rels else fx['m'].rel
        out = []
        for cmb in combos:
            t = _Sub(cmb).visit(copy.deepcopy(e)) if not cmb else None
            if cmb:
                # substitution must address the ORIGINAL nodes: rebuild by walking in parallel
                t = self._subst(e, cmb)
            names = {x.id for x in ast.walk(t) if isinstance(x, ast.Name)}
            if ARG in names:
                out.append(('arg', t, rel))
            else:
                out.append(('arg', t, rel) if names - bound else ('constexpr', t, rel))
        res = []
        for v in out:
            if v[0] == 'constexpr':
                try:
                    res.append(('const', ast.literal_eval(v[1])))
                except (ValueError, SyntaxError, TypeError):
                    res.append(('arg', v[1], v[2]))
            else:
                res.append(v)
        return res

    @staticmethod
    def _subst(e: ast.AST, choice: Dict[int, ast.AST]) -> ast.AST:
        import copy

        def rec(n: ast.AST) -> ast.AST:
            if id(n) in choice:
                return copy.deepcopy(choice[id(n)])
            new = copy.copy(n)
            for f, v in ast.iter_fields(n):
                if isinstance(v, list):
                    setattr(new, f, [rec(x) if isinstance(x, ast.AST) else x for x in v])
                elif isinstance(v, ast.AST):
                    setattr(new, f, rec(v))
            return new
        return ast.fix_missing_locations(rec(e))

    def _call(self, e: ast.Call, fx: dict) -> List[tuple]:
        f = e.func
        out: List[tuple] = []
        if isinstance(f, ast.Attribute):
            recv = self.ev(f.value, fx)
            handled = False
            for r in recv:
                if r[0] == 'grammar' and f.attr == 'parse':
                    handled = True
                    if len(e.args) != 1 or e.keywords:
                        out.append(('unknown', f'`{pf.nsrc(e)[:60]}`'))
                        continue
                    for a in self.ev(e.args[0], fx):
                        out.append(('tree', a[1], a[2]) if a[0] == 'arg' else ('unknown', f'`{pf.nsrc(e)[:60]}` parses something that is not a function of the argument'
                                                                                  + (f' ({a[1]})' if a[0] == 'unknown' else '')))
                elif r[0] == 'visitor' and f.attr == 'visit':
                    handled = True
                    if (r[1].rel, r[2]) not in [(x[0], x[1]) for x in self.visitors]:
                        self.visitors.append((r[1].rel, r[2]))
                    if len(e.args) != 1 or e.keywords:
                        out.append(('unknown', f'`{pf.nsrc(e)[:60]}`'))
                        continue
                    for a in self.ev(e.args[0], fx):
                        out.append(('parsed', a[1], a[2]) if a[0] == 'tree' else a if a[0] == 'unknown' else ('unknown', f'`{pf.nsrc(e)[:60]}` visits something that is not a parse tree'))
                elif r[0] == 'container':
                    handled = True
                    cid = r[1]
                    if f.attr in ('get', 'pop', '__getitem__') and 1 <= len(e.args) <= 2 and not e.keywords:
                        for k in self.ev(e.args[0], fx):
                            out.append(self._memo(cid, k, e))
                        if len(e.args) == 2:
                            out += [v for v in self.ev(e.args[1], fx) if v != ('const', None)]
                    elif f.attr == 'setdefault' and len(e.args) == 2 and not e.keywords:
                        ks = self.ev(e.args[0], fx)
                        vs = self.ev(e.args[1], fx)
                        self.writes.append({'C': cid, 'K': ks, 'V': vs, 'm': fx['m'], 'fn': fx['fn'], 'node': e})
                        for k in ks:
                            out.append(self._memo(cid, k, e))
                        out += vs
                    elif f.attr in ('clear', 'cache_clear'):
                        out.append(('const', None))
                    else:
                        out.append(('unknown', f'`{pf.nsrc(e)[:60]}` on the container {cid}'))
            if handled:
                return out
            if any(r[0] == 'unknown' for r in recv) and not any(r[0] in ('arg', 'const', 'pure') for r in recv):
                return [r for r in recv if r[0] == 'unknown'][:1]
            return self._compose(e, fx)
        d = pf.dotted(f)
        if isinstance(f, ast.Name):
            targets = self._name(f.id, fx)
            outs: List[tuple] = []
            for t in targets:
                if t[0] == 'func':
                    outs += self.call_function(t[1], t[2], e, fx)
                elif t[0] == 'pure':
                    outs += self._compose(e, fx)
                elif t[0] == 'class':
                    outs.append(('unknown', f'`{pf.nsrc(e)[:60]}` constructs a {t[2].name}'))
                else:
                    outs.append(t if t[0] == 'unknown' else ('unknown', f'call of `{d}` ({t[0]})'))
            return outs
        return [('unknown', f'call `{pf.nsrc(e)[:60]}`')]

    def call_function(self, m: pf.Module, fn: ast.FunctionDef, call: Optional[ast.Call], fx: Optional[dict]) -> List[tuple]:
        """Abstract results of fn; arguments are taken from `call` evaluated in fx (root call: the single parameter is ARG)."""
        key = (m.rel, fn.name)
        depth = (fx['depth'] + 1) if fx else 0
        if depth > 6 or (fx and key in fx['stack']):
            return [('unknown', f'recursion / call depth at {fn.name}')]
        a = fn.args
        params = [x.arg for x in a.posonlyargs + a.args]
        env: Dict[str, List[tuple]] = {}
        if a.vararg or a.kwarg:
            return [('unknown', f'{m.rel}::{fn.name} takes *args / **kwargs')]
        for dco in fn.decorator_list:
            dn = pf.dotted(dco.func if isinstance(dco, ast.Call) else dco) or pf.nsrc(dco)
            if dn in _CACHE_DECORATORS:
                r = self.resolve_global(m, dn.split('.')[0])
                if r[0] != 'pure' or not (r[1].startswith('functools') or r[1] in _CACHE_DECORATORS):
                    return [('unknown', f'{m.rel}::{fn.name}: decorator `{dn}` does not resolve to functools')]
                self.decorated.append(f'{m.rel}::{fn.name}::@{dn}')
            elif dn.split('.')[-1] in {x.split('.')[-1] for x in _NEUTRAL_DECORATORS}:
                continue
            else:
                return [('unknown', f'{m.rel}::{fn.name} carries the decorator `{pf.nsrc(dco)[:50]}`, which may cache or alter its result')]
        defaults = dict(zip(params[len(params) - len(a.defaults):], a.defaults))
        if call is None:
            if not params:
                return [('unknown', f'{m.rel}::{fn.name} has no parameter')]
            env[params[0]] = [('arg', ast.Name(id=ARG, ctx=ast.Load()), None)]
            rest = params[1:]
        else:
            if any(isinstance(x, ast.Starred) for x in call.args) or any(k.arg is None for k in call.keywords) or len(call.args) > len(params):
                return [('unknown', f'`{pf.nsrc(call)[:60]}`: argument passing not recognised')]
            for p_, x in zip(params, call.args):
                env[p_] = self.ev(x, fx)  # type: ignore[arg-type]
            for k in call.keywords:
                if k.arg not in params or k.arg in env:
                    return [('unknown', f'`{pf.nsrc(call)[:60]}`: argument passing not recognised')]
                env[k.arg] = self.ev(k.value, fx)  # type: ignore[arg-type]
            rest = [p_ for p_ in params if p_ not in env]
        for p_ in rest + [k.arg for k in a.kwonlyargs]:
            dflt = defaults.get(p_)
            if p_ in [k.arg for k in a.kwonlyargs]:
                dflt = dict(zip([k.arg for k in a.kwonlyargs], a.kw_defaults)).get(p_)
            if dflt is None:
                return [('unknown', f'{m.rel}::{fn.name}: parameter {p_} is not bound')]
            if isinstance(dflt, (ast.Dict, ast.List, ast.Set)) or (isinstance(dflt, ast.Call) and (pf.dotted(dflt.func) or '').split('.')[-1] in {c.split('.')[-1] for c in _CONTAINER_CTORS}):
                env[p_] = [('container', f'{m.rel}::{fn.name}(<default of {p_}>)', dflt, m)]
            elif isinstance(dflt, ast.Constant):
                env[p_] = [('const', dflt.value)]
            else:
                return [('unknown', f'{m.rel}::{fn.name}: default of {p_} not recognised')]
        if (m.rel, fn.name) not in self.functions:
            self.functions.append((m.rel, fn.name))
        defs = pf.assignments(fn)
        for p_ in params + [k.arg for k in a.kwonlyargs]:
            ds = [d for d in defs.get(p_, []) if not isinstance(d, ast.arg)]
            if ds:
                # a rebound parameter: every definition counts
                defs = dict(defs)
                defs[p_] = ds
                env_p = env.pop(p_)
                fx2_env_extra = env_p
            else:
                defs = {k: v for k, v in defs.items() if k != p_}
        nfx = {'m': m, 'fn': fn, 'env': env, 'defs': defs, 'busy': set(), 'depth': depth, 'stack': (fx['stack'] if fx else ()) + (key,)}
        out: List[tuple] = []
        has_yield = False
        for n in pf.walk_shallow(fn):
            if isinstance(n, (ast.Yield, ast.YieldFrom, ast.Await)):
                has_yield = True
            elif isinstance(n, ast.Return):
                if n.value is None:
                    out.append(('const', None))
                else:
                    out += self.ev(n.value, nfx)
            elif isinstance(n, (ast.Assign, ast.AugAssign, ast.AnnAssign)):
                targets = n.targets if isinstance(n, ast.Assign) else [n.target]
                for t in targets:
                    for x in ([t] if not isinstance(t, (ast.Tuple, ast.List)) else list(t.elts)):
                        if isinstance(x, ast.Subscript):
                            bases = self.ev(x.value, nfx)
                            for b in bases:
                                if b[0] == 'container' and isinstance(n, ast.Assign):
                                    self.writes.append({'C': b[1], 'K': self.ev(x.slice, nfx), 'V': self.ev(n.value, nfx), 'm': m, 'fn': fn, 'node': n})
                                else:
                                    out.append(('unknown', f'store `{pf.nsrc(n)[:60]}` in {fn.name}'))
                        elif isinstance(x, ast.Attribute):
                            out.append(('unknown', f'attribute store `{pf.nsrc(n)[:60]}` in {fn.name}: state outside the recognised memo idioms'))
            elif isinstance(n, ast.Expr) and isinstance(n.value, ast.Call):
                # statement-level calls: container mutations are recorded by _call; anything else must be pure
                r = self.ev(n.value, nfx)
                out += [v for v in r if v[0] == 'unknown']
            elif isinstance(n, (ast.Global, ast.Nonlocal)):
                stored = {x.id for x in pf.walk_shallow(fn) if isinstance(x, ast.Name) and isinstance(x.ctx, ast.Store)}
                if stored & set(n.names):
                    out.append(('unknown', f'{fn.name} rebinds the module-level name(s) {sorted(stored & set(n.names))}: a scalar memo is not modelled'))
            elif isinstance(n, ast.Delete):
                out.append(('unknown', f'`{pf.nsrc(n)[:50]}` in {fn.name}'))
            elif isinstance(n, (ast.FunctionDef, ast.Lambda, ast.ClassDef)) and n is not fn:
                out.append(('unknown', f'nested definition in {fn.name}'))
        if has_yield:
            return [('unknown', f'{fn.name} is a generator / coroutine')]
        if not out:
            out.append(('const', None))
        return out



def _peel_key(t: ast.AST) -> ast.AST:
    """Strip wrappers that are injective in the wrapped value: (X,), (X, const), str(X), intern(X), X + 'c', 'c' + X, f'c{X}c'."""
    while True:
        if isinstance(t, ast.Tuple):
            var = [x for x in t.elts if not isinstance(x, ast.Constant)]
            if len(var) == 1 and not isinstance(var[0], ast.Starred):
                t = var[0]
                continue
        if isinstance(t, ast.Call) and not t.keywords and len(t.args) == 1 and pf.dotted(t.func) in ('str', 'sys.intern', 'intern', 'tuple') and \
                (pf.dotted(t.func) != 'tuple' or isinstance(t.args[0], (ast.Tuple, ast.List))):
            t = t.args[0]
            continue
        if isinstance(t, ast.BinOp) and isinstance(t.op, ast.Add) and (isinstance(t.left, ast.Constant) or isinstance(t.right, ast.Constant)):
            t = t.right if isinstance(t.left, ast.Constant) else t.left
            continue
        if isinstance(t, ast.JoinedStr):
            holes = [v for v in t.values if isinstance(v, ast.FormattedValue)]
            if len(holes) == 1 and holes[0].format_spec is None and holes[0].conversion in (-1, ord('s')):
                t = holes[0].value
                continue
        return t


def _peel_value(t: ast.AST) -> ast.AST:
    while isinstance(t, ast.Call) and not t.keywords and len(t.args) == 1 and pf.dotted(t.func) in ('str', 'sys.intern', 'intern'):
        t = t.args[0]
    return t


def _strip_chain(t: ast.AST) -> Optional[List[Tuple[str, Optional[str]]]]:
    """X.strip() / .lstrip(c) / .rstrip() ... applied to the argument itself -> [(method, chars|None) ...]; None if another shape."""
    ops: List[Tuple[str, Optional[str]]] = []
    while True:
        if isinstance(t, ast.Name) and t.id == ARG:
            return ops
        if isinstance(t, ast.Call) and isinstance(t.func, ast.Attribute) and t.func.attr in ('strip', 'lstrip', 'rstrip') and not t.keywords and len(t.args) <= 1:
            if t.args:
                if not (isinstance(t.args[0], ast.Constant) and (isinstance(t.args[0].value, str) or t.args[0].value is None)):
                    return None
                ops.append((t.func.attr, t.args[0].value))
            else:
                ops.append((t.func.attr, None))
            t = t.func.value
            continue
        return None


def grammar_skips_outer(G: P.Grammar, chars: R.CharSet, left: bool, right: bool) -> Optional[str]:
    """None when the start rule begins (ends) with a greedy one-class repetition terminal that accepts every string over `chars`:
    removing such characters at the start (end) of the text does not change the parse.  Otherwise the reason."""
    e = G.rules[G.default]
    if e[0] != 'seq' or len(e[1]) < 2:
        return f'the start rule `{G.default}` is not a sequence'
    for side, x in (('first', e[1][0]), ('last', e[1][-1])):
        if (side == 'first' and not left) or (side == 'last' and not right):
            continue
        if x[0] != 'ref':
            return f'the {side} member of `{G.default}` is not a whitespace rule'
        w = G.rules[x[1]]
        if w[0] != 're' or w[2]:
            return f'the {side} member `{x[1]}` of `{G.default}` is not a regex terminal'
        try:
            import re._constants as sc
            import re._parser as spr
        except ImportError:  # pragma: no cover
            import sre_constants as sc  # type: ignore
            import sre_parse as spr  # type: ignore
        items = list(spr.parse(w[1]))
        single = len(items) == 1 and items[0][0] is sc.MAX_REPEAT and items[0][1][0] == 0 and items[0][1][1] == sc.MAXREPEAT and len(list(items[0][1][2])) == 1
        if not single:
            return f'the terminal `{x[1]}` = {w[1]!r} is not a greedy `[class]*`'
        bad = R.included(R.lang(R.star(R.chars(chars)), 'stripped*'), R.from_regex(w[1], 0, 'fullmatch'))
        if bad is not None:
            return f'the terminal `{x[1]}` = {w[1]!r} does not accept {bad!r}, which the key normalisation removes'
    return None


class KeyEval:
    """Concrete evaluation of a key / parse-input function T on our own strings (pyconc; Unsupported -> decline)."""

    def __init__(self, ses: Session):
        self.ses = ses

    def __call__(self, t: ast.AST, rel: Optional[str], s: str) -> Tuple[Any, Optional[str]]:
        it = self.ses.it
        env = C.Env(None, it.module(rel or F_TYPES))
        env.vars[ARG] = s
        try:
            return it.ev(t, env), None
        except C.PyRaise as r:
            return None, f'{r.name}{r.pargs!r}'[:160]


def true_parse(ses: Session, s: Any) -> Tuple[Any, Optional[str]]:
    """visit(parse(s)) with the grammar and the visitor themselves (no front door): what the text denotes."""
    if not isinstance(s, str):
        return None, f'TypeError: parse of a {type(s).__name__}'
    try:
        return ses.it.eval_src(F_GRAMMAR, 'type_node_visitor.visit(type_grammar.parse(s))', {'s': s}), None
    except C.PyRaise as r:
        return None, f'{r.name}{r.pargs!r}'[:160]


def _tsrc(t: ast.AST) -> str:
    return pf.nsrc(t).replace(ARG, 'type_str')


def check_parse_flow(ctx: Ctx, mt: pf.Module, G: P.Grammar, battery: List[Tuple[str, Any, str]], ses: Session) -> None:
    """R7.  battery: (text, the type it was printed from, description)."""
    fl = Flow(ctx)
    fn = mt.func('dtype')
    results = fl.call_function(mt, fn, None, None)
    declines: List[str] = []
    kev = KeyEval(ses)
    cons0 = f'{F_TYPES}::dtype'
    by_text = {}
    for text, t, desc in battery:
        by_text.setdefault(text, (t, desc))
    texts = list(by_text.items())

    def same_type(a: Any, b: Any) -> bool:
        return types_equal(ses, a, b)

    def transform_verdict(t: ast.AST, rel: Optional[str], as_key: bool) -> Tuple[str, str]:
        """('ok', why) the transformation cannot merge / alter texts with different parses; ('bad', witness); ('unknown', why)."""
        core = _peel_key(t) if as_key else _peel_value(t)
        chain = _strip_chain(core)
        if chain is not None and not chain:
            return 'ok', 'the argument itself'
        if chain is not None:
            chars = R.CharSet.empty()
            for meth, cs in chain:
                chars = chars | (R.pred('str.isspace') if cs is None else R.CharSet.of(cs))
            left = any(m_ in ('strip', 'lstrip') for m_, _c in chain)
            right = any(m_ in ('strip', 'rstrip') for m_, _c in chain)
            why = grammar_skips_outer(G, chars, left, right)
            if why is None:
                return 'ok', f'`{_tsrc(t)}` only removes characters that the start rule of the grammar skips at both ends'
            # not provably harmless: look for a witness below
        # witness search on the battery
        if as_key:
            seen: Dict[str, Tuple[str, Any, str]] = {}
            for text, (ty, desc) in texts:
                k, err = kev(t, rel, text)
                if err is not None:
                    return 'bad', f'`{_tsrc(t)}` raises {err} for the printed form {ascii(text)} of {desc}'
                try:
                    kk = ses.it.to_repr(k)
                except AnalysisError as ex:
                    return 'unknown', f'key `{_tsrc(t)}`: {ex}'
                if kk in seen and not same_type(seen[kk][1], ty):
                    h, hty, hdesc = seen[kk]
                    return 'bad', (f'`{_tsrc(t)}` maps {ascii(h)} (printed form of {hdesc}) and {ascii(text)} (printed form of {desc}) to the same key {kk[:80]}, '
                                   f'but they denote different types')
                seen.setdefault(kk, (text, ty, desc))
            return 'unknown', f'`{_tsrc(t)}` is not one of the recognised injective / parse-preserving shapes and no colliding pair was found among {len(texts)} sample strings'
        for text, (ty, desc) in texts:
            s2, err = kev(t, rel, text)
            if err is not None:
                return 'bad', f'`{_tsrc(t)}` raises {err} for the printed form {ascii(text)} of {desc}'
            got, perr = true_parse(ses, s2)
            if perr is not None or not same_type(ty, got):
                what = f'does not parse ({perr})' if perr is not None else f'parses as {ascii(ses.show(got))}'
                fresh = Session()
                try:
                    fgot, ferr = fresh.try_dtype(text)
                except C.Unsupported as ex:
                    return 'unknown', f'cannot replay dtype({ascii(text)}) with the evaluator: {ex}'
                if ferr is None and struct_equal(fresh.it, ty, fgot):
                    return 'unknown', (f'`{_tsrc(t)}` alters {ascii(text)} in a way that changes its parse, but evaluating dtype on it does not reproduce a wrong '
                                       f'result (guarded path?)')
                return 'bad', f'for t = {desc}, the printed form {ascii(text)} is turned into {ascii(s2) if isinstance(s2, str) else type(s2).__name__} before parsing, which {what}, not t'
        return 'unknown', f'`{_tsrc(t)}` is applied to the text before parsing; it is not a recognised parse-preserving shape (no sample is altered by it)'

    def _replays(h: str, text: str, ty: Any) -> bool:
        """dtype(h); dtype(text) in a fresh modelled process returns something that is not the type `text` was printed from."""
        fresh = Session()
        try:
            fresh.try_dtype(h)
            got, err = fresh.try_dtype(text)
        except C.Unsupported as ex:
            raise AnalysisError(f'R7: cannot replay the colliding history with the evaluator: {ex}') from None
        return err is not None or not struct_equal(fresh.it, ty, got)

    seen_ret = set()
    for v in results:
        if v[0] == 'unknown':
            declines.append(str(v[1]))
            continue
        if v[0] == 'const' and v[1] is None and len(results) > 1:
            continue  # flow-insensitive artefact of `x = cache.get(k)` / bare return in a helper
        if v[0] == 'parsed':
            key = ('parsed', pf.nsrc(v[1]))
            if key in seen_ret:
                continue
            seen_ret.add(key)
            verdict, why = transform_verdict(v[1], v[2], as_key=False)
            cons = f'{cons0}::returns visit(parse({_tsrc(v[1])}))'
            if verdict == 'ok':
                ctx.ok('R7', cons, why)
            elif verdict == 'bad':
                ctx.bad('R7', cons, f'dtype parses `{_tsrc(v[1])}` instead of its argument: {why}', mt.path, fn.lineno)
            else:
                declines.append(why)
        elif v[0] == 'memo':
            cid, K, krel = v[1], v[2], v[3]
            key = ('memo', cid, pf.nsrc(K))
            if key in seen_ret:
                continue
            seen_ret.add(key)
            cons = f'{cons0}::returns {cid.split("::")[-1]}[{_tsrc(K)}]'
            ws = [w for w in fl.writes if w['C'] == cid]
            # other writers in the module(s) that the flow did not visit
            foreign = _foreign_writers(fl, cid)
            if foreign:
                declines.append(f'the container {cid} is also written by {foreign}; not analysed')
                continue
            if not ws:
                declines.append(f'dtype returns entries of {cid}, which no analysed function fills (pre-populated table?); not analysed')
                continue
            problem: Optional[str] = None
            unknown: Optional[str] = None
            kv, kwhy = transform_verdict(K, krel, as_key=True)
            for w in ws:
                wk = [k for k in w['K']]
                if any(k[0] not in ('arg',) for k in wk):
                    unknown = f'a key written to {cid} in {w["fn"].name} is not a pure function of the argument'
                    continue
                for k in wk:
                    for val in w['V']:
                        if val[0] == 'memo' and val[1] == cid:
                            continue
                        if val[0] == 'const' and val[1] is None:
                            continue
                        if val[0] != 'parsed':
                            unknown = f'the value stored in {cid} by `{pf.nsrc(w["node"])[:60]}` is not a parse result ({val[0]}{": " + str(val[1]) if val[0] == "unknown" else ""})'
                            continue
                        same_key = pf.nsrc(k[1]) == pf.nsrc(K)
                        tv, twhy = transform_verdict(val[1], val[2], as_key=False)
                        if tv == 'bad':
                            problem = f'`{pf.nsrc(w["node"])[:70]}` stores the parse of `{_tsrc(val[1])}`: {twhy}'
                        elif tv == 'unknown':
                            unknown = twhy
                        if same_key and kv == 'ok':
                            continue
                        # read key K(s), write key Kw(h), stored value parse(Tv(h)): search a history h ; s
                        index: Dict[str, List[Tuple[str, Any, str]]] = {}
                        for text, (ty, desc) in texts:
                            kwv, err = kev(k[1], k[2], text)
                            if err is not None:
                                problem = f'the key `{_tsrc(k[1])}` raises {err} for {ascii(text)}'
                                break
                            try:
                                index.setdefault(ses.it.to_repr(kwv), []).append((text, ty, desc))
                            except AnalysisError as ex:
                                unknown = f'key `{_tsrc(k[1])}`: {ex}'
                                break
                        if problem or (unknown and not index):
                            continue
                        found = None
                        for text, (ty, desc) in texts:
                            kr, err = kev(K, krel, text)
                            if err is not None:
                                problem = f'the key `{_tsrc(K)}` raises {err} for {ascii(text)}'
                                break
                            try:
                                kk = ses.it.to_repr(kr)
                            except AnalysisError as ex:
                                unknown = f'key `{_tsrc(K)}`: {ex}'
                                break
                            for h, hty, hdesc in index.get(kk, []):
                                if h != text and not same_type(hty, ty):
                                    found = (h, hdesc, text, desc, kk)
                                    break
                            if found:
                                break
                        if found and not _replays(found[0], found[2], by_text[found[2]][0]):
                            unknown = (f'the keys of {ascii(found[0])} and {ascii(found[2])} collide in {cid}, but replaying dtype on that history with the evaluator does '
                                       f'not reproduce a wrong result (guarded write?)')
                        elif found:
                            h, hdesc, text, desc, kk = found
                            problem = (f'history: hl.dtype({ascii(h)}) [printed form of {hdesc}] stores its result under the key {kk[:70]} '
                                       f'(`{pf.nsrc(w["node"])[:60]}`); then hl.dtype({ascii(text)}) [printed form of t = {desc}] computes the same key and returns the '
                                       f'stored type instead of t. The key `{_tsrc(K)}` is not an injective function of the text: two texts that denote different types '
                                       f'share a key (what the key drops or folds is significant, e.g. inside back-ticked names)')
                        elif not problem:
                            unknown = unknown or (kwhy if kv != 'ok' else f'read key `{_tsrc(K)}` and write key `{_tsrc(k[1])}` differ; no colliding history found')
            if problem:
                ctx.bad('R7', cons, problem, mt.path, fn.lineno, extra={'container': cid, 'key': _tsrc(K)})
            elif unknown:
                declines.append(unknown)
            else:
                ctx.ok('R7', cons, f'memo keyed by {kwhy}; only written with the value parsed from the same text')
        else:
            declines.append(f'dtype may return a {v[0]} value ({pf.nsrc(v[1])[:50] if len(v) > 1 and isinstance(v[1], ast.AST) else v[1:] })')
    for d in fl.decorated:
        ctx.ok('R7', f'{d}::keyed by the arguments themselves', 'functools cache: key = the argument tuple (str equality), value = result of the call on that very argument')
    # the visitor(s) keep no state between parses
    for vrel, vcls in fl.visitors:
        why = _visitor_state(vcls)
        if why is not None:
            declines.append(f'{vrel}::{vcls.name}: {why}')
        else:
            ctx.ok('R7', f'{vrel}::{vcls.name}::visitor methods keep no state between parses', {'methods': sum(isinstance(x, ast.FunctionDef) for x in vcls.body)})
    if declines:
        raise AnalysisError('R7 (dtype returns the parse of its own argument): ' + '; '.join(dict.fromkeys(declines)))


def _foreign_writers(fl: Flow, cid: str) -> List[str]:
    rel, _, name = cid.partition('::')
    base = name.split('.')[0].split('(')[0]
    out = []
    try:
        m = pf.load(rel)
    except AnalysisError:
        return []
    analysed = {f for r_, f in fl.functions if r_ == rel}
    for q, f in m.functions():
        if q in analysed or q.split('.')[-1] in analysed and '.' not in q:
            continue
        for n in pf.walk_shallow(f):
            tgt = None
            if isinstance(n, (ast.Assign, ast.AugAssign, ast.Delete)):
                ts = n.targets if isinstance(n, (ast.Assign, ast.Delete)) else [n.target]
                for t in ts:
                    if isinstance(t, ast.Subscript) and pf.dotted(t.value) == name:
                        tgt = q
            elif isinstance(n, ast.Call) and isinstance(n.func, ast.Attribute) and pf.dotted(n.func.value) == name and \
                    n.func.attr in ('setdefault', 'update', 'pop', 'popitem', '__setitem__'):
                tgt = q
            if tgt:
                out.append(tgt)
    return sorted(set(out))


_MUTATORS = {'append', 'extend', 'insert', 'add', 'update', 'setdefault', 'pop', 'popitem', 'remove', 'discard', 'clear', '__setitem__', 'move_to_end'}


def _visitor_state(c: ast.ClassDef) -> Optional[str]:
    """None when no method of the visitor class writes to anything but its own locals."""
    for st in c.body:
        if isinstance(st, (ast.Assign, ast.AnnAssign)):
            v = st.value
            if isinstance(v, (ast.Dict, ast.List, ast.Set)) or (isinstance(v, ast.Call) and (pf.dotted(v.func) or '').split('.')[-1] in ('dict', 'list', 'set', 'defaultdict', 'OrderedDict')):
                tn = st.targets[0] if isinstance(st, ast.Assign) else st.target
                if not (isinstance(tn, ast.Name) and tn.id == 'unwrapped_exceptions'):
                    return f'class-level mutable `{pf.nsrc(st)[:50]}`'
            continue
        if not isinstance(st, ast.FunctionDef):
            if isinstance(st, ast.Expr) and isinstance(st.value, ast.Constant):
                continue
            return f'class body statement `{pf.nsrc(st)[:50]}`'
        for dco in st.decorator_list:
            dn = pf.dotted(dco.func if isinstance(dco, ast.Call) else dco) or pf.nsrc(dco)
            if dn.split('.')[-1] not in ('staticmethod', 'override'):
                return f'{st.name} carries the decorator `{pf.nsrc(dco)[:40]}`'
        if st.name in ('visit', '__init__', '__new__', '__getattr__', '__getattribute__'):
            return f'{st.name} is overridden'
        locals_ = set(pf.assignments(st))
        for n in ast.walk(st):
            if isinstance(n, (ast.Global, ast.Nonlocal)):
                return f'{st.name} declares `{pf.nsrc(n)}`'
            if isinstance(n, (ast.Attribute, ast.Subscript)) and isinstance(n.ctx, (ast.Store, ast.Del)):
                root = n
                while isinstance(root, (ast.Attribute, ast.Subscript)):
                    root = root.value
                if not (isinstance(root, ast.Name) and root.id in locals_ and root.id not in ('self', 'node') and isinstance(n, ast.Subscript)):
                    return f'{st.name} stores to `{pf.nsrc(n)[:40]}`'
                if isinstance(root, ast.Name) and root.id in [a.arg for a in st.args.args]:
                    return f'{st.name} stores into its argument `{pf.nsrc(n)[:40]}`'
            if isinstance(n, ast.Call) and isinstance(n.func, ast.Attribute) and n.func.attr in _MUTATORS:
                root = n.func.value
                while isinstance(root, (ast.Attribute, ast.Subscript)):
                    root = root.value
                if not (isinstance(root, ast.Name) and root.id in locals_ and root.id not in [a.arg for a in st.args.args]):
                    return f'{st.name} calls `{pf.nsrc(n)[:50]}` on something that is not a local'
    return None



_PRINTER_METHODS = ('__str__', '__repr__', 'pretty', '_pretty', '_parsable_string')


def check_printer_memo(ctx: Ctx, mt: pf.Module, classes: Dict[str, ast.ClassDef]) -> None:
    """R7 (printer side): a printer either recomputes its text from the attributes on every call, or memoises it on attributes that
    never change after construction."""
    all_classes = dict(classes)
    try:
        all_classes['HailType'] = mt.cls('HailType')
    except AnalysisError:
        pass

    def chain(c: ast.ClassDef) -> List[ast.ClassDef]:
        out = [c]
        for b in c.bases:
            d = pf.dotted(b)
            if d in all_classes and all_classes[d] is not c:
                out += chain(all_classes[d])
        return out

    def self_name(f: ast.FunctionDef) -> Optional[str]:
        return f.args.args[0].arg if f.args.args else None

    def stores(f: ast.FunctionDef) -> List[Tuple[str, ast.AST, bool]]:
        """(attr, node, lazy) for every `self.attr = ...` in f; lazy: directly under `if self.attr is None` / `if not hasattr`."""
        sn = self_name(f)
        out = []
        par = mt.parents()
        for n in ast.walk(f):
            if isinstance(n, ast.Attribute) and isinstance(n.ctx, ast.Store) and isinstance(n.value, ast.Name) and n.value.id == sn:
                lazy = False
                cur = par.get(n)
                while cur is not None and cur is not f:
                    if isinstance(cur, ast.If):
                        tsrc = pf.nsrc(cur.test)
                        if tsrc in (f'{sn}.{n.attr} is None', f'not hasattr({sn}, {n.attr!r})', f'not {sn}.{n.attr}'):
                            lazy = True
                    cur = par.get(cur)
                out.append((n.attr, n, lazy))
        return out

    for cname, c in all_classes.items():
        ch = chain(c)
        own_printers = [st for st in c.body if isinstance(st, ast.FunctionDef) and st.name in _PRINTER_METHODS]
        if not own_printers:
            continue
        memo_attrs: Dict[str, str] = {}
        for f in own_printers:
            for dco in f.decorator_list:
                dn = pf.dotted(dco.func if isinstance(dco, ast.Call) else dco) or pf.nsrc(dco)
                if dn.split('.')[-1] in ('lru_cache', 'cache', 'cached_property'):
                    memo_attrs[f'@{dn} on {f.name}'] = f.name
                elif dn.split('.')[-1] not in ('abstractmethod', 'typecheck_method', 'typecheck', 'override'):
                    raise AnalysisError(f'{F_TYPES}::{cname}.{f.name}: decorator `{pf.nsrc(dco)[:40]}` on a printer is not recognised')
            for attr, node, lazy in stores(f):
                memo_attrs[attr] = f.name
        cons = f'{F_TYPES}::{cname}::printed text is computed from attributes that are fixed at construction'
        if not memo_attrs:
            ctx.ok('R7', cons, {'printers': [f.name for f in own_printers], 'memo': None})
            continue
        # attributes the printers read (through properties / methods of the class chain, transitively)
        methods: Dict[str, ast.FunctionDef] = {}
        for k in reversed(ch):
            for st in k.body:
                if isinstance(st, ast.FunctionDef):
                    methods[st.name] = st
        read: set = set()
        work = [f.name for f in own_printers]
        seen = set()
        while work:
            mn = work.pop()
            if mn in seen or mn not in methods:
                continue
            seen.add(mn)
            f = methods[mn]
            sn = self_name(f)
            for n in ast.walk(f):
                if isinstance(n, ast.Attribute) and isinstance(n.value, ast.Name) and n.value.id == sn and isinstance(n.ctx, ast.Load):
                    if n.attr in methods:
                        work.append(n.attr)
                    else:
                        read.add(n.attr)
        mutable: Dict[str, str] = {}
        for mn, f in methods.items():
            if mn in ('__init__', '__new__'):
                continue
            for attr, node, lazy in stores(f):
                if attr in memo_attrs or lazy:
                    continue
                mutable[attr] = mn
        stale = sorted(a for a in read if a in mutable)
        ctx.check(not stale, 'R7', cons,
                  f'{cname}.{sorted(set(memo_attrs.values()))[0]} remembers its text ({", ".join(sorted(memo_attrs))}) but reads the attribute(s) {stale}, which '
                  f'{cname}.{mutable[stale[0]] if stale else ""} assigns after construction: the remembered text goes stale and no longer parses back to the type',
                  mt.path, own_printers[0].lineno, detail={'memo': sorted(memo_attrs), 'reads': sorted(read)})



# --------------------------------------------------------------------------------------
# R9: the engine reads `_parsable_string()` of every sample in full, with the same structure and the same names as the Python grammar
# reads `str()` of it (IRLexer / IRParser.type_expr modelled from the extracted Scala fragments)
# --------------------------------------------------------------------------------------


class EngineReject(Exception):
    def __init__(self, msg: str, escape_char: Optional[str] = None):
        super().__init__(msg)
        self.escape_char = escape_char


class EngineModel:
    def __init__(self, ctx: Ctx, lex: dict, ident: dict, tokens: List[str], arms: dict, L_java: R.Lang, cases: Dict[str, str]):
        self.lex, self.arms, self.cases = lex, arms, cases
        ctx.need(tokens[:4] == ['identifier', 'float64_literal', 'int64_literal', 'string_literal'] and len(tokens) == 5 and tokens[4].endswith('.r'),
                 f'{F_PARSER}::IRLexer.token: alternatives changed ({tokens}); the lexer model does not apply')
        ctx.need(ident['alternatives'] == ['backtickLiteral', 'ident'], f'{F_PARSER}::IRLexer.identifier is not `backtickLiteral | ident` ({ident["alternatives"]})')
        self.delim = ident.get('backtick_delim', '`')
        self.punct = re.compile(S.scala_string_value(tokens[4][:-2], F_PARSER))
        self.java = R.to_dfa(L_java, R.alphabet_for([L_java]))
        src = S.load(F_PARSER)
        lspan = src.find_object('IRLexer')
        ltext = src.norm(lspan[0], lspan[1])
        self.float_res = []
        for pat in (r'[+-]?\d+(\.\d+)?[eE][+-]?\d+', r'[+-]?\d*\.\d+'):
            ctx.need(('"""' + pat + '""".r') in ltext, f'{F_PARSER}::IRLexer.float64_literal changed; the lexer model does not apply')
            self.float_res.append(re.compile(pat, re.A))
        ctx.need('def int64_literal: Parser[Long] = wholeNumber.map(_.toLong)' in ltext, f'{F_PARSER}::IRLexer.int64_literal changed')
        self.int_re = re.compile(r'-?\d+', re.A)
        self.ws = re.compile(r'\s+')
        # IRParser pieces
        pspan = src.find_object('IRParser')
        self.src, self.pspan = src, pspan
        _st, lo, hi, _sig = src.find_def('type_expr', pspan, signature_contains='it: TokenIterator')
        body = src.norm(lo, hi)
        head = body.split('identifier(it) match')[0]
        self.skip_plus = 'case x: PunctuationToken if x.value == "+" => punctuation(it, "+")' in head
        ctx.need(self.skip_plus or 'punctuation' not in head, f'{F_PARSER}::IRParser.type_expr: prelude `{head[:80]}` not recognised')
        rs = [src.norm(lo2, hi2) for _s, lo2, hi2, _g in src.find_defs('repsepUntil', pspan)]
        ctx.need(rs == ['{ val xs = ArraySeq.newBuilder[T] while (it.hasNext && it.head != end) { xs += f(it) if (it.head == sep) consumeToken(it): Unit } xs.result() }'],
                 f'{F_PARSER}::IRParser.repsepUntil changed; its model does not apply')
        self.scripts: Dict[str, Tuple[List[tuple], str]] = {}
        self.helpers: Dict[str, Tuple[List[tuple], str]] = {}

    # ---- lexer
    def tokenize(self, text: str) -> List[Tuple[str, Any]]:
        out: List[Tuple[str, Any]] = []
        i, n = 0, len(text)
        while True:
            mws = self.ws.match(text, i)
            if mws:
                i = mws.end()
            if i >= n:
                return out
            c = text[i]
            if c == self.delim:
                j = i + 1
                body = []
                while True:
                    if j >= n:
                        raise EngineReject(f'unterminated backtick identifier starting at offset {i}')
                    ch = text[j]
                    j += 1
                    if ch == self.delim:
                        break
                    body.append(ch)
                    if ch == '\\':
                        if j >= n:
                            raise EngineReject('unterminated backtick identifier')
                        d = text[j]
                        if d not in self.lex['escape_chars']:
                            raise EngineReject(f'invalid escape character {d!r} in backtick identifier at offset {j}', escape_char=d)
                        body.append(d)
                        j += 1
                units = scala_decode(''.join(body), self.arms)
                if units is None:
                    raise EngineReject(f'unescapeString rejects {"".join(body)!r}')
                out.append(('id', _from_utf16(units)))
                i = j
                continue
            end = R.longest_prefix_match(self.java, text, i)
            if end is not None and end > i:
                out.append(('id', text[i:end]))
                i = end
                continue
            if text.startswith('-inf', i):
                out.append(('float', '-inf'))
                i += 4
                continue
            mf = next((m for m in (r_.match(text, i) for r_ in self.float_res) if m), None)
            if mf:
                out.append(('float', mf.group()))
                i = mf.end()
                continue
            mi = self.int_re.match(text, i)
            if mi:
                out.append(('int', int(mi.group())))
                i = mi.end()
                continue
            if c in '"\'':
                raise EngineReject(f'string literal at offset {i} (not expected in a type)')
            mp = self.punct.match(text, i)
            if mp:
                out.append(('punct', mp.group()))
                i = mp.end()
                continue
            raise EngineReject(f'IRLexer has no token for {text[i:i + 10]!r} at offset {i}')

    # ---- parser scripts
    _STEP = [
        (re.compile(r'punctuation\(it, "(.)"\)\s*'), lambda m: ('punct', m.group(1))),
        (re.compile(r'val (\w+) = type_expr\(it\)\s*'), lambda m: ('type', m.group(1))),
        (re.compile(r'val (\w+) = f\(it\)\s*'), lambda m: ('type', m.group(1))),
        (re.compile(r'val (\w+) = identifier\(it\)\s*'), lambda m: ('ident', m.group(1))),
        (re.compile(r'val (\w+) = int32_literal\(it\)\s*'), lambda m: ('int', m.group(1))),
        (re.compile(r'val (\w+) = repsepUntil\(it, (\w+), PunctuationToken\("(.)"\), PunctuationToken\("(.)"\)\)\s*'),
         lambda m: ('repsep', m.group(1), m.group(2), m.group(3), m.group(4))),
        (re.compile(r'while \(it\.hasNext && it\.head == PunctuationToken\("(.)"\)\) (\w+)\(it\): Unit\s*'), lambda m: ('while_punct', m.group(1), m.group(2))),
    ]

    def _script(self, text: str, where: str) -> Tuple[List[tuple], str]:
        t = text.strip()
        if t.startswith('{') and t.endswith('}'):
            t = t[1:-1].strip()
        steps: List[tuple] = []
        while True:
            for rx, mk in self._STEP:
                m = rx.match(t)
                if m:
                    steps.append(mk(m))
                    t = t[m.end():]
                    break
            else:
                break
        if re.search(r'\bit\b', t):
            raise AnalysisError(f'{F_PARSER}::{where}: statement `{t[:70]}` reads tokens in a way the model does not know')
        return steps, t

    def arm(self, kw: str) -> Tuple[List[tuple], str]:
        if kw not in self.scripts:
            self.scripts[kw] = self._script(self.cases[kw], f'IRParser.type_expr case "{kw}"')
        return self.scripts[kw]

    def helper(self, name: str) -> Tuple[List[tuple], str]:
        if name not in self.helpers:
            defs = self.src.find_defs(name, self.pspan)
            if len(defs) != 1:
                raise AnalysisError(f'{F_PARSER}::IRParser.{name}: expected one definition, found {len(defs)}')
            body = self.src.norm(defs[0][1], defs[0][2])
            m = re.fullmatch(r'(\w+)\(type_expr\)\(it\)', body.strip())
            if m:
                d2 = self.src.find_defs(m.group(1), self.pspan)
                if len(d2) != 1 or '(f: TokenIterator => T)(it: TokenIterator)' not in d2[0][3]:
                    raise AnalysisError(f'{F_PARSER}::IRParser.{m.group(1)}: signature not recognised')
                body = self.src.norm(d2[0][1], d2[0][2])
                name2 = m.group(1)
            else:
                name2 = name
            self.helpers[name] = self._script(body, f'IRParser.{name2}')
        return self.helpers[name]

    def parse_type(self, toks: List[Tuple[str, Any]], pos: int, depth: int = 0) -> Tuple[tuple, int]:
        if depth > 40:
            raise AnalysisError('engine model: nesting too deep')
        if self.skip_plus and pos < len(toks) and toks[pos] == ('punct', '+'):
            pos += 1
        if pos >= len(toks):
            raise EngineReject('No more tokens to consume.')
        k, v = toks[pos]
        if k != 'id':
            raise EngineReject(f'Expected identifier but found {k} {v!r}')
        if v not in self.cases:
            raise EngineReject(f'scala.MatchError: type_expr has no case "{v}"')
        steps, result = self.arm(v)
        items, pos = self._run(steps, toks, pos + 1, depth)
        return (v, items), pos

    def _run(self, steps: List[tuple], toks: List[Tuple[str, Any]], pos: int, depth: int) -> Tuple[List[tuple], int]:
        items: List[tuple] = []

        def take() -> Tuple[str, Any]:
            nonlocal pos
            if pos >= len(toks):
                raise EngineReject('No more tokens to consume.')
            tk = toks[pos]
            pos += 1
            return tk
        for st in steps:
            if st[0] == 'punct':
                tk = take()
                if tk != ('punct', st[1]):
                    raise EngineReject(f"Expected punctuation '{st[1]}' but found {tk[0]} {tk[1]!r}")
            elif st[0] == 'type':
                sub, pos = self.parse_type(toks, pos, depth + 1)
                items.append(('type', sub))
            elif st[0] == 'ident':
                tk = take()
                if tk[0] != 'id':
                    raise EngineReject(f'Expected identifier but found {tk[0]} {tk[1]!r}')
                items.append(('name', tk[1]))
            elif st[0] == 'int':
                tk = take()
                if tk[0] != 'int' or not -2 ** 31 <= tk[1] < 2 ** 31:
                    raise EngineReject(f'Expected int32 but found {tk[0]} {tk[1]!r}')
                items.append(('nat', tk[1]))
            elif st[0] == 'repsep':
                _n, fname, sep, end = st[1:]
                while pos < len(toks) and toks[pos] != ('punct', end):
                    if fname == 'type_expr':
                        sub, pos = self.parse_type(toks, pos, depth + 1)
                        items.append(('type', sub))
                    else:
                        hsteps, _res = self.helper(fname)
                        sub_items, pos = self._run(hsteps, toks, pos, depth + 1)
                        items += sub_items
                    if pos >= len(toks):
                        raise EngineReject('NoSuchElementException: it.head after the last token')
                    if toks[pos] == ('punct', sep):
                        pos += 1
            elif st[0] == 'while_punct':
                if pos < len(toks) and toks[pos] == ('punct', st[1]):
                    raise AnalysisError(f'engine model: `{st[1]}` decorators are not modelled')
            else:
                raise AnalysisError(f'engine model: step {st}')
        return items, pos

    def read(self, text: str) -> tuple:
        toks = self.tokenize(text)
        tree, pos = self.parse_type(toks, 0)
        if pos != len(toks):
            raise EngineReject(f'{len(toks) - pos} token(s) left after the type: {toks[pos][1]!r} ...')
        return tree


def _from_utf16(units: List[int]) -> str:
    out = []
    i = 0
    while i < len(units):
        u = units[i]
        if 0xD800 <= u <= 0xDBFF and i + 1 < len(units) and 0xDC00 <= units[i + 1] <= 0xDFFF:
            out.append(chr(0x10000 + ((u - 0xD800) << 10) + (units[i + 1] - 0xDC00)))
            i += 2
        else:
            out.append(chr(u))
            i += 1
    return ''.join(out)


def python_tree(G: P.Grammar, ses: Session, text: str) -> tuple:
    """(rule, items) of the Python grammar's reading of `text`: items in textual order: ('type', subtree) ('name', str) ('nat', int|str)."""
    root = P.parsimonious_tree(G, text)

    def alt_of(tn: P.PNode) -> tuple:
        cand = [c for c in tn.children if not c.expr_name and c.children]
        if tn.expr_name != 'type' or len(cand) != 1 or len(cand[0].children) != 1 or not cand[0].children[0].expr_name:
            raise AnalysisError(f'{F_GRAMMAR}: node of rule `type` is not `_ (alternative) _`')
        a = cand[0].children[0]
        items: List[tuple] = []

        def walk(n: P.PNode) -> None:
            for c in n.children:
                if c.expr_name == 'type':
                    items.append(('type', alt_of(c)))
                elif c.expr_name == 'identifier':
                    try:
                        v = ses.it.eval_src(F_GRAMMAR, 'type_node_visitor.visit(n)', {'n': _PNodeV(c)})
                    except C.PyRaise as r:
                        raise AnalysisError(f'{F_GRAMMAR}: visiting the identifier {c.text!r} raises {r}') from None
                    items.append(('name', v))
                elif c.expr_name == 'nat':
                    tx = c.text.strip()
                    items.append(('nat', int(tx) if tx.isdigit() else tx))
                else:
                    walk(c)
        walk(a)
        return (a.expr_name, items)
    return alt_of(root)


def check_engine_reading(ctx: Ctx, mt: pf.Module, classes: Dict[str, ast.ClassDef], G: P.Grammar, ses: Session, sm: Samples, eng: EngineModel,
                         name_ok) -> None:
    it = ses.it
    tm = it.module(F_TYPES)
    recorded: List[str] = []
    orig = it.global_lookup(tm, 'escape_parsable')

    def spy(it2, a, k):
        if len(a) == 1 and isinstance(a[0], str):
            recorded.append(a[0])
        return it2.call(orig, a, k)
    kwmap: Dict[str, str] = {}
    kwrev: Dict[str, str] = {}
    per_class: Dict[str, Tuple[int, Optional[str]]] = {}
    skipped_known = 0

    def compare(pt: tuple, et: tuple, path: str) -> Optional[str]:
        prule, pitems = pt
        ekw, eitems = et
        if kwmap.setdefault(prule, ekw) != ekw:
            return f'at {path}: the Python form `{prule}` is printed for the engine as {ekw!r} here but as {kwmap[prule]!r} elsewhere'
        if kwrev.setdefault(ekw, prule) != prule:
            return f'at {path}: the engine keyword {ekw!r} stands for the Python form `{prule}` here but for `{kwrev[ekw]}` elsewhere'
        if [x[0] for x in pitems] != [x[0] for x in eitems]:
            return (f'at {path}: str() lists {[x[0] for x in pitems]} under `{prule}` but the engine reads {[x[0] for x in eitems]} under {ekw!r}')
        for i, (a, b) in enumerate(zip(pitems, eitems)):
            if a[0] == 'type':
                r = compare(a[1], b[1], f'{path}/{prule}[{i}]')
                if r:
                    return r
            elif a[1] != b[1]:
                return f'at {path}: member {i} of `{prule}` is the {a[0]} {a[1]!r} in str() but the engine reads {b[1]!r}'
        return None

    it.set_global(tm, 'escape_parsable', C.Builtin('escape_parsable', spy))
    try:
        for cname, desc, t in sm.all():
            c = classes.get(cname)
            n, fail = per_class.get(cname, (0, None))
            if fail is not None:
                continue
            meth = None
            if c is not None:
                meth = _method(c, '_parsable_string')
                body = [s_ for s_ in meth.body if not (isinstance(s_, ast.Expr) and isinstance(s_.value, ast.Constant))] if meth is not None else []
                if meth is None or (len(body) == 1 and isinstance(body[0], ast.Raise)):
                    continue
            del recorded[:]
            try:
                etext = ses.expr('t._parsable_string()', t=t)
                ptext = ses.expr('str(t)', t=t)
            except C.PyRaise as r:
                if r.name == 'NotImplementedError':
                    continue
                per_class[cname] = (n + 1, f'for t = {desc}, t._parsable_string() raises {r.name}{r.pargs!r}')
                continue
            if not all(name_ok(x) for x in recorded):
                skipped_known += 1
                continue
            if cname == '_trngstate':
                continue
            try:
                et = eng.read(etext)
            except EngineReject as ex:
                per_class[cname] = (n + 1, f'for t = {desc}, t._parsable_string() = {ascii(etext)} is rejected by the engine: {ex}')
                continue
            try:
                pt = python_tree(G, ses, ptext)
            except P.ParseFailure:
                continue  # str(t) does not parse with the Python grammar: reported by R4 / R8
            why = compare(pt, et, 't')
            per_class[cname] = (n + 1, None if why is None else f'for t = {desc}: str(t) = {ascii(ptext)}, t._parsable_string() = {ascii(etext)}; {why}')
    finally:
        it.set_global(tm, 'escape_parsable', orig)
    for cname, (n, fail) in per_class.items():
        line = classes[cname].lineno if cname in classes else 0
        ctx.check(fail is None, 'R9', f'{F_TYPES}::{cname}._parsable_string::IRParser.type_expr reads the same structure and names as the Python grammar reads str()',
                  fail or '', mt.path, line, detail={'samples': n})
    # arms: constructor arguments in reading order
    for kw in sorted(set(kwrev)):
        steps, result = eng.arm(kw)
        vals = [st[1] for st in steps if st[0] in ('type', 'ident', 'int', 'repsep')]
        m = re.search(r'(T\w+)\(([^()]*(?:\([^()]*\))?[^()]*)\)\s*$', result)
        if len(vals) < 2 or not m:
            continue
        used = [v for v in re.findall(r'\b\w+\b', m.group(2)) if v in vals]
        order_ok = used == [v for v in vals if v in used]
        ctx.check(order_ok, 'R9', f'{F_PARSER}::IRParser.type_expr case "{kw}"::constructor arguments in reading order',
                  f'the arm reads {vals} in this order but builds {m.group(0)[:60]}: the members of {kwrev[kw]} are swapped on the engine side', eng.src.rel if hasattr(eng.src, "rel") else F_PARSER, 0)
    ctx.unit('engine_samples_skipped_for_known_escape_findings', skipped_known)


def run(ctx: Ctx) -> None:
    ctx.explanation = ('Escapers are turned into unit tables (code-point range -> emitted text) and compared, as regular languages over all '
                       'Unicode code points, with the Python grammar terminals and with the engine lexer read from Parser.scala; printed '
                       'forms are parsed with our own PEG interpreter of the grammar text; hl.dtype is analysed by abstract data flow (what it returns '
                       'is the parse of its own argument); printers, dtype and the visitor are evaluated on sample types with our own evaluator; '
                       'the engine reading of the engine-facing forms is modelled from the extracted IRLexer / IRParser fragments. No repository code is run.')
    ctx.rule('R1', 'names emitted bare are simple_identifier of the type grammar and JavaTokenParsers.ident of the engine lexer '
                   ' (ASCII names and all names)', 5)
    ctx.rule('R2', 'every escape unit the Python side can emit between delimiters is accepted by the engine lexer quotedLiteral / by the '
                   'grammar escaped_identifier (prefix-free)', 50)
    ctx.rule('R3', 'unescape_parsable mirrors escape_parsable; struct field and reference genome names are printed through escape_parsable', 9)
    ctx.rule('R4', 'every HailType __str__ form parses back through the grammar rule whose visitor builds that class; visitor arity; every '
                   'alternative of `type` has a visitor', 52)
    ctx.rule('R5', 'unescapeString maps every accepted escape unit back to the same UTF-16 code units', 35)
    ctx.rule('R6', 'the keyword of every _parsable_string form has an arm in IRParser.type_expr that consumes the punctuation printed', 18)
    ctx.rule('R7', 'what hl.dtype returns is the parse of ITS OWN argument: every return is visit(parse(arg)) or a memo entry whose key is an injective '
                   '(parse-preserving) function of the argument and that is only written with the value parsed from the same text; the visitor keeps no '
                   'state; printers do not remember text computed from attributes that change after construction', 22)
    ctx.rule('R8', 'for every sample type t of every HailType class and every printer (str, pretty): hl.dtype(<printed t>) == t, evaluated with our '
                   'interpreter in two modelled processes (sample order and reverse order)', 38)
    ctx.rule('R9', 'IRParser.type_expr (modelled) reads t._parsable_string() of every sample in full, with the same structure, names and dimensions as '
                   'the Python grammar reads str(t); constructor arguments of the arms are in reading order', 20)
    deferred: List[str] = []
    st: Dict[str, Any] = {}

    def section(fn) -> None:
        try:
            fn()
        except AnalysisError as e:
            deferred.append(str(e))

    section(lambda: _run_lexical(ctx, st))
    section(lambda: _run_semantic(ctx, st))
    if deferred:
        raise AnalysisError(' | '.join(deferred))


def _grammar(ctx: Ctx, mg: pf.Module) -> P.Grammar:
    grammar_text = sp.const_string(mg, None, ast.Name(id='type_grammar_str', ctx=ast.Load()))
    tg = sp.module_const(mg, 'type_grammar')
    ctx.need(isinstance(tg, ast.Call) and pf.dotted(tg.func) == 'Grammar' and [pf.nsrc(a) for a in tg.args] == ['type_grammar_str'],
             f'{F_GRAMMAR}: type_grammar is not Grammar(type_grammar_str)')
    return P.parse_grammar(grammar_text, f'{F_GRAMMAR}::type_grammar_str')


def _samples(ctx: Ctx, st: Dict[str, Any], mt: pf.Module, classes: Dict[str, ast.ClassDef]) -> Tuple[Session, Samples]:
    """The modelled process A and the sample types (built once)."""
    if 'sm' not in st:
        if 'sm_error' in st:
            raise AnalysisError(st['sm_error'])
        try:
            ses = Session()
            st['ses'], st['sm'] = ses, Samples(ctx, ses, mt, classes)
        except C.PyRaise as e:
            st['sm_error'] = f'sample types cannot be built with the evaluator: {e}'
            raise AnalysisError(st['sm_error']) from None
        except AnalysisError as e:
            st['sm_error'] = str(e)
            raise
    return st['ses'], st['sm']


def _run_semantic(ctx: Ctx, st: Dict[str, Any]) -> None:
    mt, mg = pf.load(F_TYPES), pf.load(F_GRAMMAR)
    G = st.get('G') or _grammar(ctx, mg)
    classes = _hail_classes(ctx, mt)
    deferred: List[str] = []

    def r8() -> None:
        ses, sm = _samples(ctx, st, mt, classes)
        check_round_trip(ctx, mt, classes, ses, sm)

    def r7() -> None:
        ses, sm = _samples(ctx, st, mt, classes)
        battery = []
        for cname, desc, t in sm.all():
            for pname, src, how in PRINTERS:
                try:
                    text = ses.expr(src, t=t)
                except C.PyRaise:
                    continue
                if isinstance(text, str):
                    battery.append((text, t, desc))
        check_parse_flow(ctx, mt, G, battery, ses)

    def r7p() -> None:
        check_printer_memo(ctx, mt, classes)

    def r9() -> None:
        ses, sm = _samples(ctx, st, mt, classes)
        lex, ident, tokens, arms = S.irlexer_quoted_literal(), S.irlexer_identifier(), S.irlexer_token_order(), S.unescape_string_arms()
        L_java, _origin = java_ident_language(ctx)
        eng = EngineModel(ctx, lex, ident, tokens, arms, L_java, S.irparser_type_cases())
        if 'units_p' in st and 'acc_p' in st:
            flat = split_by_width(st['units_p'])
            acc = st['acc_p']

            def name_ok(n: str) -> bool:
                for ch in n:
                    u = next((u for u in flat if u.lo <= ord(ch) <= u.hi), None)
                    if u is None or not acc.get(u.kind(), False):
                        return False
                return True
        else:
            def name_ok(n: str) -> bool:
                return all(0x20 <= ord(ch) < 0x7f for ch in n)
        check_engine_reading(ctx, mt, classes, G, ses, sm, eng, name_ok)

    for f in (r7p, r8, r7, r9):
        try:
            f()
        except C.PyRaise as e:
            deferred.append(f'the evaluator met an unexpected exception of the interpreted code: {e}')
        except P.ParseFailure as e:
            deferred.append(f'unexpected parse failure outside a round-trip check: {e}')
        except RecursionError:
            deferred.append('evaluator recursion limit')
        except AnalysisError as e:
            deferred.append(str(e))
    if deferred:
        raise AnalysisError(' | '.join(deferred))


def _run_lexical(ctx: Ctx, state: Dict[str, Any]) -> None:
    ctx.assume('regex terminals of type_grammar follow stdlib `re` semantics (parsimonious >= 0.10 uses the third-party `regex` module, whose \\w '
               'differs for a few code points such as U+00B2; not installed here)')
    ctx.assume('JavaTokenParsers.ident = rep1(acceptIf(Character.isJavaIdentifierStart), elem(Character.isJavaIdentifierPart)) on UTF-16 chars '
               '(scala-parser-combinators), and is tried after skipping \\s+')
    ctx.assume('str.encode(\'unicode_escape\') encodes character by character (the table is cut out of the encoding of the string of all code points)')
    ctx.assume('reference genomes are identified by their registered name: str(rg) == rg.name, get_reference(name).name == name (hail.genetics.reference_genome)')
    ctx.assume('parsimonious builds one node per matched expression (sequence: a child per member; ordered choice: the matched alternative; optional / '
               'repetition: the matches) and NodeVisitor.visit calls visit_<rule name> (else generic_visit) bottom-up')
    mj, mm, mt, mg = pf.load(F_JAVA), pf.load(F_MISC), pf.load(F_TYPES), pf.load(F_GRAMMAR)
    ctx.unit('files', 6)

    # ------------------------------------------------------------------ extraction
    esc = Escaper(ctx, mj, 'escape_parsable')
    delim, inner = _delimited(ctx, mj, esc.fn, esc.escaped_expr)
    ops = _pipeline(ctx, mj, esc.fn, inner, esc.param)
    ctx.need(ops[:1] == [('encode', 'unicodeescape')], f'{F_JAVA}::escape_parsable: the first step is not .encode(\'unicode_escape\') ({ops})')
    units_p = unicode_escape_units()
    for op in ops[1:]:
        if op[0] == 'decode' and op[1] in ('utf8', 'ascii', 'latin1'):
            continue
        if op[0] == 'replace':
            units_p = apply_replace(units_p, op[1], op[2], f'{F_JAVA}::escape_parsable')
            continue
        raise AnalysisError(f'{F_JAVA}::escape_parsable: step {op} is not modelled')
    ctx.unit('code_points_tabulated', R.MAXCP + 1)

    eid = Escaper(ctx, mm, 'escape_id')
    delim_id, inner_id = _delimited(ctx, mm, eid.fn, eid.escaped_expr)
    ctx.need(isinstance(inner_id, ast.Call) and pf.dotted(inner_id.func) == 'escape_str' and len(inner_id.args) == 1
             and pf.nsrc(inner_id.args[0]) == eid.param and [(k.arg, pf.nsrc(k.value)) for k in inner_id.keywords] == [('backticked', 'True')],
             f'{F_MISC}::escape_id: escaped form is not `escape_str(s, backticked=True)` ({pf.nsrc(inner_id)})')
    es = EscapeStr(ctx, mm)
    units_id = es.units(True)
    units_str = es.units(False)
    # parsable_strings: '"' + escape_str(s) + '"'
    ps = mm.func('parsable_strings')
    ps_ok = any(isinstance(n, ast.JoinedStr) and len(n.values) == 3 and pf.const_str(n.values[0]) == '"' and pf.const_str(n.values[2]) == '"'
                and isinstance(n.values[1], ast.FormattedValue) and pf.nsrc(n.values[1].value) == 'escape_str(s)' for n in ast.walk(ps))
    ctx.need(ps_ok, f'{F_MISC}::parsable_strings: elements are not rendered as "{{escape_str(s)}}"')

    G = _grammar(ctx, mg)
    state['G'] = G
    ctx.unit('grammar_rules', len(G.order))

    lex = S.irlexer_quoted_literal()
    ident = S.irlexer_identifier()
    tokens = S.irlexer_token_order()
    arms = S.unescape_string_arms()
    ctx.need(lex['decoder'] == 'unescapeString', f'{F_PARSER}: quotedLiteral decodes with {lex["decoder"]}, not unescapeString')
    ctx.unit('scala_extractors', 5)

    # ------------------------------------------------------------------ R1
    pat_simple, L_simple = G.regex_language('simple_identifier')
    L_java, java_origin = java_ident_language(ctx)
    ctx.need(ident['alternatives'] == ['backtickLiteral', 'ident'] or set(ident['alternatives']) == {'backtickLiteral', 'ident'},
             f'{F_PARSER}::IRLexer.identifier alternatives changed: {ident["alternatives"]}')
    ctx.need('identifier' in tokens, f'{F_PARSER}::IRLexer.token: no identifier alternative ({tokens})')
    w = R.included(esc.bare, L_simple)
    ctx.check(w is None, 'R1', f'{F_JAVA}::escape_parsable::bare names are simple_identifier',
              f'escape_parsable emits {_show(w)} without back-ticks ({esc.why}), but the type grammar\'s '
              f'simple_identifier {pat_simple!r} does not match it in full: the printed type does not parse back', mj.path, esc.test_line)
    ascii_only = R.lang(R.star(R.chars(R.pred('str.isascii'))), 'ASCII*')
    for e_, file_, m_ in ((esc, F_JAVA, mj), (eid, F_MISC, mm)):
        # (a) over ASCII names (the engine and Python agree on ASCII letters/digits: any difference here is a plain grammar mismatch)
        w = R.included(e_.bare & ascii_only, L_java)
        ctx.check(w is None, 'R1', f'{file_}::{e_.name}::bare ASCII names are JavaTokenParsers.ident',
                  f'{e_.name} emits the name {_show(w)} without back-ticks ({e_.why}), but that is not a Java identifier: '
                  f'IRLexer.ident does not read it as one identifier token', m_.path, e_.test_line)
        # (b) over all names
        w = R.included(e_.bare, L_java)
        ctx.check(w is None, 'R1', f'{file_}::{e_.name}::bare names are JavaTokenParsers.ident',
                  f'{e_.name} emits the name {_show(w)} without back-ticks ({e_.why}; Python\'s \\w accepts every '
                  f'str.isalnum() character), but U+{ord(w[-1]) if w else 0:04X} is not a Java identifier part ({java_origin}), so IRLexer.ident stops '
                  f'before it and the engine does not read the same name', m_.path, e_.test_line, detail={'java_tables': java_origin})

    # ------------------------------------------------------------------ R2
    L_backtick = scala_quoted_language(ident.get('backtick_delim', '`'), lex['escape_chars'], 'IRLexer.backtickLiteral')
    ctx.need(delim == ident.get('backtick_delim') and delim_id == delim, f'delimiters differ: python {delim!r}/{delim_id!r}, engine {ident.get("backtick_delim")!r}')
    acc_p = check_units_against(ctx, 'R2', f'{F_JAVA}::escape_parsable -> IRLexer.backtickLiteral', units_p, delim, L_backtick,
                                f'IRLexer.quotedLiteral (escapeChars {lex["literal"]}, Parser.scala:{lex["line"]})', esc.bare, mj.path, esc.test_line, 'escape_parsable')
    state['units_p'], state['acc_p'] = units_p, acc_p
    pat_esc, L_esc = G.regex_language('escaped_identifier')
    pfree = R.prefix_free(L_esc)
    ctx.check(pfree is None, 'R2', f'{F_GRAMMAR}::escaped_identifier::prefix-free',
              f'escaped_identifier {pat_esc!r} matches both {_show(pfree[0]) if pfree else ""} and its extension {_show(pfree[1]) if pfree else ""}: the PEG '
              'terminal may stop early or late', mg.path, 0)
    check_units_against(ctx, 'R2', f'{F_JAVA}::escape_parsable -> type_grammar.escaped_identifier', units_p, delim, L_esc,
                        f'the grammar terminal escaped_identifier {pat_esc!r}', esc.bare, mj.path, esc.test_line, 'escape_parsable')
    acc_id = check_units_against(ctx, 'R2', f'{F_MISC}::escape_id -> IRLexer.backtickLiteral', units_id, delim_id, L_backtick,
                                 f'IRLexer.quotedLiteral (escapeChars {lex["literal"]})', eid.bare, mm.path, eid.test_line, 'escape_id (escape_str, backticked=True)')
    L_dq = scala_quoted_language('"', lex['escape_chars'], 'IRLexer.stringLiteral')
    acc_str = check_units_against(ctx, 'R2', f'{F_MISC}::parsable_strings -> IRLexer.stringLiteral', units_str, '"', L_dq,
                                  f'IRLexer.quotedLiteral(\'"\') (escapeChars {lex["literal"]})', None, mm.path, ps.lineno, 'parsable_strings (escape_str)')
    # whole languages (all combinations of accepted units)
    for label, units, dl, tgt, acc in (('escape_id', units_id, delim_id, L_backtick, acc_id), ('parsable_strings', units_str, '"', L_dq, acc_str)):
        good = [u for u in split_by_width(units) if acc.get(u.kind(), False)]
        w = R.included(emitted_language(good, dl, label), tgt) if good else None
        ctx.check(w is None, 'R2', f'{F_MISC}::{label}::all combinations of accepted units',
                  f'units are accepted one by one but the combination {_show(w)} is not', mm.path, 0)
    good = [u for u in split_by_width(units_p) if acc_p.get(u.kind(), False)]
    w = R.included(emitted_language(good, delim, 'escape_parsable'), L_backtick)
    ctx.check(w is None, 'R2', f'{F_JAVA}::escape_parsable::all combinations of accepted units', f'units are accepted one by one but the combination {_show(w)} is not',
              mj.path, 0)

    # ------------------------------------------------------------------ R5
    def decode_check(label: str, file_: str, path_: str, line_: int, units: List[Unit], dl: str, acc: Dict[str, bool]) -> None:
        by_kind: Dict[str, List[Unit]] = {}
        for u in split_by_width(units):
            by_kind.setdefault(u.kind(), []).append(u)
        for kind, us in by_kind.items():
            if not acc.get(kind, False):
                continue  # not accepted by the lexer at all: reported under R2
            bad = None
            cand = [(cp, u) for u in us for cp in u.examples()]
            cand += [(c0, u) for u in us for c0 in (0x5C, ord(dl)) if u.lo <= c0 <= u.hi and any(p[0] == 'self' for p in u.parts)]
            for cp, u in sorted(cand, key=lambda t: (t[0] not in (0xE9, 0x1F600, 0x4E2D), t[0])):
                got = scala_decode(u.output(cp), arms)
                if got != utf16(cp):
                    bad = (cp, u.output(cp), got)
                    break
            cons = f'{file_}::{label}::unit {kind} decodes to the same character'
            if bad is None:
                ctx.ok('R5', cons, {'code_points': sum(u.hi - u.lo + 1 for u in us)})
            else:
                cp, text, got = bad
                gs = 'an error' if got is None else 'nothing (the escape is incomplete and swallows what follows)' if not got else 'the UTF-16 units ' + ' '.join(f'U+{x:04X}' for x in got) + f' ({ascii("".join(chr(x) for x in got))})'
                ctx.bad('R5', cons, f'{label} renders U+{cp:04X} as {ascii(text)}; the lexer accepts it but StringEscapeUtils.unescapeString '
                        f'(\\{arms["unicode_intro"]} reads exactly {arms["unicode_width"]} hex digits) decodes it to {gs} instead of '
                        f'U+{cp:04X} (UTF-16 ' + ' '.join(f'U+{x:04X}' for x in utf16(cp)) + '): the engine sees a different name', path_, line_)
    decode_check('escape_parsable', F_JAVA, mj.path, esc.test_line, units_p, delim, acc_p)
    decode_check('escape_id', F_MISC, mm.path, es.loop.lineno, units_id, delim_id, acc_id)
    decode_check('parsable_strings', F_MISC, mm.path, es.loop.lineno, units_str, '"', acc_str)

    # ------------------------------------------------------------------ R3
    une = mj.func('unescape_parsable')
    up = [a.arg for a in une.args.args]
    ubody = [s for s in une.body if not (isinstance(s, ast.Expr) and isinstance(s.value, ast.Constant))]
    ctx.need(len(up) == 1 and len(ubody) == 1 and isinstance(ubody[0], ast.Return) and ubody[0].value is not None, f'{F_JAVA}::unescape_parsable: unrecognised body')
    uops = _pipeline(ctx, mj, une, ubody[0].value, up[0])  # type: ignore[arg-type]

    def inverse(op: tuple) -> tuple:
        if op[0] == 'encode':
            return ('decode', op[1])
        if op[0] == 'decode':
            return ('encode', op[1])
        return ('replace', op[2], op[1])
    want = [inverse(op) for op in reversed(ops)]
    ctx.check(uops == want, 'R3', f'{F_JAVA}::unescape_parsable::mirror of escape_parsable',
              f'escape_parsable applies {ops}; its inverse is {want}, but unescape_parsable applies {uops}: a printed name does not come back unchanged '
              f'(e.g. a name containing {delim!r} or a backslash)', mj.path, une.lineno, detail={'escape': [list(o) for o in ops], 'unescape': [list(o) for o in uops]})
    # the visitor strips exactly the delimiters
    vis = mg.cls('TypeConstructor')
    vm = _method(vis, 'visit_escaped_identifier')
    ctx.need(vm is not None, f'{F_GRAMMAR}: visit_escaped_identifier vanished')
    rets = [n for n in ast.walk(vm) if isinstance(n, ast.Return)]  # type: ignore[arg-type]
    ok = len(rets) == 1 and pf.nsrc(rets[0].value) == f'unescape_parsable(node.text[{len(delim)}:-{len(delim)}])'
    ctx.check(ok, 'R3', f'{F_GRAMMAR}::TypeConstructor.visit_escaped_identifier',
              f'returns `{pf.nsrc(rets[0].value) if rets else "?"}`, expected unescape_parsable(node.text[1:-1]) (strip the two back-ticks, then unescape)',
              mg.path, vm.lineno if vm else 0)
    vs = _method(vis, 'visit_simple_identifier')
    ctx.need(vs is not None, f'{F_GRAMMAR}: visit_simple_identifier vanished')
    rets = [n for n in ast.walk(vs) if isinstance(n, ast.Return)]  # type: ignore[arg-type]
    ctx.check(len(rets) == 1 and pf.nsrc(rets[0].value) == 'node.text', 'R3', f'{F_GRAMMAR}::TypeConstructor.visit_simple_identifier',
              f'returns `{pf.nsrc(rets[0].value) if rets else "?"}`, expected the matched text unchanged', mg.path, vs.lineno if vs else 0)
    ctx.need(sp.imports_of(mg).get('unescape_parsable', '').endswith('utils.java.unescape_parsable'), f'{F_GRAMMAR}: unescape_parsable is not imported from hail.utils.java')
    ctx.need(sp.imports_of(mt).get('escape_parsable', '').endswith('utils.java.escape_parsable'), f'{F_TYPES}: escape_parsable is not imported from utils.java')
    # every name printed goes through escape_parsable
    classes = _hail_classes(ctx, mt)
    par = mt.parents()
    for cname, attr_desc in (('tstruct', 'field name'), ('tlocus', 'reference genome name')):
        c = classes.get(cname)
        ctx.need(c is not None, f'{F_TYPES}: class {cname} vanished')
        for mname in ('__str__', '_parsable_string', '_pretty'):
            meth = _method(c, mname)  # type: ignore[arg-type]
            ctx.need(meth is not None, f'{F_TYPES}::{cname}.{mname} vanished')
            uses: List[ast.AST] = []
            if cname == 'tstruct':
                # loop variables bound to field names: first element of the target of an iteration over self.items()
                fvars = set()
                for n in ast.walk(meth):  # type: ignore[arg-type]
                    it, tgt = None, None
                    if isinstance(n, ast.comprehension):
                        it, tgt = n.iter, n.target
                    elif isinstance(n, ast.For):
                        it, tgt = n.iter, n.target
                    if it is None:
                        continue
                    src = pf.nsrc(it)
                    if src == 'self.items()' and isinstance(tgt, ast.Tuple) and isinstance(tgt.elts[0], ast.Name):
                        fvars.add(tgt.elts[0].id)
                    elif src == 'enumerate(self.items())' and isinstance(tgt, ast.Tuple) and len(tgt.elts) == 2 and isinstance(tgt.elts[1], ast.Tuple) \
                            and isinstance(tgt.elts[1].elts[0], ast.Name):
                        fvars.add(tgt.elts[1].elts[0].id)
                    elif 'self.items()' in src or 'self._fields' in src or 'self.fields' in src or 'self._field_types' in src:
                        raise AnalysisError(f'{F_TYPES}::{cname}.{mname}: iteration `{src}` over the fields not recognised')
                uses = [n for n in ast.walk(meth) if isinstance(n, ast.Name) and n.id in fvars and isinstance(n.ctx, ast.Load)]  # type: ignore[arg-type]
                if not fvars and mname != '_pretty' or (mname == '_pretty' and not fvars):
                    ctx.need(bool(fvars), f'{F_TYPES}::{cname}.{mname}: no iteration over self.items() found')
            else:
                uses = [n for n in ast.walk(meth) if isinstance(n, ast.Attribute) and isinstance(n.value, ast.Name) and n.value.id == 'self'  # type: ignore[arg-type]
                        and n.attr in ('reference_genome', '_rg')]
                ctx.need(bool(uses), f'{F_TYPES}::{cname}.{mname}: does not mention the reference genome')
            raw = []
            for u in uses:
                cur: Optional[ast.AST] = u
                wrapped = False
                while cur is not None and cur is not meth:
                    p = par.get(cur)
                    if isinstance(p, ast.Call) and pf.dotted(p.func) == 'escape_parsable' and cur in p.args:
                        wrapped = True
                        break
                    cur = p
                if not wrapped:
                    # only a use that flows into the printed text is a violation; anything else is a shape we do not know
                    cur2: Optional[ast.AST] = u
                    printing = False
                    while cur2 is not None and cur2 is not meth:
                        p2 = par.get(cur2)
                        if isinstance(p2, ast.Attribute) or (isinstance(p2, ast.Call) and pf.dotted(p2.func) == 'str' and cur2 in p2.args):
                            cur2 = p2
                            continue
                        printing = isinstance(p2, (ast.FormattedValue, ast.JoinedStr)) or (isinstance(p2, ast.BinOp) and isinstance(p2.op, ast.Add)) or \
                            (isinstance(p2, ast.Call) and isinstance(p2.func, ast.Attribute) and p2.func.attr in ('format', 'append', 'join', 'write') and cur2 in p2.args)
                        break
                    ctx.need(printing, f'{F_TYPES}::{cname}.{mname}: use of `{pf.nsrc(u)}` (line {getattr(u, "lineno", 0)}) is neither wrapped in '
                                       f'escape_parsable nor a recognised printing context')
                    raw.append(u)
            ctx.check(not raw, 'R3', f'{F_TYPES}::{cname}.{mname}::{attr_desc} printed through escape_parsable',
                      f'{cname}.{mname} prints the {attr_desc} `{pf.nsrc(raw[0]) if raw else ""}` without escape_parsable (line {getattr(raw[0], "lineno", 0) if raw else 0}): '
                      f'a name such as \'a b\' or \'x`y\' is printed raw and the result does not parse back', mt.path, meth.lineno if meth else 0,
                      detail={'uses': len(uses)})

    # ------------------------------------------------------------------ R4
    bare_dfa = R.to_dfa(esc.bare, R.alphabet_for([esc.bare]))
    flat_p = split_by_width(units_p)
    names = ['a', 'x_1', 'a b', '`', '\\', 'é', '1a', '', '\n', '\U0001f600', 'int32', 'a:b', '}', "it's", 'tab\there']
    ident_samples = [n if bare_dfa.accepts(n) else delim + encode_with(flat_p, n) + delim for n in names]
    type_samples = ['int32', 'struct{`a b`: str}', 'array<float64>']
    T = Templates(ctx, mt, type_samples, ident_samples)
    type_rule = G.rules.get('type')
    ctx.need(type_rule is not None and type_rule[0] == 'seq' and any(x[0] == 'alt' for x in type_rule[1]), f'{F_GRAMMAR}: rule `type` is not `_ ( alternatives ) _`')
    alternatives = [x[1] for x in [y for y in type_rule[1] if y[0] == 'alt'][0][1] if x[0] == 'ref']  # type: ignore[index]
    visitors = {st.name[len('visit_'):]: st for st in vis.body if isinstance(st, ast.FunctionDef) and st.name.startswith('visit_')}
    rule_class: Dict[str, Optional[str]] = {}
    for alt in alternatives:
        vmeth = visitors.get(alt)
        ctx.check(vmeth is not None, 'R4', f'{F_GRAMMAR}::type alternative {alt} has a visitor',
                  f'`type` lists the alternative {alt} but TypeConstructor has no visit_{alt}: generic_visit would return a list instead of a type', mg.path, 0)
        if vmeth is not None:
            rule_class[alt] = _visitor_class(ctx, mg, mt, classes, vmeth)
    # arity of tuple-unpacking visitors
    for rname, vmeth in visitors.items():
        if rname not in G.rules:
            ctx.bad('R4', f'{F_GRAMMAR}::visit_{rname}::rule exists', f'visit_{rname} has no rule `{rname}` in type_grammar_str (dead visitor: renamed rule?)',
                    mg.path, vmeth.lineno)
            continue
        ar = P.top_sequence_arity(G, rname)
        for st in vmeth.body:
            if isinstance(st, ast.Assign) and pf.nsrc(st.value) == 'visited_children' and isinstance(st.targets[0], (ast.Tuple, ast.List)):
                n_t = len(st.targets[0].elts)
                ctx.check(ar is not None and n_t == ar, 'R4', f'{F_GRAMMAR}::visit_{rname}::arity',
                          f'visit_{rname} unpacks visited_children into {n_t} names but rule `{rname}` has {ar} members: ValueError at parse time',
                          mg.path, st.lineno)
    # printed forms
    n_samples = 0
    for cname, c in classes.items():
        meth = _method(c, '__str__')
        if meth is None:
            continue
        cons = f'{F_TYPES}::{cname}.__str__::parses back as {cname}'
        try:
            samples = T.samples(meth)
        except AnalysisError as e:
            if cname in ('tvariable',):
                ctx.info(f'{cname}.__str__ is not a single template; not covered ({e})')
                continue
            # not a single template: print sample instances with the evaluator instead
            ses_, sm_ = _samples(ctx, state, mt, classes)
            if cname not in sm_.by_class:
                raise
            try:
                samples = [ses_.expr('str(t)', t=t_) for _d, t_ in sm_.by_class[cname]]
            except C.PyRaise as r_:
                raise AnalysisError(f'{F_TYPES}::{cname}.__str__ raises {r_} on a sample') from None
        wrong = None
        for text in samples:
            n_samples += 1
            try:
                node = G.parse(text)
            except P.ParseFailure as e:
                wrong = f'the printed form {ascii(text)} does not parse with type_grammar ({e})'
                break
            chosen = node.first_rule_below()
            rname = chosen.label if chosen is not None else None
            built = rule_class.get(rname or '')
            if built is None:
                # the visitor's returns are not all `types.X(...)`: let the evaluator say what it builds for this text
                ses_, _sm = _samples(ctx, state, mt, classes)
                obj, err = true_parse(ses_, text)
                if err is not None:
                    wrong = f'the printed form {ascii(text)} is read by the alternative `{rname}`, whose visitor raises {err}'
                    break
                built = obj.cls.name if isinstance(obj, C.Inst) else type(obj).__name__
            if built != cname:
                wrong = (f'the printed form {ascii(text)} is parsed by the alternative `{rname}`, whose visitor builds '
                         f'{built}, not {cname} (ordered choice commits to the first alternative that matches)')
                break
        ctx.check(wrong is None, 'R4', cons, wrong or '', mt.path, meth.lineno, detail={'samples': len(samples)})
    ctx.unit('printed_forms_parsed', n_samples)

    # ------------------------------------------------------------------ R6
    cases = S.irparser_type_cases()
    psrc = S.load(F_PARSER)
    pspan = psrc.find_object('IRParser')
    def_names = set(re.findall(r'\bdef\s+(\w+)', psrc.code[pspan[0]:pspan[1]])) - {'type_expr', 'ptype_expr', 'identifier', 'punctuation', 'error'}

    def arm_closure(text: str, depth: int = 3) -> str:
        """The arm plus the bodies of the IRParser helper defs it mentions (transitively, bounded), type_expr itself excluded."""
        seen: set = set()
        out = [text]
        frontier = [text]
        for _ in range(depth):
            nxt = []
            for t in frontier:
                for w in set(re.findall(r'\b[A-Za-z_][A-Za-z_0-9]*\b', t)) & def_names - seen:
                    seen.add(w)
                    for _st, lo, hi, _sig in psrc.find_defs(w, pspan):
                        body = psrc.norm(lo, hi)
                        out.append(body)
                        nxt.append(body)
            frontier = nxt
        return ' '.join(out)
    punct_pat = [t for t in tokens if t.endswith('.r')]
    ctx.need(len(punct_pat) == 1, f'{F_PARSER}::IRLexer.token: punctuation alternative not found')
    punct_class = R.from_regex(S.scala_string_value(punct_pat[0][:-2], F_PARSER), 0, 'fullmatch')
    T2 = Templates(ctx, mt, ['Int32'], ['a', '`a b`'])
    for cname, c in classes.items():
        meth = _method(c, '_parsable_string')
        if meth is None:
            continue
        body = [s for s in meth.body if not (isinstance(s, ast.Expr) and isinstance(s.value, ast.Constant))]
        if len(body) == 1 and isinstance(body[0], ast.Raise):
            continue
        cons = f'{F_TYPES}::{cname}._parsable_string::engine syntax'
        try:
            samples = T2.samples(meth)
        except AnalysisError:
            ses_, sm_ = _samples(ctx, state, mt, classes)
            if cname not in sm_.by_class:
                raise
            ctx.ok('R6', cons, 'not a single template: the engine reading of its evaluated samples is decided under R9', nontrivial=False)
            continue
        text = max(samples, key=len)
        if text.startswith('+') and 'case x: PunctuationToken if x.value == "+" => punctuation(it, "+")' in psrc.norm(*psrc.find_def('type_expr', pspan, signature_contains='it: TokenIterator')[1:3]):
            text = text[1:]  # type_expr skips a leading requiredness marker
        km = re.match(r'[A-Za-z_][A-Za-z_0-9]*', text)
        ctx.need(km is not None, f'{cname}._parsable_string: sample {text!r} does not start with a keyword')
        kw = km.group()  # type: ignore[union-attr]
        if kw not in cases:
            if cname == '_trngstate':
                ctx.info(f'{cname}._parsable_string() prints {kw!r}, which has no arm in IRParser.type_expr (scala.MatchError if such a type string is ever sent); '
                         'the statement only requires acceptance by the lexer, so this is reported as information')
                ctx.ok('R6', cons, 'keyword has no parser arm; lexically an identifier (see INFO)', nontrivial=False)
                continue
            ctx.bad('R6', cons, f'{cname}._parsable_string() prints the keyword {kw!r}, which IRParser.type_expr does not know ({sorted(cases)})', mt.path, meth.lineno)
            continue
        arm = arm_closure(cases[kw])
        # punctuation printed (outside names and child types): take it from the template with children removed
        skeleton = text
        for child in ('Int32', '`a b`', 'a'):
            skeleton = skeleton.replace(child, ' ')
        skeleton = skeleton.replace(kw, ' ', 1)
        puncts = [ch for ch in skeleton if not ch.isspace() and not ch.isalnum()]
        problems = []
        for ch in dict.fromkeys(puncts):
            if not R.accepts(punct_class, ch):
                problems.append(f'{ch!r} is not a punctuation token of IRLexer')
            elif f'punctuation(it, "{ch}")' not in arm and f'PunctuationToken("{ch}")' not in arm:
                problems.append(f'the arm `case "{kw}"` never consumes {ch!r}')
        ctx.check(not problems, 'R6', cons, f'{cname}._parsable_string() prints e.g. {text!r}: ' + '; '.join(problems), mt.path, meth.lineno,
                  detail={'keyword': kw, 'punctuation': ''.join(dict.fromkeys(puncts))})
