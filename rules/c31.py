"""C31 Hail type strings round-trip.

Decides (from the syntax trees / text of hail/expr/types.py, hail/expr/type_parsing.py, hail/utils/java.py, hail/utils/misc.py,
is/hail/expr/ir/Parser.scala and is/hail/utils/StringEscapeUtils.scala; nothing of the repository is run):
  R1  bare identifiers.  The language of names emitted WITHOUT back-ticks (escape_parsable: `_parsable_str` with the matching mode
      used; escape_id: its own regex) is included in (a) the Python type grammar's `simple_identifier` and (b) the engine's
      `JavaTokenParsers.ident` = JavaIdentifierStart JavaIdentifierPart* over UTF-16 units (the two predicates are tabulated from
      the installed JDK for every char); decided once over ASCII names and once over all names.
  R2  escapes.  The escapers are turned into UNIT TABLES (code-point range -> emitted text): escape_parsable from the platform's
      unicode_escape codec (tabulated for every code point) followed by the extracted `.replace`, escape_str/escape_id by symbolic
      evaluation of the per-character loop over code-point ranges; a hand-written per-character encoder (re.sub with a replacement
      function, ''.join(<expr> for ch in s), str.translate with a literal table, helpers inlined) by abstract evaluation on the symbolic
      character (engines/c31decode.char_encoder).  Every escaper is a DECISION LIST: early exits in front of the table (a fast path
      `if <test on s [and the mode flag]>: return s`) get the exact regular language of the strings that take them, per value of
      `backticked`, and are checked as "emitted as it is" exits of their own.  Per exit and unit kind, delimiter+unit+delimiter must
      be in (a) the engine lexer's quotedLiteral language (escapeChars extracted from Parser.scala), (b) for escape_parsable also the
      Python grammar's `escaped_identifier` (which must be prefix-free so that PEG matching is exact).
  R3  unescape_parsable inverts escape_parsable, unit kind by unit kind: the decoder is read as a chain of symbolic transducers
      (.replace / regex .sub with a template, lambda or function replacement / the unicode_escape codec, modelled natively / one hand-written
      character loop: index scanner or state machine) and every
      unit's text, followed by an arbitrary continuation, must come back as exactly the character, the scan stopping exactly at the
      unit's end (ordered leftmost-first matching and the replacement function are evaluated on symbolic texts - constants, the
      character, its hex digits, the following characters as sets - with explicit case splits; a violation carries a code point and
      a continuation that realise the failing case).  Early exits of the decoder (`if <test>: return s`) may only take texts without
      escapes (language emptiness).  The visitor hands the decoder exactly the text between the delimiters; every struct field name /
      reference genome name printed by tstruct / tlocus goes through escape_parsable.
  R4  printed forms parse back: the type grammar TEXT is read by our own PEG interpreter; for every HailType class the `__str__`
      template is instantiated with sample children / field names and must parse in full through the rule whose visitor constructs
      that very class; visitor tuple-unpacking arity == number of sequence members of the rule; every alternative has a visitor.
  R5  the engine decodes what it accepts: for every unit kind the lexer lets through, StringEscapeUtils.unescapeString (arms
      extracted) maps the emitted text back to the same UTF-16 code units.
  R6  engine type syntax: the keyword of every `_parsable_string` template has an arm in IRParser.type_expr, whose body consumes
      the punctuation the template prints.
  R7  hl.dtype returns the parse of ITS OWN argument (abstract data flow over dtype and the helpers it calls, across modules): every
      return is classified as visit(parse(T(arg))) or as a read of a memo container under a key K(arg); memo idioms: dict get / in /
      [] / try-except / setdefault / walrus, function attributes, mutable defaults, functools caches (decorator and call form, keyed by the
      argument itself).  T and K are decided from a CLOSED TABLE of expression shapes, nothing is evaluated: the argument, tuples / str()
      / constant affixes / plain encode of it -> injective; strip / lstrip / rstrip -> decided from the grammar (the start rule begins and
      ends with a greedy one-class terminal covering what is stripped); lower / upper / casefold / title / replace / translate / split+join /
      slicing / unicodedata.normalize / re.sub / pattern.sub / checksums / encode with an error handler -> lossy with respect to names
      (violation, with the witness class of the table entry); anything else -> decline.  A memo may only be written under the same key with
      the value parsed from the same text.  The visitor class keeps no state; a printer that remembers its text only reads attributes that
      are never reassigned after construction.
  R8  the visitor as a data path: in every visit method of a sequence rule each value-carrying member (a member that contains a rule with a
      visitor) is bound by the tuple unpacking, is used, reaches the constructor without a reordering / truncating / filtering / string-
      normalising operation (closed table) and in reading order; `__str__` shows the constructor parameters in parameter order (holes of
      the template traced through properties and `__init__` assignments).  Together: printed order = parameter order = reading order.
  R9  sibling agreement printer <-> engine parser, constructor by constructor: the `_parsable_string` template, turned into the token
      kinds IRLexer produces (keyword, punctuation, child type, name, number, joined list), is consumed exactly by the script of its arm in
      IRParser.type_expr (punctuation / identifier / int32_literal / type_expr / repsepUntil / struct_field, extracted fail-closed); `__str__`
      and `_parsable_string` show the same members in the same order; each arm passes what it reads to the engine constructor in reading
      order.
Does not decide: equality of parsed and printed types beyond class, member order and arity (R4 instantiates templates with sample
children and names); visitors with keyword arguments or unrecognised operations (decline); tvariable; parsimonious >= 0.10 matches regex
terminals with the third-party `regex` module (not installed here) whose \\w differs from `re` for a few code points - `re` semantics
are assumed.
"""
from __future__ import annotations

import ast
import os
import re
import subprocess
import sys
import tempfile
import unicodedata
from typing import Any, Dict, List, Optional, Sequence, Tuple

from engines import c31decode as D
from engines import peglite as P
from engines import pyfacts as pf
from engines import relang as R
from engines import scalalite as S
from engines import strpred as sp
from engines.common import AnalysisError, Ctx

META = dict(
    category='other',
    text='Lexical agreement between the Python printers/escapers, the Python type grammar and the engine lexer is decided exactly on '
         'regular languages over all Unicode code points (inclusions by DFA product with shortest witnesses, per escape-unit kind); '
         'the print/parse round trip is decided per type class by interpreting the grammar text with our own PEG interpreter on '
         'instantiated print templates (structural induction over the type constructors, sampled field names); the decoder unescape_parsable is '
         'decided unit kind by unit kind as a chain of symbolic transducers (ordered regex matching and replacement functions evaluated on symbolic '
         'texts with case splits); hl.dtype is decided by abstract '
         'data flow (its result is the parse of its own argument; memo keys classified by a closed table of injective / grammar-neutral / lossy '
         'shapes); the visitor is checked as a data path (every value-carrying member reaches the constructor unaltered, in reading order) and '
         'printer templates are matched symbolically against the token-reading scripts of the engine parser arms. '
         'Sampling of field names and children in R4 keeps the level at other.',
    note='Trusted: CPython ast/re._parser, the unicode_escape codec and str predicates of the running interpreter, '
         'Character.isJavaIdentifierStart/Part of the installed JDK (fallback: unicodedata categories), the definition of '
         'scala-parser-combinators JavaTokenParsers.ident, engines/relang.py, peglite.py, scalalite.py, strpred.py, c31decode.py (native model of the '
         'unicode_escape decoder from its documentation, re.sub scanning semantics); the closed tables of injective / lossy '
         'string operations and of order-preserving visitor operations. Assumes regex '
         'terminals of the grammar follow stdlib `re` semantics.',
    technique='static analysis: regular-language inclusion over a Unicode partition, symbolic evaluation of escapers into unit tables, '
              'PEG interpretation of the extracted grammar text, fail-closed Scala fragment extraction, inter-procedural abstract data flow, '
              'symbolic matching of printer templates against parser scripts',
    design_ref='DESIGN.md §3 C31',
)

F_TYPES = 'hail/python/hail/expr/types.py'
F_GRAMMAR = 'hail/python/hail/expr/type_parsing.py'
F_JAVA = 'hail/python/hail/utils/java.py'
F_MISC = 'hail/python/hail/utils/misc.py'
F_PARSER = S.PARSER_SCALA
F_ESCUTIL = S.ESCAPE_UTILS_SCALA

# --------------------------------------------------------------------------------------
# platform tables
# --------------------------------------------------------------------------------------

_java_cache: Optional[Tuple[R.CharSet, R.CharSet, str]] = None

_JAVA_SRC = '''public class IdTab {
    public static void main(String[] a) {
        StringBuilder sb = new StringBuilder();
        for (int which = 0; which < 2; which++) {
            boolean prev = false; int start = 0;
            for (int c = 0; c <= 0x10000; c++) {
                boolean v = c <= 0xFFFF && (which == 0 ? Character.isJavaIdentifierStart((char) c) : Character.isJavaIdentifierPart((char) c));
                if (v && !prev) start = c;
                if (!v && prev) sb.append(Integer.toHexString(start)).append('-').append(Integer.toHexString(c - 1)).append(',');
                prev = v;
            }
            sb.append('\\n');
        }
        sb.append(System.getProperty("java.version")).append('\\n');
        System.out.print(sb);
    }
}
'''


def java_identifier_tables(ctx: Ctx) -> Tuple[R.CharSet, R.CharSet, str]:
    """(isJavaIdentifierStart, isJavaIdentifierPart) of `char` values 0..0xFFFF, from the installed JDK (platform definition)."""
    global _java_cache
    if _java_cache is not None:
        return _java_cache
    out = None
    # the table depends on the installed JDK only: it is kept in the system temp directory under a key made of the identity of the `java`
    # binary (resolved path, size, mtime) and of the tabulating program, so that the JVM is started once per JDK, not once per run
    cache = None
    try:
        import hashlib
        import shutil
        exe = shutil.which('java')
        if exe:
            real = os.path.realpath(exe)
            st_ = os.stat(real)
            key = hashlib.sha256(f'{real}|{st_.st_size}|{st_.st_mtime_ns}|{_JAVA_SRC}'.encode()).hexdigest()[:24]
            cache = os.path.join(tempfile.gettempdir(), f'verif_c31_javatab_{key}.txt')
            if os.path.exists(cache):
                with open(cache) as fh:
                    txt = fh.read()
                if txt.count('\n') >= 3 and txt.endswith('\n#complete\n'):
                    out = txt
    except OSError:
        cache = None
    if out is None:
        tmp = tempfile.mkdtemp(prefix='verif_c31_java_')
        try:
            path = os.path.join(tmp, 'IdTab.java')
            with open(path, 'w') as fh:
                fh.write(_JAVA_SRC)
            try:
                p = subprocess.run(['java', '-XX:TieredStopAtLevel=1', path], capture_output=True, text=True, timeout=120, cwd=tmp)
                if p.returncode == 0 and p.stdout.count('\n') >= 3:
                    out = p.stdout
            except (OSError, subprocess.SubprocessError):
                out = None
        finally:
            for f in os.listdir(tmp):
                os.unlink(os.path.join(tmp, f))
            os.rmdir(tmp)
        if out is not None and cache is not None:
            try:
                fd, tmpname = tempfile.mkstemp(prefix='verif_c31_javatab_', suffix='.part', dir=tempfile.gettempdir())
                with os.fdopen(fd, 'w') as fh:
                    fh.write(out + ('' if out.endswith('\n') else '\n') + '#complete\n')
                os.replace(tmpname, cache)
            except OSError:
                pass
    if out is not None:
        lines = out.split('\n')

        def parse(line: str) -> R.CharSet:
            rs = []
            for part in line.split(','):
                if part:
                    a, b = part.split('-')
                    rs.append((int(a, 16), int(b, 16)))
            return R.CharSet(rs)
        _java_cache = (parse(lines[0]), parse(lines[1]), f'JDK {lines[2].strip()}')
        ctx.trusted_base.append(f'Character.isJavaIdentifierStart/Part(char) tabulated from the installed {_java_cache[2]}')
        return _java_cache
    # fallback: the documented definition over unicodedata general categories
    start_cat = {'Lu', 'Ll', 'Lt', 'Lm', 'Lo', 'Nl', 'Sc', 'Pc'}
    part_cat = start_cat | {'Nd', 'Mn', 'Mc', 'Cf'}
    st, pt = [], []
    for c in range(0x10000):
        cat = unicodedata.category(chr(c))
        ign = c <= 8 or 0xE <= c <= 0x1B or 0x7F <= c <= 0x9F
        st.append(cat in start_cat)
        pt.append(cat in part_cat or ign)
    ctx.assume('`java` is not available: Character.isJavaIdentifierStart/Part are approximated from unicodedata general categories '
               f'(Unicode {unicodedata.unidata_version}), which may differ from the JDK\'s Unicode version')
    _java_cache = (R.from_table('java.start.fallback', st + [False] * (R.MAXCP + 1 - 0x10000)),
                   R.from_table('java.part.fallback', pt + [False] * (R.MAXCP + 1 - 0x10000)), 'unicodedata fallback')
    return _java_cache


def java_ident_language(ctx: Ctx) -> Tuple[R.Lang, str]:
    """JavaTokenParsers.ident over CODE POINTS: a supplementary code point is two surrogate chars, each of which must satisfy the
    char predicate."""
    start, part, origin = java_identifier_tables(ctx)
    hi_sur, lo_sur = R.CharSet([(0xD800, 0xDBFF)]), R.CharSet([(0xDC00, 0xDFFF)])

    def lift(cs: R.CharSet) -> R.CharSet:
        # supplementary code points qualify only if every high and low surrogate involved does; decide uniformly (all or nothing)
        if hi_sur.issubset(cs) and lo_sur.issubset(cs):
            return cs | R.CharSet([(0x10000, R.MAXCP)])
        if not (hi_sur & cs) or not (lo_sur & cs):
            return cs
        raise AnalysisError('Java identifier tables accept only some surrogates; the code-point lifting is not uniform')
    s2, p2 = lift(start), lift(part)
    return R.lang(R.seq(R.chars(s2), R.star(R.chars(p2))), 'JavaIdentifierStart JavaIdentifierPart*'), origin


# ---- unit tables ------------------------------------------------------------------------
# a unit: (lo, hi, parts)  parts: list of ('lit', text) | ('self',) | ('hex', min_width, upper)


class Unit:
    __slots__ = ('lo', 'hi', 'parts')

    def __init__(self, lo: int, hi: int, parts: List[tuple]):
        self.lo, self.hi, self.parts = lo, hi, parts

    def kind(self) -> str:
        out = []
        for p in self.parts:
            if p[0] == 'lit':
                out.append(p[1])
            elif p[0] == 'self':
                out.append('<the character itself>')
            else:
                out.append('N' * max(p[1], len(f'{self.hi:x}')) if len(f'{self.lo:x}') == len(f'{self.hi:x}') or p[1] >= len(f'{self.hi:x}')
                           else 'N' * p[1] + '+')
        return ''.join(out)

    def output(self, cp: int) -> str:
        out = []
        for p in self.parts:
            if p[0] == 'lit':
                out.append(p[1])
            elif p[0] == 'self':
                out.append(chr(cp))
            else:
                out.append(format(cp, f'0{p[1]}{"X" if p[2] else "x"}'))
        return ''.join(out)

    def regex(self) -> R.Re:
        kinds = [p[0] for p in self.parts]
        if kinds.count('self') + kinds.count('hex') > 1:
            raise AnalysisError('unit with more than one character-dependent part')
        items: List[R.Re] = []
        for p in self.parts:
            if p[0] == 'lit':
                items.append(R.lit(p[1]))
            elif p[0] == 'self':
                items.append(R.chars(R.CharSet([(self.lo, self.hi)])))
            else:
                width, upper = p[1], p[2]
                digits = '0123456789ABCDEF' if upper else '0123456789abcdef'
                alts = []
                d = max(width, 1)
                lo = self.lo
                while lo <= self.hi:
                    top = 16 ** d - 1
                    if lo <= top:
                        alts.append(R.numeral_range(lo, min(self.hi, top), d, digits))
                        lo = min(self.hi, top) + 1
                    d += 1
                items.append(alts[0] if len(alts) == 1 else R.alt(*alts))
        return R.seq(*items)

    def examples(self) -> List[int]:
        """Code points that exercise every digit count of the unit (plus a friendly one)."""
        out = {self.lo, self.hi}
        for nice in (0xE9, 0x1F600, 0x4E2D, ord('a'), ord(' ')):
            if self.lo <= nice <= self.hi:
                out.add(nice)
        d = 1
        while 16 ** d <= self.hi:
            if self.lo <= 16 ** d <= self.hi:
                out.add(16 ** d)
                out.add(16 ** d - 1) if self.lo <= 16 ** d - 1 else None
            d += 1
        return sorted(out)


def split_by_width(units: List[Unit]) -> List[Unit]:
    """Split hex units so that every unit has ONE digit count (kind labels then name the width exactly)."""
    out = []
    for u in units:
        hexp = [p for p in u.parts if p[0] == 'hex']
        if not hexp:
            out.append(u)
            continue
        w = hexp[0][1]
        lo = u.lo
        d = max(w, 1)
        while lo <= u.hi:
            top = 16 ** d - 1
            if lo <= top:
                out.append(Unit(lo, min(u.hi, top), [(p if p[0] != 'hex' else ('hex', d, p[2])) for p in u.parts]))
                lo = min(u.hi, top) + 1
            d += 1
    return out


_codec_cache: Optional[List[Unit]] = None


def unicode_escape_units() -> List[Unit]:
    """The unit table of str.encode('unicode_escape') of the running interpreter, tabulated over ALL code points by encoding the
    string of all code points once and cutting the result into runs (platform definition, like unicodedata)."""
    global _codec_cache
    if _codec_cache is not None:
        return _codec_cache
    data = R._all_chars().encode('unicode_escape')
    units: List[Unit] = []
    cp = 0
    pos = 0
    total = R.MAXCP + 1

    def numeral_run(kind: str, w: int, cp0: int, pos0: int) -> int:
        """The number of consecutive code points from cp0 whose output at pos0 is \\<kind> + the w-digit lower-case numeral; EVERY numeral
        is compared, column by column (the k-th digits of a chunk of numerals against the k-th bytes of the output, strided slices),
        galloping over chunks."""
        from array import array
        size = 2 + w
        code = {2: 'B', 4: 'H', 8: 'I'}[w]
        done, step = 0, 256
        limit = min(total - cp0, (16 ** w) - cp0)

        def chunk_ok(first: int, n: int, at: int) -> bool:
            piece = data[at: at + size * n]
            if len(piece) != size * n or piece[0::size] != b'\\' * n or piece[1::size] != kind.encode('ascii') * n:
                return False
            nums = array(code, range(first, first + n))
            if nums.itemsize * 2 != w:
                raise AnalysisError('unicode_escape tabulation: unexpected array item size')
            if sys.byteorder == 'little':
                nums.byteswap()
            hx = nums.tobytes().hex().encode('ascii')
            return all(piece[2 + k::size] == hx[k::w] for k in range(w))

        while done < limit:
            n = min(step, limit - done)
            if chunk_ok(cp0 + done, n, pos0 + size * done):
                done += n
                step *= 4
                continue
            if n == 1:
                break
            step = max(1, n // 8)
        return done

    while cp < total and pos < len(data):
        if data[pos] != 0x5C:
            n = 0
            while cp + n < 0x80 and pos + n < len(data) and data[pos + n] == cp + n and data[pos + n] != 0x5C:
                n += 1
            if n == 0:
                raise AnalysisError('unicode_escape tabulation: raw run is not the identity')
            units.append(Unit(cp, cp + n - 1, [('self',)]))
            cp += n
            pos += n
            continue
        intro = chr(data[pos + 1]) if pos + 1 < len(data) else ''
        if intro in ('x', 'u', 'U'):
            w = {'x': 2, 'u': 4, 'U': 8}[intro]
            n = numeral_run(intro, w, cp, pos)
            if n == 0:
                raise AnalysisError('unicode_escape tabulation: escapes are not the code point numerals in order')
            units.append(Unit(cp, cp + n - 1, [('lit', '\\' + intro), ('hex', w, False)]))
            cp += n
            pos += n * (2 + w)
            continue
        if not intro or data[pos + 1] >= 0x80:
            raise AnalysisError('unicode_escape tabulation: unexpected output shape')
        units.append(Unit(cp, cp, [('lit', '\\' + intro)]))
        cp += 1
        pos += 2
    if pos != len(data) or cp != R.MAXCP + 1:
        raise AnalysisError(f'unicode_escape tabulation covered {cp} code points')
    _codec_cache = units
    return units


def apply_replace(units: List[Unit], a: str, b: str, where: str) -> List[Unit]:
    """Effect of `.replace(a, b)` on a character-wise encoder's output, for a one-character a."""
    if len(a) != 1:
        raise AnalysisError(f'{where}: .replace({a!r}, ...) with a multi-character pattern can span units; not modelled')
    ca = ord(a)
    out: List[Unit] = []
    for u in units:
        if any(p[0] == 'hex' for p in u.parts) and a in '0123456789abcdefABCDEF':
            raise AnalysisError(f'{where}: .replace of a hex digit is not modelled')
        parts = [('lit', p[1].replace(a, b)) if p[0] == 'lit' else p for p in u.parts]
        if any(p[0] == 'self' for p in parts) and u.lo <= ca <= u.hi:
            if u.lo < ca:
                out.append(Unit(u.lo, ca - 1, parts))
            out.append(Unit(ca, ca, [('lit', b) if p[0] == 'self' else p for p in parts]))
            if ca < u.hi:
                out.append(Unit(ca + 1, u.hi, parts))
        else:
            out.append(Unit(u.lo, u.hi, parts))
    return out


def emitted_language(units: List[Unit], delim: str, label: str) -> R.Lang:
    return R.lang(R.seq(R.lit(delim), R.star(R.alt(*[u.regex() for u in units])), R.lit(delim)), label)


def decode_with(units: List[Unit], text: str) -> Optional[str]:
    """The string whose rendering with OUR unit table (fixed-width units) is `text`, read unit by unit; None when there is none or
    more than one reading."""
    out: List[str] = []
    i = 0
    while i < len(text):
        hits = []
        for u in units:
            if len(u.parts) == 1 and u.parts[0][0] == 'self':
                if u.lo <= ord(text[i]) <= u.hi:
                    hits.append((chr(ord(text[i])), 1))
                continue
            n = len(u.output(u.lo))
            if len(u.output(u.hi)) != n:
                return None
            piece = text[i:i + n]
            if len(piece) < n:
                continue
            if u.lo == u.hi:
                if u.output(u.lo) == piece:
                    hits.append((chr(u.lo), n))
                continue
            # one numeral: read it back
            pos = 0
            val = None
            ok = True
            for p in u.parts:
                if p[0] == 'lit':
                    ok = ok and piece.startswith(p[1], pos)
                    pos += len(p[1])
                elif p[0] == 'hex':
                    w = n - sum(len(q[1]) for q in u.parts if q[0] == 'lit')
                    digs = piece[pos:pos + w]
                    pos += w
                    if not digs or any(ch not in ('0123456789ABCDEF' if p[2] else '0123456789abcdef') for ch in digs):
                        ok = False
                    else:
                        val = int(digs, 16)
                else:
                    ok = False
            if ok and val is not None and u.lo <= val <= u.hi and u.output(val) == piece:
                hits.append((chr(val), n))
        if len(hits) != 1:
            return None
        out.append(hits[0][0])
        i += hits[0][1]
    return ''.join(out)


def encode_with(units: List[Unit], s: str) -> str:
    out = []
    for ch in s:
        cp = ord(ch)
        for u in units:
            if u.lo <= cp <= u.hi:
                out.append(u.output(cp))
                break
        else:
            raise AnalysisError(f'unit table has no entry for U+{cp:04X}')
    return ''.join(out)


# --------------------------------------------------------------------------------------
# Python side extraction
# --------------------------------------------------------------------------------------


def _norm_codec(c: str) -> str:
    return c.lower().replace('-', '').replace('_', '')


def _pipeline(ctx: Ctx, m: pf.Module, fn: pf.FuncDef, e: ast.AST, param: str) -> List[tuple]:
    """Chain of string operations applied to `param`, innermost first: ('encode', codec) ('decode', codec) ('replace', a, b)."""
    ops: List[tuple] = []
    cur = e
    while True:
        if isinstance(cur, ast.Name) and cur.id == param:
            break
        if isinstance(cur, ast.Call) and isinstance(cur.func, ast.Attribute) and not cur.keywords:
            attr = cur.func.attr
            args = [sp.const_string(m, fn, a) for a in cur.args]
            if attr in ('encode', 'decode') and len(args) == 1:
                ops.append((attr, _norm_codec(args[0])))
            elif attr == 'replace' and len(args) == 2:
                ops.append(('replace', args[0], args[1]))
            else:
                raise AnalysisError(f'{m.rel}::{fn.name}: unrecognised string operation `{pf.nsrc(cur)[:60]}`')
            cur = cur.func.value
            continue
        if isinstance(cur, ast.Call) and pf.dotted(cur.func) in ('bytes', 'str') and len(cur.args) == 2 and not cur.keywords:
            ops.append(('encode' if pf.dotted(cur.func) == 'bytes' else 'decode', _norm_codec(sp.const_string(m, fn, cur.args[1]))))
            cur = cur.args[0]
            continue
        raise AnalysisError(f'{m.rel}::{fn.name}: unrecognised string operation `{pf.nsrc(cur)[:60]}`')
    return list(reversed(ops))


class _Cond(sp.Translator):
    """strpred's translator plus `s.isidentifier()` (XID_Start|_ then XID_Continue*, tabulated from the running interpreter)."""

    def cond(self, e: ast.AST) -> R.Lang:
        if isinstance(e, ast.Call) and isinstance(e.func, ast.Attribute) and e.func.attr == 'isidentifier' and not e.args and not e.keywords \
                and self._is_param(e.func.value):
            start = R.tabulate('str.isidentifier.start', lambda c: c.isidentifier())
            cont = R.tabulate('str.isidentifier.continue', lambda c: ('a' + c).isidentifier())
            return R.lang(R.seq(R.chars(start), R.star(R.chars(cont))), 'str.isidentifier')
        if isinstance(e, ast.Call) and pf.dotted(e.func) in ('keyword.iskeyword', 'iskeyword') and len(e.args) == 1 and self._is_param(e.args[0]):
            import keyword
            return R.lang(R.alt(*[R.lit(k) for k in keyword.kwlist]), 'keyword.iskeyword')
        return super().cond(e)


class Branch:
    """One exit of an escaper's decision list: the names that reach it (`guard`, exact: the conjunction of the tests on the way) and what it
    returns for them."""
    __slots__ = ('guard', 'value', 'line', 'path', 'kind', 'delim', 'inner', 'transform', 'units', 'chars', 'label')

    def __init__(self, guard: R.Lang, value: ast.AST, line: int, path: List[str]):
        self.guard, self.value, self.line, self.path = guard, value, line, path
        self.kind = ''          # 'bare' | 'escaped'
        self.delim = ''
        self.inner: Optional[ast.AST] = None
        self.transform = ''     # filled by the caller: 'identity' | 'escape_str(backticked=...)' | 'pipeline ...'
        self.units: List['Unit'] = []
        self.chars: Optional[R.CharSet] = None
        self.label = ''

    def when(self) -> str:
        return ' and '.join(self.path) if self.path else 'always'


class Escaper:
    """A decision list over the name: `if <test on s>: return <form> [elif ...] ... return <form>` (if / elif / else nesting, early returns,
    single-assignment locals), every <form> being the name itself (bare) or <delimiter> + f(s) + <delimiter>.  Each test is a regex call or
    any combination of string predicates engines/strpred can turn into a regular language, so every exit gets the exact language of the
    names that reach it."""

    def __init__(self, ctx: Ctx, m: pf.Module, name: str):
        self.m = m
        self.name = name
        fn = m.func(name)
        self.fn = fn
        params = [a.arg for a in fn.args.args]
        ctx.need(len(params) == 1 and not fn.args.vararg and not fn.args.kwarg and not fn.args.kwonlyargs, f'{m.rel}::{name}: expected one parameter')
        self.param = params[0]
        for n in pf.walk_shallow(fn):
            if isinstance(n, ast.Name) and isinstance(n.ctx, (ast.Store, ast.Del)) and n.id == self.param:
                raise AnalysisError(f'{m.rel}::{name}: the parameter is rebound')
        self.branches: List[Branch] = []
        self.test_line = 0
        rest = self._walk([s for s in fn.body], R.everything(), [])
        if rest is not None and R.shortest(rest) is not None:
            raise AnalysisError(f'{m.rel}::{name}: some names fall off the end of the function (no return)')
        live = []
        for b in self.branches:
            if R.shortest(b.guard) is None:
                ctx.info(f'{m.rel}::{name}: the exit `return {pf.nsrc(b.value)[:50]}` (when {b.when()}) is unreachable; ignored')
                continue
            live.append(b)
        self.branches = live
        for b in self.branches:
            v = b.value
            if isinstance(v, ast.Name) and v.id == self.param:
                b.kind = 'bare'
            else:
                b.delim, b.inner = _delimited(ctx, m, fn, v)
                b.kind = 'escaped'
        bare = [b for b in self.branches if b.kind == 'bare']
        self.escaped = [b for b in self.branches if b.kind == 'escaped']
        ctx.need(bool(bare) and bool(self.escaped), f'{m.rel}::{name}: exactly one branch must return the name unchanged' if not bare else
                 f'{m.rel}::{name}: unrecognised escaping branch')
        ctx.need(len({b.delim for b in self.escaped}) == 1, f'{m.rel}::{name}: the escaping exits use different delimiters')
        lang = bare[0].guard
        for b in bare[1:]:
            lang = lang | b.guard
        self.why = ' / '.join(f'it satisfies `{b.when()}`' for b in bare)
        self.bare = lang
        self.bare.label = f'{name}: bare names ({self.why})'
        self.escaped_expr = self.escaped[-1].value  # the general form (kept for callers that know a single escaping exit)

    def _test(self, test: ast.AST) -> R.Lang:
        test = pf.expand_locals(self.fn, test)
        rc = None
        try:
            rc = sp.regex_call(self.m, self.fn, test)
        except AnalysisError:
            rc = None
        if rc is not None and isinstance(rc[2], ast.Name) and rc[2].id == self.param:
            rd, mode, _subj = rc
            return R.from_regex(rd.pattern, rd.flags, mode)
        return _Cond(self.m, self.fn, self.param).cond(test)

    def _walk(self, stmts: List[ast.stmt], reach: R.Lang, path: List[str]) -> Optional[R.Lang]:
        """Record the exits of `stmts` entered by the names in `reach`; the names that fall through (None: nobody does)."""
        where = f'{self.m.rel}::{self.name}'
        path = list(path)
        for st in stmts:
            if isinstance(st, ast.Expr) and isinstance(st.value, ast.Constant):
                continue
            if isinstance(st, ast.Pass):
                continue
            if isinstance(st, ast.If):
                if not self.test_line:
                    self.test_line = st.lineno
                T = self._test(st.test)
                src = pf.nsrc(st.test)
                a = self._walk(list(st.body), reach & T, path + [src])
                b = self._walk(list(st.orelse), reach & ~T, path + [f'not ({src})'])
                if a is None and b is None:
                    return None
                if a is None:
                    reach = b  # type: ignore[assignment]
                    path.append(f'not ({src})')
                elif b is None:
                    reach = a
                    path.append(src)
                else:
                    reach = a | b
                continue
            if isinstance(st, ast.Return):
                if st.value is None:
                    raise AnalysisError(f'{where}: bare `return`')
                self.branches.append(Branch(reach, pf.expand_locals(self.fn, st.value), st.lineno, path))
                return None
            if isinstance(st, ast.Assign) and len(st.targets) == 1 and isinstance(st.targets[0], ast.Name) and st.targets[0].id != self.param \
                    and pf.single_def(self.fn, st.targets[0].id) is st.value:
                continue  # a single-assignment local: substituted where it is used
            raise AnalysisError(f'{where}: unrecognised escaping branch (statement `{pf.nsrc(st)[:60]}`)')
        return reach


def _delimited(ctx: Ctx, m: pf.Module, fn: pf.FuncDef, e: ast.AST) -> Tuple[str, ast.AST]:
    """`D + X + D`, `'D{}D'.format(X)` or f'D{X}D'  ->  (D, X)"""
    if isinstance(e, ast.BinOp) and isinstance(e.op, ast.Add) and isinstance(e.left, ast.BinOp) and isinstance(e.left.op, ast.Add):
        l, x, r = pf.const_str(e.left.left), e.left.right, pf.const_str(e.right)
        if l is not None and r is not None and l == r and len(l) == 1:
            return l, x
    if isinstance(e, ast.Call) and isinstance(e.func, ast.Attribute) and e.func.attr == 'format' and len(e.args) == 1 and not e.keywords:
        t = pf.const_str(e.func.value)
        if t is not None and len(t) == 4 and t[1:3] == '{}' and t[0] == t[3]:
            return t[0], e.args[0]
    if isinstance(e, ast.JoinedStr) and len(e.values) == 3 and isinstance(e.values[1], ast.FormattedValue) and e.values[1].format_spec is None \
            and e.values[1].conversion == -1:
        l, r = pf.const_str(e.values[0]), pf.const_str(e.values[2])
        if l is not None and l == r and len(l) == 1:
            return l, e.values[1].value
    raise AnalysisError(f'{m.rel}::{fn.name}: escaped form `{pf.nsrc(e)[:70]}` is not <delimiter> + f(s) + <delimiter>')


def handwritten_encoder(m: pf.Module, fn: pf.FuncDef, inner: ast.AST, param: str, consts: Optional[Dict[str, Any]] = None) -> List[Unit]:
    """Unit table of a hand-written per-character encoder `<core>(s)[.replace(c, t)]*` (core: re.sub with a replacement function /
    ''.join(<expr> for ch in s) / s.translate(<literal table>)), by abstract evaluation on the symbolic character (engines/c31decode)."""
    where = f'{m.rel}::{fn.name}'
    post: List[tuple] = []
    cur = pf.expand_locals(fn, inner)
    while isinstance(cur, ast.Call) and isinstance(cur.func, ast.Attribute) and cur.func.attr == 'replace' and len(cur.args) == 2 and not cur.keywords:
        post.append((sp.const_string(m, fn, cur.args[0]), sp.const_string(m, fn, cur.args[1])))
        cur = cur.func.value
    codec = [(u.lo, u.hi, u.parts) for u in unicode_escape_units()]
    leaves = D.char_encoder(m, fn, cur, param, codec, consts)
    units: List[Unit] = []
    for cs, parts in leaves:
        for lo, hi in cs.ranges:
            units.append(Unit(lo, hi, list(parts)))
    units.sort(key=lambda u: u.lo)
    merged: List[Unit] = []
    for u in units:
        if merged and merged[-1].hi + 1 == u.lo and merged[-1].parts == u.parts and any(p[0] != 'lit' for p in u.parts):
            merged[-1].hi = u.hi
        else:
            merged.append(u)
    pos = 0
    for u in merged:
        if u.lo != pos:
            raise AnalysisError(f'{where}: the per-character table does not cover U+{pos:04X}')
        pos = u.hi + 1
    if pos != R.MAXCP + 1:
        raise AnalysisError(f'{where}: the per-character table does not cover U+{pos:04X}')
    for a, b in reversed(post):
        merged = apply_replace(merged, a, b, where)
    return merged


# ---- escape_str by symbolic evaluation ---------------------------------------------------


class EscapeStr:
    """Unit table of misc.escape_str(s, backticked) for both values of `backticked`, by evaluating the per-character loop body over
    code-point ranges that no test of the body can split."""

    def __init__(self, ctx: Ctx, m: pf.Module):
        self.m = m
        fn = m.func('escape_str')
        self.fn = fn
        params = [a.arg for a in fn.args.args]
        ctx.need(params == ['s', 'backticked'] and len(fn.args.defaults) == 1 and isinstance(fn.args.defaults[0], ast.Constant)
                 and fn.args.defaults[0].value is False, f'{m.rel}::escape_str: signature changed ({params})')
        # upper_hex model
        uh = m.func('upper_hex')
        ctx.need(pf.nsrc(uh) == pf.nsrc(ast.parse(
            'def upper_hex(n, num_digits=None):\n    if num_digits is None:\n        return "{0:X}".format(n)\n    else:\n'
            '        return "{0:0{1}X}".format(n, num_digits)').body[0]), f'{m.rel}::upper_hex: body changed; the hex model does not apply')
        loops = [s for s in fn.body if isinstance(s, ast.For)]
        self.mode = 'loop'
        self.core: Optional[ast.AST] = None
        self.pre: List[ast.stmt] = []   # the decision list in front of the loop (early exits), in order
        for n in pf.walk_shallow(fn):
            if isinstance(n, ast.Name) and isinstance(n.ctx, (ast.Store, ast.Del)) and n.id in params:
                raise AnalysisError(f'{m.rel}::escape_str: the parameter {n.id} is rebound')
        if not loops and fn.body and isinstance(fn.body[-1], ast.Return) and fn.body[-1].value is not None:
            # no character loop: `return <per-character expression over s>` (re.sub with a replacement function, ''.join(... for ch in s),
            # str.translate), decided by engines/c31decode.char_encoder
            self.mode = 'expr'
            for st in fn.body[:-1]:
                if isinstance(st, ast.Expr) and isinstance(st.value, ast.Constant):
                    continue
                if isinstance(st, ast.If):
                    self.pre.append(st)
                    continue
                if isinstance(st, ast.FunctionDef):
                    continue
                ctx.need(isinstance(st, ast.Assign) and len(st.targets) == 1 and isinstance(st.targets[0], ast.Name)
                         and pf.single_def(fn, st.targets[0].id) is st.value,  # type: ignore[union-attr]
                         f'{m.rel}::escape_str: unrecognised statement `{pf.nsrc(st)[:60]}`')
            self.loop = fn.body[-1]  # type: ignore[assignment]
            self.core = fn.body[-1].value
            return
        ctx.need(len(loops) == 1 and isinstance(loops[0].target, ast.Name) and pf.nsrc(loops[0].iter) == 's' and not loops[0].orelse,
                 f'{m.rel}::escape_str: expected one `for ch in s` loop')
        self.loop = loops[0]
        self.ch = loops[0].target.id
        # the buffer: sb = StringIO(); ... escaped = sb.getvalue(); return escaped
        pre = fn.body[:fn.body.index(self.loop)]
        post = fn.body[fn.body.index(self.loop) + 1:]
        self.buf = None
        self.dicts: Dict[str, Dict[str, str]] = {}
        for st in pre:
            if isinstance(st, ast.Expr) and isinstance(st.value, ast.Constant):
                continue
            if isinstance(st, ast.If):
                # an early exit (fast path): decided per value of `backticked` by exits()
                self.pre.append(st)
                continue
            ctx.need(isinstance(st, ast.Assign) and len(st.targets) == 1 and isinstance(st.targets[0], ast.Name),
                     f'{m.rel}::escape_str: unrecognised statement before the loop `{pf.nsrc(st)[:60]}`')
            tgt, v = st.targets[0].id, st.value  # type: ignore[union-attr]
            if isinstance(v, ast.Call) and pf.dotted(v.func) in ('StringIO', 'io.StringIO') and not v.args:
                self.buf = tgt
            elif pf.single_def(fn, tgt) is v and not isinstance(v, ast.Dict) and not any(
                    isinstance(x, ast.Name) and x.id == tgt for x in ast.walk(self.loop)) and not any(
                    isinstance(x, (ast.Await, ast.Yield, ast.YieldFrom, ast.NamedExpr)) for x in ast.walk(v)):
                continue  # a single-assignment local used by the tests in front of the loop only: substituted where it is used
            elif isinstance(v, ast.Dict):
                d = {}
                for k, val in zip(v.keys, v.values):
                    ks, vs = pf.const_str(k) if k is not None else None, pf.const_str(val)
                    ctx.need(ks is not None and vs is not None and len(ks) == 1, f'{m.rel}::escape_str: {tgt} is not a char -> str literal table')
                    d[ks] = vs
                self.dicts[tgt] = d  # type: ignore[assignment]
            else:
                ctx.need(False, f'{m.rel}::escape_str: unrecognised statement before the loop `{pf.nsrc(st)[:60]}`')
        ctx.need(self.buf is not None, f'{m.rel}::escape_str: no StringIO buffer')
        post_src = [pf.nsrc(s) for s in post]
        ctx.need(post_src in ([f'escaped = {self.buf}.getvalue()', f'{self.buf}.close()', 'return escaped'], [f'return {self.buf}.getvalue()']),
                 f'{m.rel}::escape_str: unrecognised statements after the loop {post_src}')
        # boundaries
        self.bounds = {0, R.MAXCP + 1}
        for n in ast.walk(self.loop):
            if isinstance(n, ast.Constant):
                if isinstance(n.value, int) and not isinstance(n.value, bool) and 0 <= n.value <= R.MAXCP:
                    self.bounds |= {n.value, n.value + 1}
                elif isinstance(n.value, str) and len(n.value) == 1:
                    self.bounds |= {ord(n.value), ord(n.value) + 1}
        for d in self.dicts.values():
            for k in d:
                self.bounds |= {ord(k), ord(k) + 1}

    def units(self, backticked: bool) -> List[Unit]:
        if self.mode == 'expr':
            return handwritten_encoder(self.m, self.fn, self.core, 's', {'backticked': backticked})  # type: ignore[arg-type]
        bl = sorted(b for b in self.bounds if b <= R.MAXCP + 1)
        out: List[Unit] = []
        for i in range(len(bl) - 1):
            lo, hi = bl[i], bl[i + 1] - 1
            parts = self._run(self.loop.body, {'backticked': backticked}, lo)
            if parts is None:
                parts = []
            if out and out[-1].hi + 1 == lo and out[-1].parts == parts and not (len(parts) == 1 and parts[0][0] == 'lit'):
                out[-1].hi = hi
            elif len(parts) >= 1 and all(p[0] == 'lit' for p in parts) and hi > lo:
                raise AnalysisError(f'{self.m.rel}::escape_str: a constant output for a multi-character range {lo:#x}-{hi:#x}')
            else:
                out.append(Unit(lo, hi, parts))
        return out

    def exits(self, backticked: bool) -> List[Tuple[Optional[R.Lang], str, List[str], int]]:
        """The exits of escape_str(s, backticked) as a decision list over s: [(guard, kind, path, line)], kind 'identity' (an early
        `return s` in front of the loop: the string is emitted as it is) or 'loop' (the per-character table of units()); guard None = every
        string.  The tests in front of the loop are turned into exact regular languages of s with `backticked` replaced by its value;
        unreachable exits are dropped."""
        if not self.pre:
            return [(None, 'loop', [], self.loop.lineno)]
        where = f'{self.m.rel}::escape_str'
        param, flagname = 's', 'backticked'
        out: List[Tuple[Optional[R.Lang], str, List[str], int]] = []
        fn, m = self.fn, self.m

        class _Flag(ast.NodeTransformer):
            def visit_Name(self, node: ast.Name):  # noqa: N802
                if node.id == flagname and isinstance(node.ctx, ast.Load):
                    return ast.copy_location(ast.Constant(value=backticked), node)
                return node

            def visit_Compare(self, node: ast.Compare):  # noqa: N802
                # `backticked is True` / `backticked == False` ...
                if len(node.ops) == 1 and isinstance(node.left, ast.Name) and node.left.id == flagname and isinstance(node.comparators[0], ast.Constant) \
                        and isinstance(node.comparators[0].value, bool) and isinstance(node.ops[0], (ast.Is, ast.IsNot, ast.Eq, ast.NotEq)):
                    v = (backticked == node.comparators[0].value) == isinstance(node.ops[0], (ast.Is, ast.Eq))
                    return ast.copy_location(ast.Constant(value=v), node)
                return self.generic_visit(node)

            def visit_UnaryOp(self, node: ast.UnaryOp):  # noqa: N802
                node = self.generic_visit(node)  # type: ignore[assignment]
                if isinstance(node.op, ast.Not) and isinstance(node.operand, ast.Constant) and isinstance(node.operand.value, bool):
                    return ast.copy_location(ast.Constant(value=not node.operand.value), node)
                return node

            def visit_IfExp(self, node: ast.IfExp):  # noqa: N802
                node = self.generic_visit(node)  # type: ignore[assignment]
                if isinstance(node.test, ast.Constant) and isinstance(node.test.value, bool):
                    return node.body if node.test.value else node.orelse
                return node

        def lang_of(test: ast.AST) -> R.Lang:
            import copy
            t = _Flag().visit(copy.deepcopy(pf.expand_locals(fn, test)))
            ast.fix_missing_locations(t)
            return _Cond(m, fn, param).cond(t)

        def walk(stmts: Sequence[ast.stmt], reach: R.Lang, path: List[str]) -> Optional[R.Lang]:
            path = list(path)
            for st in stmts:
                if isinstance(st, (ast.Pass,)) or (isinstance(st, ast.Expr) and isinstance(st.value, ast.Constant)):
                    continue
                if isinstance(st, ast.If):
                    T = lang_of(st.test)
                    src = pf.nsrc(st.test)
                    a = walk(st.body, reach & T, path + [src])
                    b = walk(st.orelse, reach & ~T, path + [f'not ({src})'])
                    if a is None and b is None:
                        return None
                    if a is None:
                        reach = b  # type: ignore[assignment]
                        path.append(f'not ({src})')
                    elif b is None:
                        reach = a
                        path.append(src)
                    else:
                        reach = a | b
                    continue
                if isinstance(st, ast.Return) and st.value is not None:
                    v = pf.expand_locals(fn, st.value)
                    if isinstance(v, ast.Call) and pf.dotted(v.func) == 'str' and len(v.args) == 1 and not v.keywords:
                        v = v.args[0]
                    cst = pf.const_str(v)
                    if cst is not None and R.included(reach, R.lang(R.lit(cst), 'the constant')) is None:
                        pass  # a constant returned for exactly that string: the string itself
                    elif not (isinstance(v, ast.Name) and v.id == param):
                        raise AnalysisError(f'{where}: early exit `{pf.nsrc(st)[:60]}` in front of the loop does not return the string itself; not modelled')
                    if R.shortest(reach) is not None:
                        out.append((reach, 'identity', path, st.lineno))
                    return None
                raise AnalysisError(f'{where}: unrecognised statement before the loop `{pf.nsrc(st)[:60]}`')
            return reach

        rest = walk(self.pre, R.everything(), [])
        if rest is not None and R.shortest(rest) is not None:
            out.append((rest if out else None, 'loop', [] if not out else [f'not ({" or ".join(" and ".join(p_) for _g, _k, p_, _l in out)})'], self.loop.lineno))
        if not out:
            raise AnalysisError(f'{where}: no string reaches the loop or an exit')
        return out

    def _fail(self, e: ast.AST):
        raise AnalysisError(f'{self.m.rel}::escape_str: unrecognised construct in the character loop `{pf.nsrc(e)[:70]}`')

    def _val(self, e: ast.AST, env: Dict[str, Any], cp: int) -> Any:
        """Concrete value for the representative code point cp: int / bool / str, or a list of output parts for str-valued
        expressions that depend on the character."""
        if isinstance(e, ast.Constant):
            return e.value
        if isinstance(e, ast.Name):
            if e.id == self.ch:
                return ('CH',)
            if e.id in env:
                return env[e.id]
            self._fail(e)
        if isinstance(e, ast.Call) and pf.dotted(e.func) == 'ord' and len(e.args) == 1 and self._val(e.args[0], env, cp) == ('CH',):
            return ('ORD',)
        if isinstance(e, ast.BoolOp):
            vals = [self._truth(v, env, cp) for v in e.values]
            return all(vals) if isinstance(e.op, ast.And) else any(vals)
        if isinstance(e, ast.UnaryOp) and isinstance(e.op, ast.Not):
            return not self._truth(e.operand, env, cp)
        if isinstance(e, ast.Compare) and len(e.ops) == 1:
            op = e.ops[0]
            a = self._val(e.left, env, cp)
            if a == ('CH',) and isinstance(op, (ast.In, ast.NotIn)) and isinstance(e.comparators[0], ast.Name) and e.comparators[0].id in self.dicts:
                r = chr(cp) in self.dicts[e.comparators[0].id]
                return r if isinstance(op, ast.In) else not r
            b = self._val(e.comparators[0], env, cp)
            if a == ('ORD',) and isinstance(b, int):
                table = {ast.Lt: cp < b, ast.LtE: cp <= b, ast.Gt: cp > b, ast.GtE: cp >= b, ast.Eq: cp == b, ast.NotEq: cp != b}
                if type(op) in table:
                    return table[type(op)]
            if a == ('CH',) and isinstance(b, str) and isinstance(op, (ast.Eq, ast.NotEq)):
                r = len(b) == 1 and ord(b) == cp
                return r if isinstance(op, ast.Eq) else not r
            if a == ('CH',) and isinstance(op, (ast.In, ast.NotIn)):
                if isinstance(e.comparators[0], ast.Name) and e.comparators[0].id in self.dicts:
                    r = chr(cp) in self.dicts[e.comparators[0].id]
                elif isinstance(b, str):
                    r = chr(cp) in b
                else:
                    self._fail(e)
                return r if isinstance(op, ast.In) else not r
        self._fail(e)

    def _truth(self, e: ast.AST, env: Dict[str, Any], cp: int) -> bool:
        if isinstance(e, ast.Name) and e.id in self.dicts:
            self._fail(e)
        v = self._val(e, env, cp)
        if isinstance(v, bool):
            return v
        self._fail(e)
        raise AssertionError

    def _str(self, e: ast.AST, env: Dict[str, Any], cp: int) -> List[tuple]:
        if isinstance(e, ast.Constant) and isinstance(e.value, str):
            return [('lit', e.value)]
        if isinstance(e, ast.Name) and e.id == self.ch:
            return [('self',)]
        if isinstance(e, ast.BinOp) and isinstance(e.op, ast.Add):
            return self._str(e.left, env, cp) + self._str(e.right, env, cp)
        if isinstance(e, ast.Subscript) and isinstance(e.value, ast.Name) and e.value.id in self.dicts and isinstance(e.slice, ast.Name) \
                and e.slice.id == self.ch:
            d = self.dicts[e.value.id]
            if chr(cp) not in d:
                raise AnalysisError(f'{self.m.rel}::escape_str: `{pf.nsrc(e)}` evaluated for a character outside the table')
            return [('lit', d[chr(cp)])]
        if isinstance(e, ast.Call) and pf.dotted(e.func) == 'upper_hex' and not e.keywords and 1 <= len(e.args) <= 2:
            if self._val(e.args[0], env, cp) != ('ORD',):
                self._fail(e)
            w = 1
            if len(e.args) == 2:
                w = self._val(e.args[1], env, cp)
                if not isinstance(w, int) or isinstance(w, bool) or not 1 <= w <= 8:
                    self._fail(e)
            return [('hex', w, True)]
        self._fail(e)
        raise AssertionError

    def _run(self, stmts: Sequence[ast.stmt], env: Dict[str, Any], cp: int) -> Optional[List[tuple]]:
        parts: List[tuple] = []
        for st in stmts:
            if isinstance(st, ast.Assign) and len(st.targets) == 1 and isinstance(st.targets[0], ast.Name):
                env = dict(env)
                env[st.targets[0].id] = self._val(st.value, env, cp)
            elif isinstance(st, ast.If):
                sub = self._run(st.body if self._truth(st.test, env, cp) else st.orelse, env, cp)
                parts += sub or []
            elif isinstance(st, ast.Expr) and isinstance(st.value, ast.Call) and pf.dotted(st.value.func) == f'{self.buf}.write' \
                    and len(st.value.args) == 1 and not st.value.keywords:
                parts += self._str(st.value.args[0], env, cp)
            else:
                self._fail(st)
        # merge adjacent literals
        merged: List[tuple] = []
        for p in parts:
            if merged and p[0] == 'lit' and merged[-1][0] == 'lit':
                merged[-1] = ('lit', merged[-1][1] + p[1])
            else:
                merged.append(p)
        return merged


# --------------------------------------------------------------------------------------
# engine side
# --------------------------------------------------------------------------------------


def scala_quoted_language(delim: str, escape_chars: set, label: str) -> R.Lang:
    """IRLexer.quotedLiteral(delim): delim ( [^delim \\] | \\ [escapeChars] )* delim   (over UTF-16 units = any code point here)."""
    plain = ~R.CharSet.of([delim, '\\'])
    return R.lang(R.seq(R.lit(delim), R.star(R.alt(R.chars(plain), R.seq(R.lit('\\'), R.chars(R.CharSet.of(escape_chars))))), R.lit(delim)), label)


def scala_decode(body: str, arms: dict) -> Optional[List[int]]:
    """Our model of StringEscapeUtils.unescapeString driven by the extracted arms: UTF-16 code units of the result, or None when it
    reports an error."""
    out: List[int] = []
    units: List[int] = []
    for ch in body:
        cp = ord(ch)
        if cp > 0xFFFF:
            cp -= 0x10000
            units += [0xD800 + (cp >> 10), 0xDC00 + (cp & 0x3FF)]
        else:
            units.append(cp)
    had, in_uni, buf = False, False, ''
    for u in units:
        ch = chr(u)
        if in_uni:
            buf += ch
            if len(buf) == arms['unicode_width']:
                try:
                    out.append(int(buf, 16) & 0xFFFF)
                except ValueError:
                    return None
                buf, in_uni, had = '', False, False
        elif had:
            had = False
            if ch in arms['simple']:
                out.append(ord(arms['simple'][ch]))
            elif ch == arms['unicode_intro']:
                in_uni = True
            else:
                return None
        elif ch == '\\':
            had = True
        else:
            out.append(u)
    if had:
        out.append(ord('\\'))
    return out


def utf16(cp: int) -> List[int]:
    if cp > 0xFFFF:
        c = cp - 0x10000
        return [0xD800 + (c >> 10), 0xDC00 + (c & 0x3FF)]
    return [cp]


# --------------------------------------------------------------------------------------
# rules
# --------------------------------------------------------------------------------------


def _show(s: Optional[str]) -> str:
    return 'none' if s is None else ascii(s)


def _contains(cs: R.CharSet) -> R.Lang:
    return R.lang(R.seq(R.star(R.anychar()), R.chars(cs), R.star(R.anychar())), 'contains')


def occurring_chars(L: R.Lang) -> R.CharSet:
    """The code points that occur in at least one string of L: the labels of the transitions of its automaton that lie on a path from the
    initial to an accepting state (exact)."""
    alpha = R.alphabet_for([L])
    d = R.to_dfa(L, alpha)
    n = d.n_states
    rev: List[List[int]] = [[] for _ in range(n)]
    for p_, row in enumerate(d.trans):
        for q in set(row):
            rev[q].append(p_)
    alive = [bool(a) for a in d.accept]
    stack = [i for i in range(n) if alive[i]]
    while stack:
        q = stack.pop()
        for p_ in rev[q]:
            if not alive[p_]:
                alive[p_] = True
                stack.append(p_)
    seen = {0}
    stack = [0]
    used = set()
    while stack:
        p_ = stack.pop()
        for k, q in enumerate(d.trans[p_]):
            if alive[q]:
                used.add(k)
                if q not in seen:
                    seen.add(q)
                    stack.append(q)
    if not alive[0]:
        return R.CharSet.empty()
    out: List[Tuple[int, int]] = []
    for k in used:
        out += list(alpha.classes[k].ranges)
    return R.CharSet(out)


def restrict_units(units: List[Unit], cs: R.CharSet) -> List[Unit]:
    out = []
    for u in units:
        for lo, hi in (R.CharSet([(u.lo, u.hi)]) & cs).ranges:
            out.append(Unit(lo, hi, list(u.parts)))
    return out


def _name_for(units: List[Unit], u: Unit, cp: int, guard: Optional[R.Lang]) -> Tuple[str, str]:
    """A name whose rendering contains unit u at cp and that takes the exit guarded by `guard` (a shortest such name, read off the
    automaton): (name, escaped body)."""
    if guard is None:
        name = chr(cp)
    else:
        name = R.shortest(guard & _contains(R.CharSet([(cp, cp)])))  # type: ignore[assignment]
        if name is None:
            raise AnalysisError(f'cannot build an example name containing U+{cp:04X}')
    return name, encode_with(units, name)


def _rejected_middle(L_unit_chars: R.CharSet, delim: str, target: R.Lang) -> R.CharSet:
    """{ c in L_unit_chars : delim + c + delim is not in target }, decided class by class on the target automaton."""
    alpha = R.alphabet_for([target], [L_unit_chars])
    d = R.to_dfa(target, alpha)
    p0 = d.run(delim)
    bad: List[Tuple[int, int]] = []
    for k, cls in enumerate(alpha.classes):
        part = cls & L_unit_chars
        if not part:
            continue
        q = d.trans[p0][k]
        for ch in delim:
            q = d.trans[q][alpha.class_of(ord(ch))]
        if not d.accept[q]:
            bad += list(part.ranges)
    return R.CharSet(bad)


def check_units_against(ctx: Ctx, rule: str, cons_prefix: str, units: List[Unit], delim: str, target: R.Lang, target_name: str,
                        guard: Optional[R.Lang], src_file: str, src_line: int, emitter: str) -> Dict[str, bool]:
    """One instance per unit kind: delim+unit+delim must be in the target language.  `guard`: the names that are rendered with this table
    (None: every string).  Returns kind -> accepted."""
    by_kind: Dict[str, List[Unit]] = {}
    for u in split_by_width(units):
        by_kind.setdefault(u.kind(), []).append(u)
    result: Dict[str, bool] = {}
    flat = split_by_width(units)
    for kind, us in by_kind.items():
        L = R.lang(R.seq(R.lit(delim), R.alt(*[u.regex() for u in us]), R.lit(delim)), kind)
        w = R.included(L, target)
        result[kind] = w is None
        cons = f'{cons_prefix}::unit {kind}'
        if w is None:
            ctx.ok(rule, cons, {'code_points': sum(u.hi - u.lo + 1 for u in us)})
            continue
        # a concrete name (friendly code points first)
        ex = ''
        cands = sorted(((cp, u) for u in us for cp in u.examples()), key=lambda t: (t[0] not in (0xE9, 0x1F600, 0x4E2D), t[0]))
        # characters of the automaton's witness are candidates too (raw units: the offending character itself)
        cands = [(ord(ch), u) for ch in w for u in us if u.lo <= ord(ch) <= u.hi and any(p[0] == 'self' for p in u.parts)] + cands
        which = ''
        if all(len(u.parts) == 1 and u.parts[0][0] == 'self' for u in us):
            rej = _rejected_middle(R.CharSet([(u.lo, u.hi) for u in us]), delim, target)
            if rej:
                which = f' (the offending character(s): {rej.describe()})'
                cands = [(rej.min(), u) for u in us if u.lo <= rej.min() <= u.hi] + cands
        for cp, u in cands:
            text = delim + u.output(cp) + delim
            if not R.accepts(target, text):
                name, body = _name_for(flat, u, cp, guard)
                full = delim + body + delim
                if not R.accepts(target, full):
                    ex = f'the name {ascii(name)} is emitted as {ascii(full)}'
                    break
        if not ex:
            raise AnalysisError(f'{cons}: the unit language is not included in {target_name} (witness {w!r}) but no concrete name reproduces it')
        n = sum(u.hi - u.lo + 1 for u in us)
        ctx.bad(rule, cons, f'{emitter} emits {kind!r} for {n} code point(s) (U+{us[0].lo:04X}..){which}, which {target_name} does not accept: {ex}',
                src_file, src_line, extra={'witness': w})
    return result


def _hail_classes(ctx: Ctx, mt: pf.Module) -> Dict[str, ast.ClassDef]:
    out = {}
    for c in mt.tree.body:
        if isinstance(c, ast.ClassDef) and any(pf.dotted(b) == 'HailType' for b in c.bases):
            out[c.name] = c
    ctx.need(len(out) >= 15, f'{F_TYPES}: only {len(out)} HailType subclasses found')
    return out


def _method(c: ast.ClassDef, name: str) -> Optional[ast.FunctionDef]:
    for st in c.body:
        if isinstance(st, ast.FunctionDef) and st.name == name:
            return st
    return None


_TERMINAL_BASES = ('parsimonious', 'builtins', 'typing', 'abc')


def flat_class(m: pf.Module, c: ast.ClassDef, _depth: int = 0) -> ast.ClassDef:
    """The class as Python's attribute lookup sees it: its own members plus the members it inherits from base classes defined in the same
    module (own definitions win; single chain of repository bases only).  The copy keeps the name of `c`, so constructs are named after
    the class the program instantiates whether or not a shared base class was extracted.  A base that cannot be read (imported from another
    repository module, an expression, several repository bases) -> AnalysisError."""
    if _depth > 6:
        raise AnalysisError(f'{m.rel}::{c.name}: inheritance chain too deep')
    local = {x.name: x for x in m.tree.body if isinstance(x, ast.ClassDef)}
    imports = sp.imports_of(m)
    inherited: List[ast.ClassDef] = []
    for b in c.bases:
        d = pf.dotted(b)
        if d is None:
            raise AnalysisError(f'{m.rel}::{c.name}: base class `{pf.nsrc(b)[:40]}` is not a name')
        head = d.split('.')[0]
        if d in local and len([x for x in ast.walk(m.tree) if isinstance(x, ast.ClassDef) and x.name == d]) == 1 and d != c.name:
            inherited.append(flat_class(m, local[d], _depth + 1))
        elif d == 'object' or imports.get(head, '').split('.')[0] in _TERMINAL_BASES:
            continue
        else:
            raise AnalysisError(f'{m.rel}::{c.name}: base class `{d}` is not defined in this module; its methods are not read')
    if c.keywords:
        raise AnalysisError(f'{m.rel}::{c.name}: class keywords (metaclass) are not modelled')
    if not inherited:
        return c
    if len(inherited) > 1:
        raise AnalysisError(f'{m.rel}::{c.name}: several repository base classes; the method resolution order is not modelled')

    def bound(st: ast.stmt) -> set:
        if isinstance(st, (ast.FunctionDef, ast.AsyncFunctionDef, ast.ClassDef)):
            return {st.name}
        if isinstance(st, (ast.Assign, ast.AnnAssign, ast.AugAssign)):
            ts = st.targets if isinstance(st, ast.Assign) else [st.target]
            return {x.id for t in ts for x in ast.walk(t) if isinstance(x, ast.Name)}
        return set()
    own = set()
    for st in c.body:
        own |= bound(st)
    body = list(c.body)
    for st in inherited[0].body:
        names = bound(st)
        if not names:
            if isinstance(st, (ast.Expr, ast.Pass)):
                continue  # docstring
            raise AnalysisError(f'{m.rel}::{inherited[0].name}: class body statement `{pf.nsrc(st)[:40]}` is not modelled for inheritance')
        if names <= own:
            continue
        if names & own:
            raise AnalysisError(f'{m.rel}::{c.name}: partially overrides `{pf.nsrc(st)[:40]}` of its base')
        body.append(st)
    out = ast.ClassDef(name=c.name, bases=[], keywords=[], body=body, decorator_list=list(c.decorator_list))
    if hasattr(c, 'type_params'):
        out.type_params = []  # type: ignore[attr-defined]
    return ast.copy_location(out, c)


class Templates:
    """Sample strings of a printer method (`__str__` / `_parsable_string`) by symbolic evaluation of its return expression."""

    def __init__(self, ctx: Ctx, m: pf.Module, type_samples: List[str], ident_samples: List[str], escaper_name: str = 'escape_parsable'):
        self.ctx = ctx
        self.m = m
        self.types = type_samples
        self.idents = ident_samples
        self.escaper = escaper_name
        self.used_escaper = False

    def fail(self, e: ast.AST):
        raise AnalysisError(f'{self.m.rel}: printer expression not recognised `{pf.nsrc(e)[:80]}`')

    def samples(self, fn: ast.FunctionDef) -> List[str]:
        body = [s for s in fn.body if not (isinstance(s, ast.Expr) and isinstance(s.value, ast.Constant))]
        if len(body) != 1 or not isinstance(body[0], ast.Return) or body[0].value is None:
            raise AnalysisError(f'{self.m.rel}::{fn.name}: not a single `return <template>`')
        return self.ev(body[0].value, {})

    def category(self, e: ast.AST, env: Dict[str, str]) -> Optional[str]:
        if isinstance(e, ast.Name):
            return env.get(e.id)
        if isinstance(e, ast.Attribute) and isinstance(e.value, ast.Name) and e.value.id == 'self':
            a = e.attr.lstrip('_')
            if a == 'ndim':
                return 'NAT'
            if a in ('reference_genome', 'rg'):
                return 'NAME'
            if a.endswith('_type') or a == 'element_type':
                return 'TYPE'
        if isinstance(e, ast.Attribute) and e.attr == 'name' and self.category(e.value, env) == 'NAME':
            return 'NAME'
        if isinstance(e, ast.Call) and pf.dotted(e.func) == 'str' and len(e.args) == 1:
            return self.category(e.args[0], env)
        if isinstance(e, ast.Call) and isinstance(e.func, ast.Attribute) and e.func.attr in ('_parsable_string', '__str__') and not e.args:
            c = self.category(e.func.value, env)
            return c if c == 'TYPE' else None
        return None

    def ev(self, e: ast.AST, env: Dict[str, str]) -> List[str]:
        s = pf.const_str(e)
        if s is not None:
            return [s]
        if isinstance(e, ast.Call) and pf.dotted(e.func) == self.escaper and len(e.args) == 1 and not e.keywords:
            if self.category(e.args[0], env) != 'NAME':
                self.fail(e)
            self.used_escaper = True
            return list(self.idents)
        cat = self.category(e, env)
        if cat == 'TYPE':
            return list(self.types)
        if cat == 'NAT':
            return ['2', '0']
        if cat == 'NAME':
            # a name printed without the escaper: raw names
            return ['a', 'a b', '`']
        if isinstance(e, ast.BinOp) and isinstance(e.op, ast.Add):
            return self.combine([self.ev(e.left, env), self.ev(e.right, env)], lambda xs: ''.join(xs))
        if isinstance(e, ast.JoinedStr):
            parts = []
            for v in e.values:
                if isinstance(v, ast.Constant):
                    parts.append([str(v.value)])
                elif isinstance(v, ast.FormattedValue) and v.format_spec is None and v.conversion == -1:
                    parts.append(self.ev(v.value, env))
                else:
                    self.fail(e)
            return self.combine(parts, lambda xs: ''.join(xs))
        if isinstance(e, ast.Call) and isinstance(e.func, ast.Attribute) and e.func.attr == 'format' and not e.keywords:
            tmpl = pf.const_str(e.func.value)
            if tmpl is None:
                self.fail(e)
            pieces = self.split_format(tmpl, e)  # type: ignore[arg-type]
            if len(pieces) - 1 != len(e.args):
                self.fail(e)
            args = [self.ev(a, env) for a in e.args]
            return self.combine(args, lambda xs: ''.join(p + x for p, x in zip(pieces, list(xs) + [''])))
        if isinstance(e, ast.Call) and isinstance(e.func, ast.Attribute) and e.func.attr == 'join' and len(e.args) == 1 and not e.keywords:
            sep = pf.const_str(e.func.value)
            it = e.args[0]
            if sep is None or not isinstance(it, (ast.GeneratorExp, ast.ListComp)) or len(it.generators) != 1 or it.generators[0].ifs:
                self.fail(e)
            gen = it.generators[0]  # type: ignore[union-attr]
            env2 = dict(env)
            src = pf.nsrc(gen.iter)
            if src == 'self.items()' and isinstance(gen.target, ast.Tuple) and len(gen.target.elts) == 2 and all(isinstance(x, ast.Name) for x in gen.target.elts):
                env2[gen.target.elts[0].id] = 'NAME'  # type: ignore[union-attr]
                env2[gen.target.elts[1].id] = 'TYPE'  # type: ignore[union-attr]
            elif src in ('self.types', 'self._types') and isinstance(gen.target, ast.Name):
                env2[gen.target.id] = 'TYPE'
            else:
                self.fail(e)
            elts = self.ev(it.elt, env2)  # type: ignore[union-attr]
            out = ['']  # empty container
            out += [x for x in elts]  # one element
            out += [sep.join([elts[i % len(elts)], elts[(i + 1) % len(elts)]]) for i in range(len(elts))]  # type: ignore[union-attr]
            out.append(sep.join(elts))  # type: ignore[union-attr]
            return out
        self.fail(e)
        raise AssertionError

    @staticmethod
    def combine(parts: List[List[str]], f) -> List[str]:
        n = max(len(p) for p in parts) if parts else 1
        return [f([p[i % len(p)] for p in parts]) for i in range(n)]

    def split_format(self, tmpl: str, e: ast.AST) -> List[str]:
        """'a{}b{{c}}' -> ['a', 'b{c}'] (auto-numbered empty fields only)."""
        out, cur, i = [], '', 0
        while i < len(tmpl):
            if tmpl.startswith('{{', i):
                cur += '{'
                i += 2
            elif tmpl.startswith('}}', i):
                cur += '}'
                i += 2
            elif tmpl.startswith('{}', i):
                out.append(cur)
                cur = ''
                i += 2
            elif tmpl[i] in '{}':
                self.fail(e)
            else:
                cur += tmpl[i]
                i += 1
        out.append(cur)
        return out


def _visitor_class(ctx: Ctx, mg: pf.Module, mt: pf.Module, classes: Dict[str, ast.ClassDef], meth: ast.FunctionDef) -> Optional[str]:
    """Name of the types.py class a visitor method's result belongs to (`return types.X` / `return types.X(...)`)."""
    names = set()
    for n in ast.walk(meth):
        if isinstance(n, ast.Return) and n.value is not None:
            v = n.value
            if isinstance(v, ast.Call):
                v = v.func
            d = pf.dotted(v)
            if d is None or not d.startswith('types.'):
                return None
            names.add(d[len('types.'):])
    out = set()
    for nm in names:
        if nm in classes:
            out.add(nm)
            continue
        try:
            val = sp.module_const(mt, nm)
        except AnalysisError:
            # classes outside HailType's direct subclasses (tvariable)
            if any(isinstance(c, ast.ClassDef) and c.name == nm for c in mt.tree.body):
                out.add(nm)
                continue
            return None
        if isinstance(val, ast.Call) and pf.dotted(val.func) in classes and not val.args:
            out.add(pf.dotted(val.func))  # type: ignore[arg-type]
        elif isinstance(val, ast.Name):
            v2 = sp.module_const(mt, val.id)
            if isinstance(v2, ast.Call) and pf.dotted(v2.func) in classes:
                out.add(pf.dotted(v2.func))  # type: ignore[arg-type]
            else:
                return None
        else:
            return None
    return out.pop() if len(out) == 1 else None



# --------------------------------------------------------------------------------------
# R7: what hl.dtype returns is a function of the parse of ITS OWN argument (abstract data flow over dtype and its helpers)
# --------------------------------------------------------------------------------------

ARG = '__ARG__'
_PURE_STR_METHODS = {
    'strip', 'lstrip', 'rstrip', 'lower', 'upper', 'casefold', 'swapcase', 'title', 'capitalize', 'replace', 'split', 'rsplit', 'splitlines',
    'join', 'startswith', 'endswith', 'find', 'rfind', 'index', 'rindex', 'count', 'encode', 'format', 'isidentifier', 'isalnum', 'isalpha',
    'isdigit', 'isdecimal', 'isnumeric', 'isspace', 'isascii', 'islower', 'isupper', 'isprintable', 'partition', 'rpartition', 'zfill', 'ljust',
    'rjust', 'center', 'expandtabs', 'translate', 'removeprefix', 'removesuffix', 'hexdigest', 'digest'}
_BUILTIN_NAMES = set(dir(__import__('builtins')))
_PURE_FUNCS = {'str', 'tuple', 'list', 'sorted', 'reversed', 'len', 'repr', 'ascii', 'bytes', 'frozenset', 'sys.intern', 'intern', 're.sub', 're.split',
               'hashlib.md5', 'hashlib.sha1', 'hashlib.sha256', 'hashlib.sha512', 'hashlib.blake2b', 'hashlib.blake2s', 'zlib.crc32', 'zlib.adler32', 'set', 'min', 'max',
               're.escape', 'unicodedata.normalize', 'map', 'filter'}
_CONTAINER_CTORS = {'dict', 'OrderedDict', 'defaultdict', 'WeakValueDictionary', 'collections.OrderedDict', 'collections.defaultdict',
                    'weakref.WeakValueDictionary', 'list', 'set', 'LRUCache', 'TTLCache', 'cachetools.LRUCache', 'cachetools.TTLCache'}
_CACHE_DECORATORS = {'lru_cache', 'cache', 'functools.lru_cache', 'functools.cache'}
_NEUTRAL_DECORATORS = {'typecheck', 'typecheck_method', 'staticmethod', 'functools.wraps', 'wraps'}


class Flow:
    """Flow-insensitive, inter-procedural abstract evaluation.  Abstract values:
         ('arg', T, rel)      a pure function T (expression over the name __ARG__, evaluated in module rel) of the root argument
         ('const', v)         a constant
         ('tree', T, rel)     <grammar>.parse(T(arg))
         ('parsed', T, rel)   <visitor>.visit(<grammar>.parse(T(arg)))
         ('memo', C, K, rel)  a read of the container C at the key K(arg)
         ('grammar',) ('visitor', cls) ('container', C) ('func', rel, def) ('pure', dotted) ('unknown', why)"""

    def __init__(self, ctx: Ctx):
        self.ctx = ctx
        self.writes: List[dict] = []
        self.decorated: List[str] = []
        self.visitors: List[Tuple[str, ast.ClassDef]] = []
        self.functions: List[Tuple[str, str]] = []
        self.steps = 0

    # ---- module level
    def resolve_global(self, m: pf.Module, name: str, depth: int = 0) -> tuple:
        if depth > 5:
            return ('unknown', f'import chain of {name} too deep')
        bindings: List[Any] = []
        for st in m.tree.body:
            if isinstance(st, (ast.FunctionDef, ast.AsyncFunctionDef, ast.ClassDef)) and st.name == name:
                bindings.append(st)
            elif isinstance(st, ast.Assign) and any(isinstance(x, ast.Name) and x.id == name and isinstance(x.ctx, ast.Store) for t in st.targets for x in ast.walk(t)):
                bindings.append(st.value if all(isinstance(t, ast.Name) for t in st.targets) else st)
            elif isinstance(st, ast.AnnAssign) and isinstance(st.target, ast.Name) and st.target.id == name and st.value is not None:
                bindings.append(st.value)
            elif isinstance(st, ast.AugAssign) and isinstance(st.target, ast.Name) and st.target.id == name:
                bindings.append(st)
            elif isinstance(st, (ast.Import, ast.ImportFrom)):
                for a in st.names:
                    if (a.asname or a.name.split('.')[0]) == name:
                        bindings.append((st, a))
            elif isinstance(st, (ast.If, ast.Try, ast.For, ast.While, ast.With)):
                if any(isinstance(x, ast.Name) and x.id == name and isinstance(x.ctx, ast.Store) for x in ast.walk(st)) or \
                        any(isinstance(x, (ast.FunctionDef, ast.ClassDef)) and x.name == name for x in ast.walk(st)):
                    bindings.append(st)
        for n in ast.walk(m.tree):
            if isinstance(n, ast.Global) and name in n.names:
                return ('state', f'{m.rel}::{name}', 'rebound through `global`')
        if not bindings:
            if name in _BUILTIN_NAMES:
                return ('pure', name)
            return ('unknown', f'{m.rel}: name {name} is not bound at module level')
        if len(bindings) != 1:
            return ('unknown', f'{m.rel}: {name} is bound {len(bindings)} times at module level')
        b = bindings[0]
        if isinstance(b, ast.FunctionDef):
            return ('func', m, b)
        if isinstance(b, ast.ClassDef):
            return ('class', m, b)
        if isinstance(b, tuple):
            st, a = b
            if isinstance(st, ast.Import):
                return ('pure', a.name if a.asname else a.name.split('.')[0])
            tgt = self._import_target(m, st)
            if tgt is None:
                return ('pure', f'{st.module}.{a.name}')
            return self.resolve_global(tgt, a.name, depth + 1)
        if not isinstance(b, ast.expr):
            return ('unknown', f'{m.rel}: binding of {name} is not a plain assignment')
        if isinstance(b, ast.Constant):
            return ('const', b.value)
        if isinstance(b, (ast.Dict, ast.List, ast.Set, ast.DictComp, ast.ListComp, ast.SetComp)):
            return ('container', f'{m.rel}::{name}', b, m)
        if isinstance(b, ast.Name):
            return self.resolve_global(m, b.id, depth + 1)
        if isinstance(b, ast.Call):
            head = pf.dotted(b.func)
            # f = functools.lru_cache(maxsize=N)(g)  /  f = functools.cache(g)
            deco = b.func.func if isinstance(b.func, ast.Call) else b.func
            dn = pf.dotted(deco)
            if dn in _CACHE_DECORATORS and len(b.args) == 1 and isinstance(b.args[0], ast.Name) and not b.keywords and \
                    (isinstance(b.func, ast.Call) or dn.split('.')[-1] == 'cache' or True):
                r0 = self.resolve_global(m, dn.split('.')[0], depth + 1)
                inner = self.resolve_global(m, b.args[0].id, depth + 1)
                if r0[0] == 'pure' and (r0[1].startswith('functools') or r0[1] in _CACHE_DECORATORS) and inner[0] == 'func':
                    self.decorated.append(f'{m.rel}::{name} = {dn}({b.args[0].id})')
                    return inner
            if head is not None:
                h = self.resolve_global(m, head.split('.')[0], depth + 1) if '.' not in head else ('pure', head)
                if h[0] == 'pure' and h[1].split('.')[-1] == 'Grammar' and 'parsimonious' in h[1]:
                    return ('grammar', m, b)
                if h[0] == 'class':
                    km, kn = h[1], h[2]
                    if self._is_visitor_class(km, kn):
                        if b.args or b.keywords:
                            return ('unknown', f'{m.rel}: visitor {name} is constructed with arguments')
                        return ('visitor', km, kn)
                    return ('unknown', f'{m.rel}: {name} is an instance of {kn.name}')
                if h[0] == 'pure' and (h[1].startswith('re.') or h[1] in ('re.compile',)) or head in ('re.compile',):
                    return ('pure', f'{m.rel}::{name}')
                if head.split('.')[-1] in {c.split('.')[-1] for c in _CONTAINER_CTORS}:
                    return ('container', f'{m.rel}::{name}', b, m)
            return ('unknown', f'{m.rel}: {name} = {pf.nsrc(b)[:60]} is not recognised')
        return ('unknown', f'{m.rel}: {name} = {pf.nsrc(b)[:60]} is not recognised')

    def _is_visitor_class(self, m: pf.Module, c: ast.ClassDef) -> bool:
        for b in c.bases:
            d = pf.dotted(b)
            if d is None:
                continue
            r = self.resolve_global(m, d.split('.')[0])
            if r[0] == 'pure' and r[1].split('.')[-1] == 'NodeVisitor':
                return True
            if r[0] == 'class' and self._is_visitor_class(r[1], r[2]):
                return True
        return False

    @staticmethod
    def _import_target(m: pf.Module, st: ast.ImportFrom) -> Optional[pf.Module]:
        if st.level > 0:
            base = os.path.dirname(m.rel)
            for _ in range(st.level - 1):
                base = os.path.dirname(base)
            parts = [p_ for p_ in (st.module or '').split('.') if p_]
            stem = os.path.join(base, *parts) if parts else base
            cands = [stem + '.py', os.path.join(stem, '__init__.py')]
        else:
            mod = st.module or ''
            roots = {'hail': 'hail/python/hail', 'hailtop': 'hail/python/hailtop'}
            head = mod.split('.')[0]
            if head not in roots:
                return None
            stem = roots[head] + ('/' + '/'.join(mod.split('.')[1:]) if '.' in mod else '')
            cands = [stem + '.py', stem + '/__init__.py']
        for cnd in cands:
            try:
                return pf.load(cnd)
            except AnalysisError:
                continue
        return None

    # ---- expressions
    def ev(self, e: ast.AST, fx: dict) -> List[tuple]:
        self.steps += 1
        if self.steps > 20000:
            return [('unknown', 'abstract evaluation budget')]
        m: pf.Module = fx['m']
        if isinstance(e, ast.Constant):
            return [('const', e.value)]
        if isinstance(e, ast.Name):
            return self._name(e.id, fx)
        if isinstance(e, ast.NamedExpr):
            return self.ev(e.value, fx)
        if isinstance(e, ast.IfExp):
            return self.ev(e.body, fx) + self.ev(e.orelse, fx)
        if isinstance(e, ast.BoolOp):
            out: List[tuple] = []
            for v in e.values:
                out += self.ev(v, fx)
            return out
        if isinstance(e, ast.Attribute):
            base = self.ev(e.value, fx)
            out = []
            for b in base:
                if b[0] == 'func':
                    out.append(('container', f'{b[1].rel}::{b[2].name}.{e.attr}', None, b[1]))
                elif b[0] == 'pure':
                    out.append(('pure', f'{b[1]}.{e.attr}'))
                elif b[0] == 'self':
                    out.append(('container', f'{b[1]}.{e.attr}', None, m))
                else:
                    out.append(('unknown', f'attribute `{pf.nsrc(e)[:50]}`'))
            return out
        if isinstance(e, ast.Subscript):
            base = self.ev(e.value, fx)
            out = []
            for b in base:
                if b[0] == 'container':
                    for k in self.ev(e.slice, fx):
                        out.append(self._memo(b[1], k, e))
                elif b[0] in ('arg', 'const'):
                    out += self._compose(e, fx)
                else:
                    out.append(('unknown', f'subscript `{pf.nsrc(e)[:50]}`'))
            return out
        if isinstance(e, ast.Call):
            return self._call(e, fx)
        if isinstance(e, (ast.Tuple, ast.List, ast.JoinedStr, ast.BinOp, ast.FormattedValue, ast.ListComp, ast.GeneratorExp, ast.Compare, ast.UnaryOp)):
            return self._compose(e, fx)
        return [('unknown', f'expression `{pf.nsrc(e)[:60]}`')]

    def _memo(self, cid: str, k: tuple, e: ast.AST) -> tuple:
        if k[0] == 'arg':
            return ('memo', cid, k[1], k[2])
        if k[0] == 'const':
            return ('memo', cid, ast.Constant(value=k[1]), None)
        return ('unknown', f'key of `{pf.nsrc(e)[:50]}` is not a pure function of the argument ({k[0]}: {k[1] if len(k) > 1 else ""})')

    def _name(self, name: str, fx: dict) -> List[tuple]:
        env = fx['env']
        if name in env:
            return list(env[name])
        fn = fx['fn']
        if name in fx['busy']:
            return []
        defs = fx['defs'].get(name)
        if defs is not None:
            out: List[tuple] = []
            fx['busy'].add(name)
            try:
                for d in defs:
                    if isinstance(d, ast.expr):
                        out += self.ev(d, fx)
                    elif isinstance(d, ast.AugAssign):
                        out.append(('unknown', f'{name} is updated in place'))
                    elif isinstance(d, ast.arg):
                        out.append(('unknown', f'parameter {name} is not bound'))
                    elif isinstance(d, ast.ExceptHandler):
                        out.append(('const', None))
                    else:
                        out.append(('unknown', f'{name} is bound by `{pf.nsrc(d)[:50]}`'))
            finally:
                fx['busy'].discard(name)
            return out
        for n in pf.walk_shallow(fn):
            if isinstance(n, ast.Global) and name in n.names:
                return [('unknown', f'`global {name}` in {fn.name}: a scalar memo is not modelled')]
            if isinstance(n, ast.ImportFrom) and any((a.asname or a.name) == name for a in n.names):
                a0 = [a for a in n.names if (a.asname or a.name) == name][0]
                tgt = self._import_target(fx['m'], n)
                return [self.resolve_global(tgt, a0.name) if tgt is not None else ('pure', f'{n.module}.{a0.name}')]
            if isinstance(n, ast.Import) and any((a.asname or a.name.split('.')[0]) == name for a in n.names):
                a0 = [a for a in n.names if (a.asname or a.name.split('.')[0]) == name][0]
                return [('pure', a0.name if a0.asname else a0.name.split('.')[0])]
        r = self.resolve_global(fx['m'], name)
        if r[0] == 'state':
            return [('unknown', f'{r[1]} is module state {r[2]}; a scalar memo is not modelled')]
        return [r]

    def _compose(self, e: ast.AST, fx: dict) -> List[tuple]:
        """A pure expression over already-abstract parts: substitute and keep it as one T."""
        import copy
        holes: List[Tuple[ast.AST, List[tuple]]] = []

        class _Sub(ast.NodeTransformer):
            def __init__(s2, choice: Dict[int, ast.AST]):
                s2.choice = choice

            def generic_visit(s2, node):
                if id(node) in s2.choice:
                    return copy.deepcopy(s2.choice[id(node)])
                return super().generic_visit(node)

        # leaves that need resolution: Names (not bound by a comprehension inside e) and calls of repository functions
        bound = {x.id for g in ast.walk(e) if isinstance(g, ast.comprehension) for x in ast.walk(g.target) if isinstance(x, ast.Name)}
        bound |= {a.arg for l_ in ast.walk(e) if isinstance(l_, ast.Lambda) for a in l_.args.args}
        problems: List[tuple] = []
        rels = set()
        for n in ast.walk(e):
            if isinstance(n, ast.Name) and isinstance(n.ctx, ast.Load) and n.id not in bound:
                vals = self._name(n.id, fx)
                holes.append((n, vals))
            elif isinstance(n, (ast.Await, ast.Yield, ast.YieldFrom, ast.Starred)):
                problems.append(('unknown', f'`{pf.nsrc(e)[:50]}`'))
        combos: List[Dict[int, ast.AST]] = [{}]
        for n, vals in holes:
            alts: List[Optional[ast.AST]] = []
            for v in vals:
                if v[0] == 'arg':
                    alts.append(v[1])
                    if v[2] is not None:
                        rels.add(v[2])
                elif v[0] == 'const':
                    if v[1] is None or isinstance(v[1], (str, int, bool, bytes, float)):
                        alts.append(ast.Constant(value=v[1]))
                    else:
                        problems.append(('unknown', f'constant in `{pf.nsrc(e)[:50]}`'))
                elif v[0] == 'pure':
                    alts.append(None)  # keep the name: resolved in its module when T is evaluated
                    rels.add(fx['m'].rel)
                else:
                    problems.append(v if v[0] == 'unknown' else ('unknown', f'`{pf.nsrc(n)}` in `{pf.nsrc(e)[:50]}` is a {v[0]}'))
            if not alts:
                problems.append(('unknown', f'`{pf.nsrc(n)}` has no value'))
                continue
            nxt = []
            for cmb in combos:
                for a in alts:
                    c2 = dict(cmb)
                    if a is not None:
                        c2[id(n)] = a
                    nxt.append(c2)
            combos = nxt[:8]
        if problems:
            return problems[:1]
        # method calls must be pure str methods / pure functions
        for n in ast.walk(e):
            if isinstance(n, ast.Call):
                d = pf.dotted(n.func)
                ok = False
                if isinstance(n.func, ast.Attribute) and n.func.attr in _PURE_STR_METHODS | {'sub', 'split', 'subn', 'fullmatch', 'match', 'search', 'group', 'decode', 'items', 'keys', 'values'}:
                    ok = True
                if d is not None:
                    r = self.resolve_global(fx['m'], d.split('.')[0]) if d.split('.')[0] not in bound and d.split('.')[0] not in fx['env'] and d.split('.')[0] not in fx['defs'] else ('local',)
                    full = (r[1] + d[len(d.split('.')[0]):]) if r[0] == 'pure' else d
                    if full in _PURE_FUNCS or (r[0] == 'pure' and full.split('.')[-1] in {p_.split('.')[-1] for p_ in _PURE_FUNCS} and full.split('.')[0] in ('re', 'sys', 'unicodedata', 'hashlib', 'zlib', 'str', 'tuple', 'list', 'sorted', 'len', 'repr', 'bytes', 'map', 'filter', 'reversed', 'ascii', 'frozenset')):
                        ok = True
                    if full in ('hash', 'id') or full.endswith('.hash'):
                        return [('unknown', f'`{pf.nsrc(n)[:50]}`: hash()/id() are not functions of the text alone (randomised / collisions)')]
                if not ok:
                    return [('unknown', f'`{pf.nsrc(n)[:60]}` is not a recognised pure string operation')]
        if len(rels) > 1:
            return [('unknown', f'`{pf.nsrc(e)[:50]}` mixes names of several modules')]
        rel = next(iter(rels)) if rels else fx['m'].rel
        out = []
        for cmb in combos:
            t = _Sub(cmb).visit(copy.deepcopy(e)) if not cmb else None
            if cmb:
                # substitution must address the ORIGINAL nodes: rebuild by walking in parallel
                t = self._subst(e, cmb)
            names = {x.id for x in ast.walk(t) if isinstance(x, ast.Name)}
            if ARG in names:
                out.append(('arg', t, rel))
            else:
                out.append(('arg', t, rel) if names - bound else ('constexpr', t, rel))
        res = []
        for v in out:
            if v[0] == 'constexpr':
                try:
                    res.append(('const', ast.literal_eval(v[1])))
                except (ValueError, SyntaxError, TypeError):
                    res.append(('arg', v[1], v[2]))
            else:
                res.append(v)
        return res

    @staticmethod
    def _subst(e: ast.AST, choice: Dict[int, ast.AST]) -> ast.AST:
        import copy

        def rec(n: ast.AST) -> ast.AST:
            if id(n) in choice:
                return copy.deepcopy(choice[id(n)])
            new = copy.copy(n)
            for f, v in ast.iter_fields(n):
                if isinstance(v, list):
                    setattr(new, f, [rec(x) if isinstance(x, ast.AST) else x for x in v])
                elif isinstance(v, ast.AST):
                    setattr(new, f, rec(v))
            return new
        return ast.fix_missing_locations(rec(e))

    def _call(self, e: ast.Call, fx: dict) -> List[tuple]:
        f = e.func
        out: List[tuple] = []
        if isinstance(f, ast.Attribute):
            recv = self.ev(f.value, fx)
            handled = False
            for r in recv:
                if r[0] == 'grammar' and f.attr == 'parse':
                    handled = True
                    if len(e.args) != 1 or e.keywords:
                        out.append(('unknown', f'`{pf.nsrc(e)[:60]}`'))
                        continue
                    for a in self.ev(e.args[0], fx):
                        out.append(('tree', a[1], a[2]) if a[0] == 'arg' else ('unknown', f'`{pf.nsrc(e)[:60]}` parses something that is not a function of the argument'
                                                                                  + (f' ({a[1]})' if a[0] == 'unknown' else '')))
                elif r[0] == 'visitor' and f.attr == 'visit':
                    handled = True
                    if (r[1].rel, r[2]) not in [(x[0], x[1]) for x in self.visitors]:
                        self.visitors.append((r[1].rel, r[2]))
                    if len(e.args) != 1 or e.keywords:
                        out.append(('unknown', f'`{pf.nsrc(e)[:60]}`'))
                        continue
                    for a in self.ev(e.args[0], fx):
                        out.append(('parsed', a[1], a[2]) if a[0] == 'tree' else a if a[0] == 'unknown' else ('unknown', f'`{pf.nsrc(e)[:60]}` visits something that is not a parse tree'))
                elif r[0] == 'container':
                    handled = True
                    cid = r[1]
                    if f.attr in ('get', 'pop', '__getitem__') and 1 <= len(e.args) <= 2 and not e.keywords:
                        for k in self.ev(e.args[0], fx):
                            out.append(self._memo(cid, k, e))
                        if len(e.args) == 2:
                            out += [v for v in self.ev(e.args[1], fx) if v != ('const', None)]
                    elif f.attr == 'setdefault' and len(e.args) == 2 and not e.keywords:
                        ks = self.ev(e.args[0], fx)
                        vs = self.ev(e.args[1], fx)
                        self.writes.append({'C': cid, 'K': ks, 'V': vs, 'm': fx['m'], 'fn': fx['fn'], 'node': e})
                        for k in ks:
                            out.append(self._memo(cid, k, e))
                        out += vs
                    elif f.attr in ('clear', 'cache_clear'):
                        out.append(('const', None))
                    else:
                        out.append(('unknown', f'`{pf.nsrc(e)[:60]}` on the container {cid}'))
            if handled:
                return out
            if any(r[0] == 'unknown' for r in recv) and not any(r[0] in ('arg', 'const', 'pure') for r in recv):
                return [r for r in recv if r[0] == 'unknown'][:1]
            return self._compose(e, fx)
        d = pf.dotted(f)
        if isinstance(f, ast.Name):
            targets = self._name(f.id, fx)
            outs: List[tuple] = []
            for t in targets:
                if t[0] == 'func':
                    outs += self.call_function(t[1], t[2], e, fx)
                elif t[0] == 'pure':
                    outs += self._compose(e, fx)
                elif t[0] == 'class':
                    outs.append(('unknown', f'`{pf.nsrc(e)[:60]}` constructs a {t[2].name}'))
                else:
                    outs.append(t if t[0] == 'unknown' else ('unknown', f'call of `{d}` ({t[0]})'))
            return outs
        return [('unknown', f'call `{pf.nsrc(e)[:60]}`')]

    def call_function(self, m: pf.Module, fn: ast.FunctionDef, call: Optional[ast.Call], fx: Optional[dict]) -> List[tuple]:
        """Abstract results of fn; arguments are taken from `call` evaluated in fx (root call: the single parameter is ARG)."""
        key = (m.rel, fn.name)
        depth = (fx['depth'] + 1) if fx else 0
        if depth > 6 or (fx and key in fx['stack']):
            return [('unknown', f'recursion / call depth at {fn.name}')]
        a = fn.args
        params = [x.arg for x in a.posonlyargs + a.args]
        env: Dict[str, List[tuple]] = {}
        if a.vararg or a.kwarg:
            return [('unknown', f'{m.rel}::{fn.name} takes *args / **kwargs')]
        for dco in fn.decorator_list:
            dn = pf.dotted(dco.func if isinstance(dco, ast.Call) else dco) or pf.nsrc(dco)
            if dn in _CACHE_DECORATORS:
                r = self.resolve_global(m, dn.split('.')[0])
                if r[0] != 'pure' or not (r[1].startswith('functools') or r[1] in _CACHE_DECORATORS):
                    return [('unknown', f'{m.rel}::{fn.name}: decorator `{dn}` does not resolve to functools')]
                self.decorated.append(f'{m.rel}::{fn.name}::@{dn}')
            elif dn.split('.')[-1] in {x.split('.')[-1] for x in _NEUTRAL_DECORATORS}:
                continue
            else:
                return [('unknown', f'{m.rel}::{fn.name} carries the decorator `{pf.nsrc(dco)[:50]}`, which may cache or alter its result')]
        defaults = dict(zip(params[len(params) - len(a.defaults):], a.defaults))
        if call is None:
            if not params:
                return [('unknown', f'{m.rel}::{fn.name} has no parameter')]
            env[params[0]] = [('arg', ast.Name(id=ARG, ctx=ast.Load()), None)]
            rest = params[1:]
        else:
            if any(isinstance(x, ast.Starred) for x in call.args) or any(k.arg is None for k in call.keywords) or len(call.args) > len(params):
                return [('unknown', f'`{pf.nsrc(call)[:60]}`: argument passing not recognised')]
            for p_, x in zip(params, call.args):
                env[p_] = self.ev(x, fx)  # type: ignore[arg-type]
            for k in call.keywords:
                if k.arg not in params or k.arg in env:
                    return [('unknown', f'`{pf.nsrc(call)[:60]}`: argument passing not recognised')]
                env[k.arg] = self.ev(k.value, fx)  # type: ignore[arg-type]
            rest = [p_ for p_ in params if p_ not in env]
        for p_ in rest + [k.arg for k in a.kwonlyargs]:
            dflt = defaults.get(p_)
            if p_ in [k.arg for k in a.kwonlyargs]:
                dflt = dict(zip([k.arg for k in a.kwonlyargs], a.kw_defaults)).get(p_)
            if dflt is None:
                return [('unknown', f'{m.rel}::{fn.name}: parameter {p_} is not bound')]
            if isinstance(dflt, (ast.Dict, ast.List, ast.Set)) or (isinstance(dflt, ast.Call) and (pf.dotted(dflt.func) or '').split('.')[-1] in {c.split('.')[-1] for c in _CONTAINER_CTORS}):
                env[p_] = [('container', f'{m.rel}::{fn.name}(<default of {p_}>)', dflt, m)]
            elif isinstance(dflt, ast.Constant):
                env[p_] = [('const', dflt.value)]
            else:
                return [('unknown', f'{m.rel}::{fn.name}: default of {p_} not recognised')]
        if (m.rel, fn.name) not in self.functions:
            self.functions.append((m.rel, fn.name))
        defs = pf.assignments(fn)
        for p_ in params + [k.arg for k in a.kwonlyargs]:
            ds = [d for d in defs.get(p_, []) if not isinstance(d, ast.arg)]
            if ds:
                # a rebound parameter: every definition counts
                defs = dict(defs)
                defs[p_] = ds
                env_p = env.pop(p_)
                fx2_env_extra = env_p
            else:
                defs = {k: v for k, v in defs.items() if k != p_}
        nfx = {'m': m, 'fn': fn, 'env': env, 'defs': defs, 'busy': set(), 'depth': depth, 'stack': (fx['stack'] if fx else ()) + (key,)}
        out: List[tuple] = []
        has_yield = False
        for n in pf.walk_shallow(fn):
            if isinstance(n, (ast.Yield, ast.YieldFrom, ast.Await)):
                has_yield = True
            elif isinstance(n, ast.Return):
                if n.value is None:
                    out.append(('const', None))
                else:
                    out += self.ev(n.value, nfx)
            elif isinstance(n, (ast.Assign, ast.AugAssign, ast.AnnAssign)):
                targets = n.targets if isinstance(n, ast.Assign) else [n.target]
                for t in targets:
                    for x in ([t] if not isinstance(t, (ast.Tuple, ast.List)) else list(t.elts)):
                        if isinstance(x, ast.Subscript):
                            bases = self.ev(x.value, nfx)
                            for b in bases:
                                if b[0] == 'container' and isinstance(n, ast.Assign):
                                    self.writes.append({'C': b[1], 'K': self.ev(x.slice, nfx), 'V': self.ev(n.value, nfx), 'm': m, 'fn': fn, 'node': n})
                                else:
                                    out.append(('unknown', f'store `{pf.nsrc(n)[:60]}` in {fn.name}'))
                        elif isinstance(x, ast.Attribute):
                            out.append(('unknown', f'attribute store `{pf.nsrc(n)[:60]}` in {fn.name}: state outside the recognised memo idioms'))
            elif isinstance(n, ast.Expr) and isinstance(n.value, ast.Call):
                # statement-level calls: container mutations are recorded by _call; anything else must be pure
                r = self.ev(n.value, nfx)
                out += [v for v in r if v[0] == 'unknown']
            elif isinstance(n, (ast.Global, ast.Nonlocal)):
                stored = {x.id for x in pf.walk_shallow(fn) if isinstance(x, ast.Name) and isinstance(x.ctx, ast.Store)}
                if stored & set(n.names):
                    out.append(('unknown', f'{fn.name} rebinds the module-level name(s) {sorted(stored & set(n.names))}: a scalar memo is not modelled'))
            elif isinstance(n, ast.Delete):
                out.append(('unknown', f'`{pf.nsrc(n)[:50]}` in {fn.name}'))
            elif isinstance(n, (ast.FunctionDef, ast.Lambda, ast.ClassDef)) and n is not fn:
                out.append(('unknown', f'nested definition in {fn.name}'))
        if has_yield:
            return [('unknown', f'{fn.name} is a generator / coroutine')]
        if not out:
            out.append(('const', None))
        return out



def _peel_key(t: ast.AST) -> ast.AST:
    """Strip wrappers that are injective in the wrapped value: (X,), (X, const), str(X), intern(X), X + 'c', 'c' + X, f'c{X}c'."""
    while True:
        if isinstance(t, ast.Tuple):
            var = [x for x in t.elts if not isinstance(x, ast.Constant)]
            if len(var) == 1 and not isinstance(var[0], ast.Starred):
                t = var[0]
                continue
        if isinstance(t, ast.Call) and not t.keywords and len(t.args) == 1 and pf.dotted(t.func) in ('str', 'sys.intern', 'intern', 'tuple') and \
                (pf.dotted(t.func) != 'tuple' or isinstance(t.args[0], (ast.Tuple, ast.List))):
            t = t.args[0]
            continue
        if isinstance(t, ast.BinOp) and isinstance(t.op, ast.Add) and (isinstance(t.left, ast.Constant) or isinstance(t.right, ast.Constant)):
            t = t.right if isinstance(t.left, ast.Constant) else t.left
            continue
        if isinstance(t, ast.JoinedStr):
            holes = [v for v in t.values if isinstance(v, ast.FormattedValue)]
            if len(holes) == 1 and holes[0].format_spec is None and holes[0].conversion in (-1, ord('s')):
                t = holes[0].value
                continue
        return t


def _peel_value(t: ast.AST) -> ast.AST:
    while isinstance(t, ast.Call) and not t.keywords and len(t.args) == 1 and pf.dotted(t.func) in ('str', 'sys.intern', 'intern'):
        t = t.args[0]
    return t


def _strip_chain(t: ast.AST) -> Optional[List[Tuple[str, Optional[str]]]]:
    """X.strip() / .lstrip(c) / .rstrip() ... applied to the argument itself -> [(method, chars|None) ...]; None if another shape."""
    ops: List[Tuple[str, Optional[str]]] = []
    while True:
        if isinstance(t, ast.Name) and t.id == ARG:
            return ops
        if isinstance(t, ast.Call) and isinstance(t.func, ast.Attribute) and t.func.attr in ('strip', 'lstrip', 'rstrip') and not t.keywords and len(t.args) <= 1:
            if t.args:
                if not (isinstance(t.args[0], ast.Constant) and (isinstance(t.args[0].value, str) or t.args[0].value is None)):
                    return None
                ops.append((t.func.attr, t.args[0].value))
            else:
                ops.append((t.func.attr, None))
            t = t.func.value
            continue
        return None


def grammar_skips_outer(G: P.Grammar, chars: R.CharSet, left: bool, right: bool) -> Optional[str]:
    """None when the start rule begins (ends) with a greedy one-class repetition terminal that accepts every string over `chars`:
    removing such characters at the start (end) of the text does not change the parse.  Otherwise the reason."""
    e = G.rules[G.default]
    if e[0] != 'seq' or len(e[1]) < 2:
        return f'the start rule `{G.default}` is not a sequence'
    for side, x in (('first', e[1][0]), ('last', e[1][-1])):
        if (side == 'first' and not left) or (side == 'last' and not right):
            continue
        if x[0] != 'ref':
            return f'the {side} member of `{G.default}` is not a whitespace rule'
        w = G.rules[x[1]]
        if w[0] != 're' or w[2]:
            return f'the {side} member `{x[1]}` of `{G.default}` is not a regex terminal'
        try:
            import re._constants as sc
            import re._parser as spr
        except ImportError:  # pragma: no cover
            import sre_constants as sc  # type: ignore
            import sre_parse as spr  # type: ignore
        items = list(spr.parse(w[1]))
        single = len(items) == 1 and items[0][0] is sc.MAX_REPEAT and items[0][1][0] == 0 and items[0][1][1] == sc.MAXREPEAT and len(list(items[0][1][2])) == 1
        if not single:
            return f'the terminal `{x[1]}` = {w[1]!r} is not a greedy `[class]*`'
        bad = R.included(R.lang(R.star(R.chars(chars)), 'stripped*'), R.from_regex(w[1], 0, 'fullmatch'))
        if bad is not None:
            return f'the terminal `{x[1]}` = {w[1]!r} does not accept {bad!r}, which the key normalisation removes'
    return None


def _tsrc(t: ast.AST) -> str:
    return pf.nsrc(t).replace(ARG, 'type_str')


# closed table of operations that LOSE information of the text they are applied to.  entry: what is lost, and (where the entry itself
# determines one) a pair of names that the operation maps to the same string.  A name with a blank or a dash is printed between back-ticks.
_LOSSY_STR_METHODS = {
    'lower': ('letter case', ('A b', 'a b')), 'upper': ('letter case', ('A b', 'a b')), 'casefold': ('letter case', ('A b', 'a b')),
    'title': ('letter case', ('a B', 'a b')),
    'capitalize': ('letter case', ('a B', 'a b')),
    'replace': ('every occurrence of the replaced text (also inside back-ticked names)', None),
    'translate': ('the translated / deleted characters (also inside back-ticked names)', None),
    'split': ('the separators (runs of whitespace are not told apart)', ('a b', 'a  b')), 'rsplit': ('the separators', ('a b', 'a  b')),
    'partition': ('everything but one part', None), 'rpartition': ('everything but one part', None),
    'removeprefix': ('the prefix', None), 'removesuffix': ('the suffix', None), 'zfill': ('leading zeros', None), 'ljust': ('trailing padding', None),
    'rjust': ('leading padding', None), 'center': ('padding', None), 'find': ('everything but a position', None), 'count': ('everything but a count', None),
    'startswith': ('everything but one bit', None), 'endswith': ('everything but one bit', None),
}
_LOSSY_FUNCS = {
    'unicodedata.normalize': ('compatibility / canonical equivalents of letters, which are printed bare (the ligature U+FB01 is a \\w character)', ('a\ufb01', 'afi')),
    'zlib.crc32': ('all but a 32-bit checksum', None), 'zlib.adler32': ('all but a 32-bit checksum', None),
    're.sub': ('whatever the pattern matches (also inside back-ticked names)', None), 're.subn': ('whatever the pattern matches', None),
    're.split': ('whatever the pattern matches', None), 're.findall': ('whatever the pattern does not match', None),
    'len': ('everything but the length', ('a b', 'a c')), 'sorted': ('the order of the characters', ('a b', 'b a')), 'set': ('order and multiplicity', ('a b', 'b a')),
    'frozenset': ('order and multiplicity', ('a b', 'b a')), 'min': ('all but one character', None), 'max': ('all but one character', None),
}
_LOSSY_PATTERN_METHODS = {'sub': 'whatever the pattern matches (also inside back-ticked names)', 'subn': 'whatever the pattern matches',
                          'split': 'whatever the pattern matches', 'findall': 'whatever the pattern does not match'}
_INJECTIVE_CALLS = {'str', 'sys.intern', 'intern', 'repr', 'ascii'}


def classify_transform(t: ast.AST, G: P.Grammar, as_key: bool) -> Tuple[str, str]:
    """Decide a key / parse-input expression T over the argument from the closed table only (nothing is evaluated):
         ('ok', why)      T is the argument, an injective wrapping of it, or strips only what the grammar skips at both ends
         ('lossy', why)   some operation on the path from the argument loses information that is significant inside back-ticked names
         ('unknown', why) anything else"""
    core = _peel_key(t) if as_key else _peel_value(t)
    # `.encode()` / `.encode('utf-8')` without an error handler is injective
    while isinstance(core, ast.Call) and isinstance(core.func, ast.Attribute) and core.func.attr == 'encode' and not core.keywords and \
            len(core.args) <= 1 and all(isinstance(a, ast.Constant) for a in core.args) and as_key:
        core = _peel_key(core.func.value)
    chain = _strip_chain(core)
    if chain is not None and not chain:
        return 'ok', 'the argument itself'
    # a lossy operation anywhere on the way from the argument decides first
    for n in ast.walk(core):
        if not any(isinstance(x, ast.Name) and x.id == ARG for x in ast.walk(n)):
            continue
        if isinstance(n, ast.Subscript):
            what = 'everything outside the slice (long schemas that share a prefix)' if isinstance(n.slice, ast.Slice) else 'all but one element'
            return 'lossy', f'`{_tsrc(n)}` drops {what}'
        if isinstance(n, ast.Call):
            d = pf.dotted(n.func)
            if isinstance(n.func, ast.Attribute):
                recv_has_arg = any(isinstance(x, ast.Name) and x.id == ARG for x in ast.walk(n.func.value))
                meth = n.func.attr
                if recv_has_arg and meth in ('swapcase',) and not as_key:
                    return 'lossy', f'`{_tsrc(n)}` changes the letter case of every name'
                if recv_has_arg and meth in ('replace', 'split', 'rsplit') and n.args and isinstance(n.args[0], ast.Constant) and isinstance(n.args[0].value, str) \
                        and n.args[0].value and all(ch in '\n\r\t\x0b\x0c' for ch in n.args[0].value):
                    continue  # printed names never contain raw control characters (they are escaped): not decided by the table
                if recv_has_arg and meth in _LOSSY_STR_METHODS:
                    what, pair = _LOSSY_STR_METHODS[meth]
                    ex = f' - e.g. the type strings of two structs with the single field {pair[0]!r} resp. {pair[1]!r} (printed between back-ticks) give the same result' if pair else ''
                    return 'lossy', f'`{_tsrc(n)}` does not keep {what}{ex}'
                if recv_has_arg and meth == 'encode' and (n.keywords or len(n.args) > 1):
                    return 'lossy', f'`{_tsrc(n)}` with an error handler drops / replaces the characters the codec cannot encode'
                if not recv_has_arg and meth in _LOSSY_PATTERN_METHODS and d is not None and not d.startswith(('str.', "''.")):
                    # <compiled pattern>.sub(repl, text)
                    if meth != 'split' or not isinstance(n.func.value, ast.Constant):
                        return 'lossy', f'`{_tsrc(n)}` does not keep {_LOSSY_PATTERN_METHODS[meth]}'
                if recv_has_arg and meth in ('hexdigest', 'digest'):
                    continue
            if d in _LOSSY_FUNCS:
                what, pair = _LOSSY_FUNCS[d]
                ex = f' - e.g. the type strings of two structs with the single field {pair[0]!r} resp. {pair[1]!r} give the same result' if pair else ''
                return 'lossy', f'`{_tsrc(n)}` does not keep {what}{ex}'
    if chain is not None:
        chars = R.CharSet.empty()
        for _meth, cs in chain:
            chars = chars | (R.pred('str.isspace') if cs is None else R.CharSet.of(cs))
        left = any(m_ in ('strip', 'lstrip') for m_, _c in chain)
        right = any(m_ in ('strip', 'rstrip') for m_, _c in chain)
        why = grammar_skips_outer(G, chars, left, right)
        if why is None:
            return 'ok', f'`{_tsrc(t)}` only removes characters that the start rule of the grammar skips at both ends'
        return 'unknown', f'`{_tsrc(t)}` strips characters and {why}'
    return 'unknown', f'`{_tsrc(t)}` is not in the table of injective / parse-preserving / lossy shapes'


def check_parse_flow(ctx: Ctx, mt: pf.Module, G: P.Grammar) -> None:
    """R7, decided from the data-flow facts and the closed table of key shapes; nothing is evaluated."""
    fl = Flow(ctx)
    fn = mt.func('dtype')
    results = fl.call_function(mt, fn, None, None)
    declines: List[str] = []
    cons0 = f'{F_TYPES}::dtype'
    # a guard on back-ticks may make a lossy key harmless: then nothing is claimed
    guarded = False
    for rel, fname in fl.functions:
        try:
            f_ = pf.load(rel).func(fname)
        except AnalysisError:
            continue
        for n in ast.walk(f_):
            if isinstance(n, (ast.If, ast.IfExp, ast.While, ast.Assert)) and any(isinstance(x, ast.Constant) and isinstance(x.value, str) and '`' in x.value
                                                                                 for x in ast.walk(n.test)):
                guarded = True
    seen_ret = set()
    for v in results:
        if v[0] == 'unknown':
            declines.append(str(v[1]))
            continue
        if v[0] == 'const' and v[1] is None and len(results) > 1:
            continue  # flow-insensitive artefact of `x = cache.get(k)` / a bare return in a helper
        if v[0] == 'parsed':
            key = ('parsed', pf.nsrc(v[1]))
            if key in seen_ret:
                continue
            seen_ret.add(key)
            verdict, why = classify_transform(v[1], G, as_key=False)
            cons = f'{cons0}::returns visit(parse({_tsrc(v[1])}))'
            if verdict == 'ok':
                ctx.ok('R7', cons, why)
            elif verdict == 'lossy' and not guarded:
                ctx.bad('R7', cons, f'dtype parses `{_tsrc(v[1])}` instead of its argument: {why}. Whitespace, case and every character are significant inside '
                        f'back-ticked field / reference-genome names, so the printed form of a type with such a name parses to a different type '
                        f'(no history needed)', mt.path, fn.lineno)
            else:
                declines.append(why + (' (and a test on back-ticks guards some path)' if guarded else ''))
        elif v[0] == 'memo':
            cid, K = v[1], v[2]
            key = ('memo', cid, pf.nsrc(K))
            if key in seen_ret:
                continue
            seen_ret.add(key)
            cons = f'{cons0}::returns {cid.split("::")[-1]}[{_tsrc(K)}]'
            ws = [w for w in fl.writes if w['C'] == cid]
            foreign = _foreign_writers(fl, cid)
            if foreign:
                declines.append(f'the container {cid} is also written by {foreign}; not analysed')
                continue
            if not ws:
                declines.append(f'dtype returns entries of {cid}, which no analysed function fills (pre-populated table?); not analysed')
                continue
            kv, kwhy = classify_transform(K, G, as_key=True)
            problem: Optional[str] = None
            unknown: Optional[str] = None
            if kv == 'lossy':
                problem = (f'the memo {cid.split("::")[-1]} is read under the key `{_tsrc(K)}`: {kwhy}. Two type strings that differ only in what the key drops (significant, e.g. '
                           f'inside a back-ticked name) denote different types but share an entry: after hl.dtype of the first, hl.dtype(str(t2)) returns t1 '
                           f'(each of them round-trips alone, in a fresh process)')
            elif kv == 'unknown':
                unknown = kwhy
            for w in ws:
                if any(k[0] != 'arg' for k in w['K']):
                    unknown = unknown or f'a key written to {cid} in {w["fn"].name} is not a pure function of the argument'
                    continue
                for k in w['K']:
                    wv, wwhy = classify_transform(k[1], G, as_key=True)
                    if wv == 'lossy' and not problem:
                        problem = (f'`{pf.nsrc(w["node"])[:70]}` stores under the key `{_tsrc(k[1])}`: {wwhy}. Two type strings that differ only in what the key drops '
                                   f'share the entry, and the later one gets the earlier one\'s type')
                    elif wv == 'unknown':
                        unknown = unknown or wwhy
                    elif pf.nsrc(k[1]) != pf.nsrc(K) and wv == 'ok' and kv == 'ok' and pf.nsrc(_peel_key(k[1])) != pf.nsrc(_peel_key(K)):
                        unknown = unknown or f'read key `{_tsrc(K)}` and write key `{_tsrc(k[1])}` differ'
                    for val in w['V']:
                        if (val[0] == 'memo' and val[1] == cid) or (val[0] == 'const' and val[1] is None):
                            continue
                        if val[0] != 'parsed':
                            unknown = unknown or (f'the value stored in {cid} by `{pf.nsrc(w["node"])[:60]}` is not a parse result '
                                                  f'({val[0]}{": " + str(val[1]) if val[0] == "unknown" else ""})')
                            continue
                        tv, twhy = classify_transform(val[1], G, as_key=False)
                        if tv == 'lossy' and not problem:
                            problem = f'`{pf.nsrc(w["node"])[:70]}` stores the parse of `{_tsrc(val[1])}`, not of the argument: {twhy}'
                        elif tv == 'unknown':
                            unknown = unknown or twhy
            if problem and not guarded:
                ctx.bad('R7', cons, problem, mt.path, fn.lineno, extra={'container': cid, 'key': _tsrc(K)})
            elif problem or unknown:
                declines.append((unknown or problem or '') + (' (and a test on back-ticks guards some path)' if guarded and problem else ''))
            else:
                ctx.ok('R7', cons, f'memo keyed by {kwhy}; only written with the value parsed from the same text')
        else:
            declines.append(f'dtype may return a {v[0]} value ({pf.nsrc(v[1])[:50] if len(v) > 1 and isinstance(v[1], ast.AST) else v[1:]})')
    for d in fl.decorated:
        ctx.ok('R7', f'{d}::keyed by the arguments themselves', 'functools cache: key = the argument tuple (str equality), value = result of the call on that very argument')
    for vrel, vcls in fl.visitors:
        vcls = flat_class(pf.load(vrel), vcls)
        why = _visitor_state(vcls)
        if why is not None:
            lossy = _visitor_memo_keys(vcls, G)
            if lossy is not None and not guarded:
                meth_, node_, kwhy_ = lossy
                ctx.bad('R7', f'{vrel}::{vcls.name}.{meth_.name}::memo inside the visitor', f'{meth_.name} keeps results between parses (`{pf.nsrc(node_)[:60]}`) under a key '
                        f'computed from the node text: {kwhy_.replace("type_str", "node.text")}. Two texts that differ only in what the key drops (significant, e.g. inside a back-ticked name) denote '
                        f'different types but share the entry: the second one parsed gets the first one\'s type', pf.load(vrel).path, meth_.lineno)
            else:
                declines.append(f'{vrel}::{vcls.name}: {why}')
        else:
            ctx.ok('R7', f'{vrel}::{vcls.name}::visitor methods keep no state between parses', {'methods': sum(isinstance(x, ast.FunctionDef) for x in vcls.body)})
    if declines:
        raise AnalysisError('R7 (dtype returns the parse of its own argument): ' + '; '.join(dict.fromkeys(declines)))

def _foreign_writers(fl: Flow, cid: str) -> List[str]:
    rel, _, name = cid.partition('::')
    base = name.split('.')[0].split('(')[0]
    out = []
    try:
        m = pf.load(rel)
    except AnalysisError:
        return []
    analysed = {f for r_, f in fl.functions if r_ == rel}
    for q, f in m.functions():
        if q in analysed or q.split('.')[-1] in analysed and '.' not in q:
            continue
        for n in pf.walk_shallow(f):
            tgt = None
            if isinstance(n, (ast.Assign, ast.AugAssign, ast.Delete)):
                ts = n.targets if isinstance(n, (ast.Assign, ast.Delete)) else [n.target]
                for t in ts:
                    if isinstance(t, ast.Subscript) and pf.dotted(t.value) == name:
                        tgt = q
            elif isinstance(n, ast.Call) and isinstance(n.func, ast.Attribute) and pf.dotted(n.func.value) == name and \
                    n.func.attr in ('setdefault', 'update', 'pop', 'popitem', '__setitem__'):
                tgt = q
            if tgt:
                out.append(tgt)
    return sorted(set(out))


def _visitor_memo_keys(c: ast.ClassDef, G: P.Grammar) -> Optional[Tuple[ast.FunctionDef, ast.AST, str]]:
    """A store `self.<container>[K] = ...` / `.setdefault(K, ...)` in a visit method whose key K, as a function of `node.text`, is LOSSY by the
    closed table: (method, store, why).  None when there is no such store (or its key is not a function of node.text alone)."""
    for st in c.body:
        if not isinstance(st, ast.FunctionDef) or len(st.args.args) < 2:
            continue
        node_param = st.args.args[1].arg
        for n in ast.walk(st):
            key = None
            if isinstance(n, ast.Assign):
                for t in n.targets:
                    for x in ([t] + (list(t.elts) if isinstance(t, (ast.Tuple, ast.List)) else [])):
                        if isinstance(x, ast.Subscript) and isinstance(x.value, ast.Attribute) and isinstance(x.value.value, ast.Name) and x.value.value.id in ('self', c.name):
                            key = x.slice
            elif isinstance(n, ast.Call) and isinstance(n.func, ast.Attribute) and n.func.attr == 'setdefault' and n.args and isinstance(n.func.value, ast.Attribute) \
                    and isinstance(n.func.value.value, ast.Name) and n.func.value.value.id in ('self', c.name):
                key = n.args[0]
            if key is None:
                continue
            k2 = pf.expand_locals(st, key)

            class _R(ast.NodeTransformer):
                def visit_Attribute(s2, node):
                    if node.attr in ('text', 'full_text') and isinstance(node.value, ast.Name) and node.value.id == node_param:
                        return ast.Name(id=ARG, ctx=ast.Load())
                    return s2.generic_visit(node)
            import copy
            k3 = _R().visit(copy.deepcopy(k2))
            names = {x.id for x in ast.walk(k3) if isinstance(x, ast.Name)}
            if ARG not in names:
                continue
            verdict, why = classify_transform(k3, G, as_key=True)
            if verdict == 'lossy':
                return st, n, why
    return None


_MUTATORS = {'append', 'extend', 'insert', 'add', 'update', 'setdefault', 'pop', 'popitem', 'remove', 'discard', 'clear', '__setitem__', 'move_to_end'}


def _visitor_state(c: ast.ClassDef) -> Optional[str]:
    """None when no method of the visitor class writes to anything but its own locals."""
    for st in c.body:
        if isinstance(st, (ast.Assign, ast.AnnAssign)):
            v = st.value
            if isinstance(v, (ast.Dict, ast.List, ast.Set)) or (isinstance(v, ast.Call) and (pf.dotted(v.func) or '').split('.')[-1] in ('dict', 'list', 'set', 'defaultdict', 'OrderedDict')):
                tn = st.targets[0] if isinstance(st, ast.Assign) else st.target
                if not (isinstance(tn, ast.Name) and tn.id == 'unwrapped_exceptions'):
                    return f'class-level mutable `{pf.nsrc(st)[:50]}`'
            continue
        if not isinstance(st, ast.FunctionDef):
            if isinstance(st, ast.Expr) and isinstance(st.value, ast.Constant):
                continue
            return f'class body statement `{pf.nsrc(st)[:50]}`'
        for dco in st.decorator_list:
            dn = pf.dotted(dco.func if isinstance(dco, ast.Call) else dco) or pf.nsrc(dco)
            if dn.split('.')[-1] not in ('staticmethod', 'override'):
                return f'{st.name} carries the decorator `{pf.nsrc(dco)[:40]}`'
        if st.name in ('visit', '__init__', '__new__', '__getattr__', '__getattribute__'):
            return f'{st.name} is overridden'
        locals_ = set(pf.assignments(st))
        for n in ast.walk(st):
            if isinstance(n, (ast.Global, ast.Nonlocal)):
                return f'{st.name} declares `{pf.nsrc(n)}`'
            if isinstance(n, (ast.Attribute, ast.Subscript)) and isinstance(n.ctx, (ast.Store, ast.Del)):
                root = n
                while isinstance(root, (ast.Attribute, ast.Subscript)):
                    root = root.value
                if not (isinstance(root, ast.Name) and root.id in locals_ and root.id not in ('self', 'node') and isinstance(n, ast.Subscript)):
                    return f'{st.name} stores to `{pf.nsrc(n)[:40]}`'
                if isinstance(root, ast.Name) and root.id in [a.arg for a in st.args.args]:
                    return f'{st.name} stores into its argument `{pf.nsrc(n)[:40]}`'
            if isinstance(n, ast.Call) and isinstance(n.func, ast.Attribute) and n.func.attr in _MUTATORS:
                root = n.func.value
                while isinstance(root, (ast.Attribute, ast.Subscript)):
                    root = root.value
                if not (isinstance(root, ast.Name) and root.id in locals_ and root.id not in [a.arg for a in st.args.args]):
                    return f'{st.name} calls `{pf.nsrc(n)[:50]}` on something that is not a local'
    return None



_PRINTER_METHODS = ('__str__', '__repr__', 'pretty', '_pretty', '_parsable_string')


def check_printer_memo(ctx: Ctx, mt: pf.Module, classes: Dict[str, ast.ClassDef]) -> None:
    """R7 (printer side): a printer either recomputes its text from the attributes on every call, or memoises it on attributes that
    never change after construction."""
    all_classes = dict(classes)
    try:
        all_classes['HailType'] = mt.cls('HailType')
    except AnalysisError:
        pass

    def chain(c: ast.ClassDef) -> List[ast.ClassDef]:
        out = [c]
        for b in c.bases:
            d = pf.dotted(b)
            if d in all_classes and all_classes[d] is not c:
                out += chain(all_classes[d])
        return out

    def self_name(f: ast.FunctionDef) -> Optional[str]:
        return f.args.args[0].arg if f.args.args else None

    def stores(f: ast.FunctionDef) -> List[Tuple[str, ast.AST, bool]]:
        """(attr, node, lazy) for every `self.attr = ...` in f; lazy: directly under `if self.attr is None` / `if not hasattr`."""
        sn = self_name(f)
        out = []
        par = mt.parents()
        for n in ast.walk(f):
            if isinstance(n, ast.Attribute) and isinstance(n.ctx, ast.Store) and isinstance(n.value, ast.Name) and n.value.id == sn:
                lazy = False
                cur = par.get(n)
                while cur is not None and cur is not f:
                    if isinstance(cur, ast.If):
                        tsrc = pf.nsrc(cur.test)
                        if tsrc in (f'{sn}.{n.attr} is None', f'not hasattr({sn}, {n.attr!r})', f'not {sn}.{n.attr}'):
                            lazy = True
                    cur = par.get(cur)
                out.append((n.attr, n, lazy))
        return out

    for cname, c in all_classes.items():
        ch = chain(c)
        own_printers = [st for st in c.body if isinstance(st, ast.FunctionDef) and st.name in _PRINTER_METHODS]
        if not own_printers:
            continue
        memo_attrs: Dict[str, str] = {}
        for f in own_printers:
            for dco in f.decorator_list:
                dn = pf.dotted(dco.func if isinstance(dco, ast.Call) else dco) or pf.nsrc(dco)
                if dn.split('.')[-1] in ('lru_cache', 'cache', 'cached_property'):
                    memo_attrs[f'@{dn} on {f.name}'] = f.name
                elif dn.split('.')[-1] not in ('abstractmethod', 'typecheck_method', 'typecheck', 'override'):
                    raise AnalysisError(f'{F_TYPES}::{cname}.{f.name}: decorator `{pf.nsrc(dco)[:40]}` on a printer is not recognised')
            for attr, node, lazy in stores(f):
                memo_attrs[attr] = f.name
        cons = f'{F_TYPES}::{cname}::printed text is computed from attributes that are fixed at construction'
        if not memo_attrs:
            ctx.ok('R7', cons, {'printers': [f.name for f in own_printers], 'memo': None})
            continue
        # attributes the printers read (through properties / methods of the class chain, transitively)
        methods: Dict[str, ast.FunctionDef] = {}
        for k in reversed(ch):
            for st in k.body:
                if isinstance(st, ast.FunctionDef):
                    methods[st.name] = st
        read: set = set()
        work = [f.name for f in own_printers]
        seen = set()
        while work:
            mn = work.pop()
            if mn in seen or mn not in methods:
                continue
            seen.add(mn)
            f = methods[mn]
            sn = self_name(f)
            for n in ast.walk(f):
                if isinstance(n, ast.Attribute) and isinstance(n.value, ast.Name) and n.value.id == sn and isinstance(n.ctx, ast.Load):
                    if n.attr in methods:
                        work.append(n.attr)
                    else:
                        read.add(n.attr)
        mutable: Dict[str, str] = {}
        for mn, f in methods.items():
            if mn in ('__init__', '__new__'):
                continue
            for attr, node, lazy in stores(f):
                if attr in memo_attrs or lazy:
                    continue
                mutable[attr] = mn
        stale = sorted(a for a in read if a in mutable)
        ctx.check(not stale, 'R7', cons,
                  f'{cname}.{sorted(set(memo_attrs.values()))[0]} remembers its text ({", ".join(sorted(memo_attrs))}) but reads the attribute(s) {stale}, which '
                  f'{cname}.{mutable[stale[0]] if stale else ""} assigns after construction: the remembered text goes stale and no longer parses back to the type',
                  mt.path, own_printers[0].lineno, detail={'memo': sorted(memo_attrs), 'reads': sorted(read)})



# --------------------------------------------------------------------------------------
# symbolic printer templates (shared by R4 `_pretty`, R8 and R9): nothing is evaluated, the template is read off the syntax tree
# parts: ('lit', text) ('ws',) ('hole', 'TYPE'|'NAT'|'NAME'|'RAWNAME', key) ('join', sep_text, [parts of one element])
# --------------------------------------------------------------------------------------


class Skeleton:
    def __init__(self, m: pf.Module, tcat: Templates):
        self.m = m
        self.tcat = tcat

    def fail(self, e: ast.AST, where: str = ''):
        raise AnalysisError(f'{self.m.rel}{where}: printer expression not recognised `{pf.nsrc(e)[:80]}`')

    def key(self, e: ast.AST, roles: Dict[str, str]) -> str:
        """What a hole shows: the attribute (leading underscores dropped) or the role of a loop variable."""
        while True:
            if isinstance(e, ast.Call) and pf.dotted(e.func) == 'str' and len(e.args) == 1:
                e = e.args[0]
            elif isinstance(e, ast.Call) and isinstance(e.func, ast.Attribute) and e.func.attr in ('_parsable_string', '__str__') and not e.args:
                e = e.func.value
            elif isinstance(e, ast.Attribute) and e.attr == 'name' and not (isinstance(e.value, ast.Name) and e.value.id == 'self'):
                e = e.value
            else:
                break
        if isinstance(e, ast.Name):
            return roles.get(e.id, e.id)
        if isinstance(e, ast.Attribute) and isinstance(e.value, ast.Name) and e.value.id == 'self':
            a = e.attr.lstrip('_')
            return 'reference_genome' if a == 'rg' else a
        return pf.nsrc(e)

    def expr(self, e: ast.AST, env: Dict[str, str], roles: Dict[str, str]) -> List[tuple]:
        s = pf.const_str(e)
        if s is not None:
            return [('lit', s)] if s else []
        if isinstance(e, ast.Call) and pf.dotted(e.func) == self.tcat.escaper and len(e.args) == 1 and not e.keywords:
            if self.tcat.category(e.args[0], env) != 'NAME':
                self.fail(e)
            return [('hole', 'NAME', self.key(e.args[0], roles))]
        cat = self.tcat.category(e, env)
        if cat in ('TYPE', 'NAT'):
            mode = 'engine' if isinstance(e, ast.Call) and isinstance(e.func, ast.Attribute) and e.func.attr == '_parsable_string' else 'python'
            return [('hole', cat, self.key(e, roles), mode)]
        if cat == 'NAME':
            return [('hole', 'RAWNAME', self.key(e, roles))]
        if isinstance(e, ast.BinOp) and isinstance(e.op, ast.Add):
            return self.expr(e.left, env, roles) + self.expr(e.right, env, roles)
        if isinstance(e, ast.BinOp) and isinstance(e.op, ast.Mult):
            for side, other in ((e.left, e.right), (e.right, e.left)):
                cs = pf.const_str(side)
                if cs is not None and cs.strip() == '' and isinstance(other, (ast.Name, ast.Constant)):
                    return [('ws',)]
            self.fail(e)
        if isinstance(e, ast.JoinedStr):
            out: List[tuple] = []
            for v in e.values:
                if isinstance(v, ast.Constant):
                    out.append(('lit', str(v.value)))
                elif isinstance(v, ast.FormattedValue) and v.format_spec is None and v.conversion == -1:
                    out += self.expr(v.value, env, roles)
                else:
                    self.fail(e)
            return out
        if isinstance(e, ast.Call) and isinstance(e.func, ast.Attribute) and e.func.attr == 'format' and not e.keywords:
            tmpl = pf.const_str(e.func.value)
            if tmpl is None:
                self.fail(e)
            pieces = self.tcat.split_format(tmpl, e)  # type: ignore[arg-type]
            if len(pieces) - 1 != len(e.args):
                self.fail(e)
            out = []
            for i, pc in enumerate(pieces):
                if pc:
                    out.append(('lit', pc))
                if i < len(e.args):
                    out += self.expr(e.args[i], env, roles)
            return out
        if isinstance(e, ast.Call) and isinstance(e.func, ast.Attribute) and e.func.attr == 'join' and len(e.args) == 1 and not e.keywords:
            sep = pf.const_str(e.func.value)
            it = e.args[0]
            if sep is None or not isinstance(it, (ast.GeneratorExp, ast.ListComp)) or len(it.generators) != 1 or it.generators[0].ifs:
                self.fail(e)
            gen = it.generators[0]  # type: ignore[union-attr]
            env2, roles2 = self.loop_env(gen.iter, gen.target, env, roles, e)
            return [('join', sep, self.expr(it.elt, env2, roles2))]  # type: ignore[union-attr]
        self.fail(e)
        raise AssertionError

    def loop_env(self, it: ast.AST, target: ast.AST, env: Dict[str, str], roles: Dict[str, str], where: ast.AST) -> Tuple[Dict[str, str], Dict[str, str]]:
        env2, roles2 = dict(env), dict(roles)
        src = pf.nsrc(it)
        if src.startswith('enumerate(') and src.endswith(')') and isinstance(target, ast.Tuple) and len(target.elts) == 2 and isinstance(target.elts[0], ast.Name) \
                and isinstance(it, ast.Call) and len(it.args) == 1:
            env2[target.elts[0].id] = 'INDEX'
            return self.loop_env(it.args[0], target.elts[1], env2, roles2, where)
        if src == 'self.items()' and isinstance(target, ast.Tuple) and len(target.elts) == 2 and all(isinstance(x, ast.Name) for x in target.elts):
            env2[target.elts[0].id], env2[target.elts[1].id] = 'NAME', 'TYPE'  # type: ignore[union-attr]
            roles2[target.elts[0].id], roles2[target.elts[1].id] = '<field name>', '<field type>'  # type: ignore[union-attr]
        elif src in ('self.types', 'self._types') and isinstance(target, ast.Name):
            env2[target.id] = 'TYPE'
            roles2[target.id] = '<member type>'
        else:
            self.fail(where)
        return env2, roles2

    def of_return(self, fn: ast.FunctionDef) -> List[tuple]:
        body = [s for s in fn.body if not (isinstance(s, ast.Expr) and isinstance(s.value, ast.Constant))]
        if len(body) != 1 or not isinstance(body[0], ast.Return) or body[0].value is None:
            raise AnalysisError(f'{self.m.rel}::{fn.name}: not a single `return <template>`')
        return self.expr(body[0].value, {}, {})

    def of_pretty(self, cname: str, fn: ast.FunctionDef) -> List[List[tuple]]:
        """`_pretty(self, b, indent, increment)`: the appended pieces in order; a loop with `if i > 0: b.append(sep)` is a join; a branch that
        ends in `return` is a complete alternative form.  Returns the alternative forms."""
        params = [a.arg for a in fn.args.args]
        if len(params) != 4:
            raise AnalysisError(f'{self.m.rel}::{cname}._pretty: signature {params} not recognised')
        buf, ind = params[1], params[2]
        forms: List[List[tuple]] = []
        where = f'::{cname}._pretty'

        def block(stmts: List[ast.stmt], env: Dict[str, str], roles: Dict[str, str], acc: List[tuple], in_loop: bool) -> bool:
            """Appends to acc; True when the block ends in `return`."""
            for st in stmts:
                if isinstance(st, ast.Expr) and isinstance(st.value, ast.Constant):
                    continue
                if isinstance(st, ast.Return) and st.value is None:
                    return True
                if isinstance(st, (ast.Assign, ast.AugAssign)):
                    tg = st.targets[0] if isinstance(st, ast.Assign) else st.target
                    if isinstance(tg, ast.Name) and (tg.id == ind or tg.id.endswith('indent')) and all(isinstance(x, (ast.Name, ast.BinOp, ast.Add, ast.Load, ast.Constant, ast.Store)) or isinstance(x, ast.operator) for x in ast.walk(st.value)):
                        continue
                    self.fail(st, where)
                if isinstance(st, ast.Expr) and isinstance(st.value, ast.Call) and isinstance(st.value.func, ast.Attribute):
                    c = st.value
                    if pf.dotted(c.func) == f'{buf}.append' and len(c.args) == 1 and not c.keywords:
                        acc += self.expr(c.args[0], env, roles)
                        continue
                    if c.func.attr == '_pretty' and len(c.args) == 3 and pf.nsrc(c.args[0]) == buf and self.tcat.category(c.func.value, env) == 'TYPE':
                        acc.append(('hole', 'TYPE', self.key(c.func.value, roles)))
                        continue
                    self.fail(st, where)
                if isinstance(st, ast.If) and not in_loop:
                    alt: List[tuple] = list(acc)
                    if block(st.body, env, roles, alt, False) and not st.orelse:
                        forms.append(alt)
                        continue
                    self.fail(st, where)
                if isinstance(st, ast.For) and not in_loop and not st.orelse:
                    env2, roles2 = self.loop_env(st.iter, st.target, env, roles, st)
                    idx = [k for k, v in env2.items() if v == 'INDEX']
                    body = list(st.body)
                    sep = ''
                    if body and isinstance(body[0], ast.If) and idx and pf.nsrc(body[0].test) == f'{idx[0]} > 0' and not body[0].orelse:
                        sp_: List[tuple] = []
                        block(body[0].body, env2, roles2, sp_, True)
                        if not all(p_[0] == 'lit' for p_ in sp_):
                            self.fail(body[0], where)
                        sep = ''.join(p_[1] for p_ in sp_)
                        body = body[1:]
                    elem: List[tuple] = []
                    if block(body, env2, roles2, elem, True):
                        self.fail(st, where)
                    acc.append(('join', sep, elem))
                    continue
                self.fail(st, where)
            return False
        main: List[tuple] = []
        block(list(fn.body), {}, {}, main, False)
        forms.append(main)
        return forms


def instantiate(parts: List[tuple], types: List[str], idents: List[str]) -> List[str]:
    """Strings of a symbolic template: holes cycle through the given child types / rendered names; a join gives the empty, one-, two- and
    all-element forms."""
    cols: List[List[str]] = []
    for p_ in parts:
        if p_[0] == 'lit':
            cols.append([p_[1]])
        elif p_[0] == 'ws':
            cols.append(['    ', ''])
        elif p_[0] == 'hole':
            cols.append(list(types) if p_[1] == 'TYPE' else ['2', '0'] if p_[1] == 'NAT' else list(idents) if p_[1] == 'NAME' else ['a', 'a b', '`'])
        else:
            elts = instantiate(p_[2], types, idents)
            sep = p_[1]
            out = [''] + list(elts) + [sep.join([elts[i % len(elts)], elts[(i + 1) % len(elts)]]) for i in range(len(elts))] + [sep.join(elts)]
            cols.append(out)
    return Templates.combine(cols, lambda xs: ''.join(xs)) if cols else ['']


def _all_holes(parts: List[tuple]) -> List[tuple]:
    out: List[tuple] = []
    for p_ in parts:
        if p_[0] == 'hole':
            out.append(p_)
        elif p_[0] == 'join':
            out += _all_holes(p_[2])
    return out


def hole_keys(parts: List[tuple]) -> List[Tuple[str, str]]:
    out: List[Tuple[str, str]] = []
    for p_ in parts:
        if p_[0] == 'hole':
            out.append(('NAME' if p_[1] == 'RAWNAME' else p_[1], p_[2]))
        elif p_[0] == 'join':
            out += [(c + '*', k) for c, k in hole_keys(p_[2])]
    return out


# --------------------------------------------------------------------------------------
# R8 (static): the visitor hands every value-carrying member of a rule to the constructor, unaltered and in reading order; the printer
# shows the constructor parameters in parameter order
# --------------------------------------------------------------------------------------

_NAME_LOSSY = set(_LOSSY_STR_METHODS) | {'strip', 'lstrip', 'rstrip', 'swapcase', 'expandtabs', 'encode', 'format', 'join'}
_REORDERING = {'sorted': 'reorders', 'reversed': 'reverses', 'set': 'drops order and duplicates', 'frozenset': 'drops order and duplicates',
               'min': 'keeps one element', 'max': 'keeps one element', 'sum': 'collapses'}
_VISITOR_NEUTRAL_CALLS = {'dict', 'list', 'tuple', 'int', 'len', 'bool', 'isinstance', 'unescape_parsable', 'NatVariable', 'iter', 'zip', 'enumerate'}


def check_visitor_flow(ctx: Ctx, mg: pf.Module, G: P.Grammar, vis: ast.ClassDef) -> None:
    visitors = {st.name[len('visit_'):]: st for st in vis.body if isinstance(st, ast.FunctionDef) and st.name.startswith('visit_')}

    def carrying(e: tuple, seen: frozenset = frozenset()) -> bool:
        k = e[0]
        if k == 'ref':
            if e[1] in visitors:
                return True
            if e[1] in seen:
                return False
            return carrying(G.rules[e[1]], seen | {e[1]})
        if k in ('seq', 'alt'):
            return any(carrying(x, seen) for x in e[1])
        if k in ('opt', 'star', 'plus'):
            return carrying(e[1], seen)
        return False

    for rname, meth in visitors.items():
        rule = G.rules.get(rname)
        if rule is None or rule[0] != 'seq':
            continue
        members = rule[1]
        car = [carrying(x) for x in members]
        if not any(car):
            continue
        cons = f'{F_GRAMMAR}::TypeConstructor.visit_{rname}::every value-carrying member reaches the result unaltered, in reading order'
        vc = meth.args.args[2].arg if len(meth.args.args) == 3 else None
        ctx.need(vc is not None, f'{F_GRAMMAR}::visit_{rname}: signature not (self, node, visited_children)')
        unpack = [st for st in meth.body if isinstance(st, ast.Assign) and isinstance(st.value, ast.Name) and st.value.id == vc
                  and len(st.targets) == 1 and isinstance(st.targets[0], (ast.Tuple, ast.List))]
        others = [n for n in ast.walk(meth) if isinstance(n, ast.Name) and n.id == vc and isinstance(n.ctx, ast.Load)]
        ctx.need(len(unpack) == 1 and len(others) == 1, f'{F_GRAMMAR}::visit_{rname}: {vc} is not unpacked exactly once into names')
        elts = unpack[0].targets[0].elts  # type: ignore[union-attr]
        if len(elts) != len(members):
            continue  # arity: reported by R4
        member_of: Dict[str, int] = {}
        for i, tg in enumerate(elts):
            for x in ast.walk(tg):
                if isinstance(x, ast.Name):
                    if car[i]:
                        member_of[x.id] = i
        tainted = set(member_of)
        origin: Dict[str, int] = dict(member_of)
        changed = True
        while changed:
            changed = False
            for n in ast.walk(meth):
                src_names: set = set()
                tgt_names: set = set()
                if isinstance(n, ast.Assign) and n is not unpack[0]:
                    src_names = {x.id for x in ast.walk(n.value) if isinstance(x, ast.Name)}
                    tgt_names = {x.id for t in n.targets for x in ast.walk(t) if isinstance(x, ast.Name)}
                elif isinstance(n, ast.comprehension):
                    src_names = {x.id for x in ast.walk(n.iter) if isinstance(x, ast.Name)}
                    tgt_names = {x.id for x in ast.walk(n.target) if isinstance(x, ast.Name)}
                elif isinstance(n, ast.For):
                    src_names = {x.id for x in ast.walk(n.iter) if isinstance(x, ast.Name)}
                    tgt_names = {x.id for x in ast.walk(n.target) if isinstance(x, ast.Name)}
                hit = src_names & tainted
                if hit and not tgt_names <= tainted:
                    for t_ in tgt_names - tainted:
                        origin[t_] = min(origin[h] for h in hit)
                    tainted |= tgt_names
                    changed = True

        def touches(e: ast.AST) -> bool:
            return any(isinstance(x, ast.Name) and x.id in tainted for x in ast.walk(e))
        bad: Optional[str] = None
        for n in ast.walk(meth):
            if bad:
                break
            if isinstance(n, ast.Call):
                d = pf.dotted(n.func) or ''
                args_touch = any(touches(a) for a in list(n.args) + [k.value for k in n.keywords])
                if d in _REORDERING and args_touch:
                    bad = f'`{pf.nsrc(n)[:60]}` {_REORDERING[d]} what was read from the text (field order / member order is part of the type)'
                elif isinstance(n.func, ast.Attribute) and touches(n.func.value) and not d.startswith('types.'):
                    if n.func.attr in _NAME_LOSSY:
                        bad = (f'`{pf.nsrc(n)[:60]}` alters a value read from the text; inside back-ticks every character of a name is significant '
                               f'(e.g. a name with leading / trailing blanks or capitals)')
                    elif n.func.attr not in ('items', 'keys', 'values', 'get', 'append', 'extend', 'copy'):
                        raise AnalysisError(f'{F_GRAMMAR}::visit_{rname}: `{pf.nsrc(n)[:60]}` on a parsed member is not a recognised operation')
                elif args_touch and not (d.startswith('types.') or d in _VISITOR_NEUTRAL_CALLS):
                    raise AnalysisError(f'{F_GRAMMAR}::visit_{rname}: `{pf.nsrc(n)[:60]}` on a parsed member is not a recognised operation')
            elif isinstance(n, ast.Subscript) and isinstance(n.slice, ast.Slice) and touches(n.value):
                bad = f'`{pf.nsrc(n)[:60]}` keeps only a slice of what was read from the text (arity is part of the type)'
            elif isinstance(n, ast.comprehension) and n.ifs and touches(n.iter):
                bad = f'the comprehension over `{pf.nsrc(n.iter)[:40]}` filters what was read from the text'
        if not bad:
            loaded = {x.id for x in ast.walk(meth) if isinstance(x, ast.Name) and isinstance(x.ctx, ast.Load)}
            for nm, i in member_of.items():
                if nm not in loaded:
                    bad = (f'the member `{nm}` (position {i} of rule `{rname}`: {_show_expr(members[i])}) is read from the text but never used: the printed '
                           f'information is dropped')
                    break
        if not bad:
            for n in ast.walk(meth):
                if isinstance(n, ast.Return) and isinstance(n.value, ast.Call) and (pf.dotted(n.value.func) or '').startswith('types.'):
                    idxs = [origin[a.id] for a in n.value.args if isinstance(a, ast.Name) and a.id in origin]
                    if idxs != sorted(idxs):
                        bad = (f'`{pf.nsrc(n)[:70]}` passes the members in the order {idxs}, not in reading order: the printer shows the constructor arguments '
                               f'in parameter order, so they come back swapped')
                    if any(k.arg is not None for k in n.value.keywords) and any(isinstance(k.value, ast.Name) and k.value.id in origin for k in n.value.keywords):
                        raise AnalysisError(f'{F_GRAMMAR}::visit_{rname}: keyword arguments in `{pf.nsrc(n)[:60]}` are not analysed')
        ctx.check(bad is None, 'R8', cons, f'visit_{rname}: {bad}', mg.path, meth.lineno, detail={'members': sum(car)})


def _show_expr(e: tuple) -> str:
    k = e[0]
    if k == 'ref':
        return e[1]
    if k == 'lit':
        return repr(e[1])
    if k == 're':
        return f'~{e[1]!r}'
    if k in ('seq', 'alt'):
        return '(' + (' ' if k == 'seq' else ' / ').join(_show_expr(x) for x in e[1]) + ')'
    return _show_expr(e[1]) + {'opt': '?', 'star': '*', 'plus': '+', 'not': '!', 'and': '&'}.get(k, '')


def check_printer_param_order(ctx: Ctx, mt: pf.Module, classes: Dict[str, ast.ClassDef], sk: Skeleton) -> Dict[str, List[tuple]]:
    """`__str__` shows the constructor parameters in parameter order (fixed-arity constructors).  Returns the __str__ templates."""
    templates: Dict[str, List[tuple]] = {}
    for cname, c in classes.items():
        meth = _method(c, '__str__')
        if meth is None or cname == 'tvariable':
            continue
        parts = sk.of_return(meth)
        templates[cname] = parts
        eng_children = [p_[2] for p_ in _all_holes(parts) if p_[1] == 'TYPE' and len(p_) > 3 and p_[3] == 'engine']
        ctx.need(not eng_children, f'{F_TYPES}::{cname}.__str__ prints the child `{eng_children[0] if eng_children else ""}` with _parsable_string(); mixed syntax is reported by R4')
        holes = [(cat, key) for cat, key in hole_keys(parts) if not cat.endswith('*')]
        init = _method(c, '__init__')
        if not holes or init is None or init.args.vararg or init.args.kwarg:
            continue
        params = [a.arg for a in init.args.args][1:]
        # attribute -> parameter: `self._x = <expr over one parameter>` in __init__; a property returns one attribute
        attr_param: Dict[str, str] = {}
        for n in ast.walk(init):
            if isinstance(n, ast.Assign) and len(n.targets) == 1 and isinstance(n.targets[0], ast.Attribute) and isinstance(n.targets[0].value, ast.Name) \
                    and n.targets[0].value.id == 'self':
                used = [x.id for x in ast.walk(n.value) if isinstance(x, ast.Name) and x.id in params]
                if len(set(used)) == 1:
                    attr_param.setdefault(n.targets[0].attr, used[0])
        prop_attr: Dict[str, str] = {}
        for st in c.body:
            if isinstance(st, ast.FunctionDef) and 'property' in pf.decorator_names(st):
                rets = [r for r in ast.walk(st) if isinstance(r, ast.Return) and r.value is not None]
                attrs = {x.attr for r in rets for x in ast.walk(r.value) if isinstance(x, ast.Attribute) and isinstance(x.value, ast.Name) and x.value.id == 'self'}
                if len(attrs) == 1:
                    prop_attr[st.name] = next(iter(attrs))
        order: List[int] = []
        for cat, key in holes:
            cand = [key, '_' + key, prop_attr.get(key, ''), '_rg' if key == 'reference_genome' else '']
            pm = next((attr_param[a] for a in cand if a in attr_param), key if key in params else None)
            ctx.need(pm is not None, f'{F_TYPES}::{cname}.__str__: the hole `{key}` cannot be traced to a constructor parameter')
            order.append(params.index(pm))  # type: ignore[arg-type]
        ctx.check(order == sorted(order), 'R8', f'{F_TYPES}::{cname}.__str__::shows the constructor parameters in parameter order',
                  f'{cname}.__str__ shows {[k for _c, k in holes]} but {cname}.__init__ takes {params}: the grammar reads the members in text order and the visitor '
                  f'passes them positionally, so the parsed type has them swapped', mt.path, meth.lineno, detail={'holes': [k for _c, k in holes]})
    return templates


# --------------------------------------------------------------------------------------
# R9 (static): sibling agreement between the engine-facing printer template and the engine parser's arm, constructor by constructor
# --------------------------------------------------------------------------------------


class EngineArms:
    """The token-reading scripts of IRParser.type_expr's arms and helpers, extracted fail-closed from Parser.scala."""

    _STEP = [
        (re.compile(r'punctuation\(it, "(.)"\)\s*'), lambda m: ('punct', m.group(1))),
        (re.compile(r'val (\w+) = type_expr\(it\)\s*'), lambda m: ('type', m.group(1))),
        (re.compile(r'val (\w+) = f\(it\)\s*'), lambda m: ('type', m.group(1))),
        (re.compile(r'val (\w+) = identifier\(it\)\s*'), lambda m: ('ident', m.group(1))),
        (re.compile(r'val (\w+) = int32_literal\(it\)\s*'), lambda m: ('int', m.group(1))),
        (re.compile(r'val (\w+) = repsepUntil\(it, (\w+), PunctuationToken\("(.)"\), PunctuationToken\("(.)"\)\)\s*'),
         lambda m: ('repsep', m.group(1), m.group(2), m.group(3), m.group(4))),
        (re.compile(r'while \(it\.hasNext && it\.head == PunctuationToken\("(.)"\)\) (\w+)\(it\): Unit\s*'), lambda m: ('while_punct', m.group(1), m.group(2))),
    ]

    def __init__(self, ctx: Ctx, tokens: List[str], cases: Dict[str, str]):
        self.cases = cases
        ctx.need(len(tokens) == 5 and tokens[4].endswith('.r'), f'{F_PARSER}::IRLexer.token: alternatives changed ({tokens})')
        self.punct = re.compile(S.scala_string_value(tokens[4][:-2], F_PARSER))
        src = S.load(F_PARSER)
        self.src, self.pspan = src, src.find_object('IRParser')
        _st, lo, hi, _sig = src.find_def('type_expr', self.pspan, signature_contains='it: TokenIterator')
        head = src.norm(lo, hi).split('identifier(it) match')[0]
        self.skip_plus = 'case x: PunctuationToken if x.value == "+" => punctuation(it, "+")' in head
        ctx.need(self.skip_plus or 'punctuation' not in head, f'{F_PARSER}::IRParser.type_expr: prelude `{head[:80]}` not recognised')
        rs = [src.norm(lo2, hi2) for _s, lo2, hi2, _g in src.find_defs('repsepUntil', self.pspan)]
        ctx.need(rs == ['{ val xs = ArraySeq.newBuilder[T] while (it.hasNext && it.head != end) { xs += f(it) if (it.head == sep) consumeToken(it): Unit } xs.result() }'],
                 f'{F_PARSER}::IRParser.repsepUntil changed; its model does not apply')
        self._scripts: Dict[str, Tuple[List[tuple], str]] = {}
        self._helpers: Dict[str, List[tuple]] = {}

    def _script(self, text: str, where: str) -> Tuple[List[tuple], str]:
        t = text.strip()
        if t.startswith('{') and t.endswith('}'):
            t = t[1:-1].strip()
        steps: List[tuple] = []
        while True:
            for rx, mk in self._STEP:
                m = rx.match(t)
                if m:
                    steps.append(mk(m))
                    t = t[m.end():]
                    break
            else:
                break
        if re.search(r'\bit\b', t):
            raise AnalysisError(f'{F_PARSER}::{where}: statement `{t[:70]}` reads tokens in a way the model does not know')
        return steps, t

    def arm(self, kw: str) -> Tuple[List[tuple], str]:
        if kw not in self._scripts:
            self._scripts[kw] = self._script(self.cases[kw], f'IRParser.type_expr case "{kw}"')
        return self._scripts[kw]

    def helper(self, name: str) -> List[tuple]:
        if name not in self._helpers:
            defs = self.src.find_defs(name, self.pspan)
            if len(defs) != 1:
                raise AnalysisError(f'{F_PARSER}::IRParser.{name}: expected one definition, found {len(defs)}')
            body = self.src.norm(defs[0][1], defs[0][2])
            m = re.fullmatch(r'(\w+)\(type_expr\)\(it\)', body.strip())
            name2 = name
            if m:
                d2 = self.src.find_defs(m.group(1), self.pspan)
                if len(d2) != 1 or '(f: TokenIterator => T)(it: TokenIterator)' not in d2[0][3]:
                    raise AnalysisError(f'{F_PARSER}::IRParser.{m.group(1)}: signature not recognised')
                body = self.src.norm(d2[0][1], d2[0][2])
                name2 = m.group(1)
            self._helpers[name] = self._script(body, f'IRParser.{name2}')[0]
        return self._helpers[name]

    # ---- the printer template as the token kinds the lexer would produce
    def tokens_of(self, lit: str, where: str) -> List[tuple]:
        out: List[tuple] = []
        i = 0
        while i < len(lit):
            if lit[i].isspace():
                i += 1
                continue
            m = re.compile(r'[A-Za-z_][A-Za-z_0-9]*').match(lit, i)
            if m:
                out.append(('kw', m.group()))
                i = m.end()
                continue
            m = self.punct.match(lit, i)
            if m:
                out.append(('punct', m.group()))
                i = m.end()
                continue
            raise EngineMismatch(f'the template text {lit[i:i + 8]!r} is neither an identifier nor a punctuation token of IRLexer ({self.punct.pattern})')
        return out

    def items_of(self, parts: List[tuple], where: str) -> List[tuple]:
        out: List[tuple] = []
        lit = ''
        for p_ in parts:
            if p_[0] == 'lit':
                lit += p_[1]
                continue
            if p_[0] == 'ws':
                lit += ' '
                continue
            out += self.tokens_of(lit, where)
            lit = ''
            if p_[0] == 'hole':
                out.append(({'TYPE': 'type', 'NAT': 'nat', 'NAME': 'name', 'RAWNAME': 'name'}[p_[1]],))
            else:
                out.append(('rep', self.tokens_of(p_[1], where), self.items_of(p_[2], where)))
        out += self.tokens_of(lit, where)
        return out

    def match(self, items: List[tuple], steps: List[tuple], i: int = 0) -> int:
        """Consume `items` with the arm script; returns the index after the script (EngineMismatch on disagreement)."""
        def at(j: int) -> str:
            return _show_item(items[j]) if j < len(items) else 'the end of the text'
        for st in steps:
            if st[0] == 'punct':
                if i >= len(items) or items[i] != ('punct', st[1]):
                    raise EngineMismatch(f"the arm expects the punctuation '{st[1]}' where the printer emits {at(i)}")
                i += 1
            elif st[0] in ('type', 'ident', 'int'):
                want = {'type': 'type', 'ident': 'name', 'int': 'nat'}[st[0]]
                if i >= len(items) or items[i] != (want,):
                    raise EngineMismatch(f'the arm reads {"a type" if want == "type" else "an identifier" if want == "name" else "an int32 literal"} (`{st[1]}`) where the printer emits {at(i)}')
                i += 1
            elif st[0] == 'repsep':
                _n, fname, sep, end = st[1:]
                elem_steps = [('type', 'element')] if fname == 'type_expr' else self.helper(fname)
                if i < len(items) and items[i][0] == 'rep':
                    _r, sep_toks, elem = items[i]
                    if sep_toks != [('punct', sep)]:
                        raise EngineMismatch(f"the arm separates the elements with '{sep}' but the printer joins them with {''.join(t[1] for t in sep_toks)!r}")
                    j = self.match(elem, elem_steps, 0)
                    if j != len(elem):
                        raise EngineMismatch(f'one printed element continues with {_show_item(elem[j])} after what `{fname}` reads')
                    i += 1
                else:
                    while i < len(items) and items[i] != ('punct', end):
                        i = self.match(items, elem_steps, i)
                        if i < len(items) and items[i] == ('punct', sep):
                            i += 1
            elif st[0] == 'while_punct':
                if i < len(items) and items[i] == ('punct', st[1]):
                    raise AnalysisError(f"engine model: '{st[1]}' decorators are not modelled")
        return i


class EngineMismatch(Exception):
    pass


def _show_item(it: tuple) -> str:
    if it[0] in ('punct', 'kw'):
        return repr(it[1])
    if it[0] == 'rep':
        return 'a joined list'
    return {'type': 'a child type', 'name': 'a name', 'nat': 'a number'}[it[0]]


def check_engine_templates(ctx: Ctx, mt: pf.Module, classes: Dict[str, ast.ClassDef], sk2: Skeleton, str_templates: Dict[str, List[tuple]], arms: EngineArms) -> None:
    used_kw: Dict[str, str] = {}
    for cname, c in classes.items():
        meth = _method(c, '_parsable_string')
        if meth is None:
            continue
        body = [s for s in meth.body if not (isinstance(s, ast.Expr) and isinstance(s.value, ast.Constant))]
        if len(body) == 1 and isinstance(body[0], ast.Raise):
            continue
        parts = sk2.of_return(meth)
        cons = f'{F_TYPES}::{cname}._parsable_string::template agrees with the arm of IRParser.type_expr, token by token'
        why: Optional[str] = None
        py_children = [p_[2] for p_ in _all_holes(parts) if p_[1] == 'TYPE' and len(p_) > 3 and p_[3] != 'engine']
        if py_children:
            ctx.bad('R9', cons, f'{cname}._parsable_string() = {_render(parts)} prints the child type `{py_children[0]}` with str() (Python syntax such as '
                    f'locus<GRCh38>, struct{{...}}) inside the engine-facing form instead of its _parsable_string(): the engine parser has no such keywords', mt.path, meth.lineno)
            continue
        try:
            items = arms.items_of(parts, cname)
            if arms.skip_plus and items[:1] == [('punct', '+')]:
                items = items[1:]
            if not items or items[0][0] != 'kw':
                why = f'the template starts with {_show_item(items[0]) if items else "nothing"}, not with a type keyword'
            elif items[0][1] not in arms.cases:
                if cname == '_trngstate':
                    ctx.ok('R9', cons, 'keyword has no parser arm (see INFO under R6)', nontrivial=False)
                    continue
                why = f'IRParser.type_expr has no case "{items[0][1]}"'
            else:
                kw = items[0][1]
                used_kw[kw] = cname
                steps, _res = arms.arm(kw)
                j = arms.match(items, steps, 1)
                if j != len(items):
                    why = f'after the arm `case "{kw}"` has finished, the printer still emits {_show_item(items[j])}'
        except EngineMismatch as ex:
            why = str(ex)
        ctx.check(why is None, 'R9', cons, f'{cname}._parsable_string() = {_render(parts)}: {why}', mt.path, meth.lineno)
        # the two printers show the same things in the same order
        if cname in str_templates:
            a, b = hole_keys(str_templates[cname]), hole_keys(parts)
            ctx.check(a == b, 'R9', f'{F_TYPES}::{cname}::__str__ and _parsable_string show the same members in the same order',
                      f'{cname}.__str__ shows {[k for _c, k in a]} but {cname}._parsable_string shows {[k for _c, k in b]}: the engine is told a different type than '
                      f'the one Python prints (e.g. key and value type swapped)', mt.path, meth.lineno)
    for kw in sorted(used_kw):
        steps, result = arms.arm(kw)
        vals = [st[1] for st in steps if st[0] in ('type', 'ident', 'int', 'repsep')]
        m = re.search(r'(T\w+)\(([^()]*(?:\([^()]*\))?[^()]*)\)\s*$', result)
        if len(vals) < 2 or not m:
            continue
        used = [v for v in re.findall(r'\b\w+\b', m.group(2)) if v in vals]
        ctx.check(used == [v for v in vals if v in used], 'R9', f'{F_PARSER}::IRParser.type_expr case "{kw}"::constructor arguments in reading order',
                  f'the arm reads {vals} in this order but builds {m.group(0)[:60]}: the members of {used_kw[kw]} are swapped on the engine side', F_PARSER, 0)


def _render(parts: List[tuple]) -> str:
    out = []
    for p_ in parts:
        if p_[0] == 'lit':
            out.append(p_[1])
        elif p_[0] == 'ws':
            out.append(' ')
        elif p_[0] == 'hole':
            out.append('<' + p_[2] + '>')
        else:
            out.append('<' + _render(p_[2]) + f' joined by {p_[1]!r}>')
    return ascii(''.join(out))


# --------------------------------------------------------------------------------------
# R3: what the identifier visitors hand on, decided on the language of the printed names
# --------------------------------------------------------------------------------------


def _unit_edge_chars(units: List[Unit], cs: R.CharSet, where: str) -> R.CharSet:
    """The code points whose emitted text begins (where='first') / ends ('last') with / contains ('any') a character of cs."""
    hexd = R.CharSet.of('0123456789abcdefABCDEF')
    out: List[Tuple[int, int]] = []
    for u in units:
        parts = [p_ for p_ in u.parts if not (p_[0] == 'lit' and not p_[1])]
        if not parts:
            continue
        look = parts if where == 'any' else [parts[0] if where == 'first' else parts[-1]]
        hit = False
        for p_ in look:
            if p_[0] == 'lit':
                t = p_[1] if where == 'any' else p_[1][0] if where == 'first' else p_[1][-1]
                hit = hit or any(ord(ch) in cs for ch in t)
            elif p_[0] == 'self':
                for lo, hi in (R.CharSet([(u.lo, u.hi)]) & cs).ranges:
                    out.append((lo, hi))
            elif cs & hexd:
                raise AnalysisError('a hexadecimal digit of an escape is among the stripped characters; not modelled')
        if hit:
            out.append((u.lo, u.hi))
    return R.CharSet(out)


def _removal_ops(e: ast.AST, node_param: str, where: str) -> List[tuple]:
    """`node.text` under a chain of slice / strip / removeprefix / removesuffix / replace / case operations (closed table), innermost
    first; anything else -> AnalysisError."""
    ops: List[tuple] = []
    cur = e
    while True:
        if isinstance(cur, ast.Attribute) and cur.attr == 'text' and isinstance(cur.value, ast.Name) and cur.value.id == node_param:
            return list(reversed(ops))
        if isinstance(cur, ast.Subscript) and isinstance(cur.slice, ast.Slice):
            sl = cur.slice

            def bound(x: Optional[ast.AST]) -> Optional[int]:
                if x is None:
                    return None
                v = sp._int_const(x)
                if v is None:
                    raise AnalysisError(f'{where}: slice bound `{pf.nsrc(x)}` is not an integer literal')
                return v
            step = bound(sl.step)
            if step not in (None, 1):
                raise AnalysisError(f'{where}: slice with a step')
            ops.append(('slice', bound(sl.lower), bound(sl.upper)))
            cur = cur.value
            continue
        if isinstance(cur, ast.Call) and isinstance(cur.func, ast.Attribute) and not cur.keywords:
            meth, args = cur.func.attr, cur.args
            consts = [a.value if isinstance(a, ast.Constant) else AnalysisError for a in args]
            if AnalysisError in consts:
                raise AnalysisError(f'{where}: `{pf.nsrc(cur)[:60]}` has a non-literal argument')
            if meth in ('strip', 'lstrip', 'rstrip') and len(consts) <= 1 and all(c is None or isinstance(c, str) for c in consts):
                ops.append((meth, consts[0] if consts else None))
            elif meth in ('removeprefix', 'removesuffix') and len(consts) == 1 and isinstance(consts[0], str):
                ops.append((meth, consts[0]))
            elif meth == 'replace' and len(consts) == 2 and all(isinstance(c, str) for c in consts):
                ops.append(('replace', consts[0], consts[1]))
            elif meth in ('lower', 'upper', 'casefold') and not consts:
                ops.append((meth,))
            else:
                raise AnalysisError(f'{where}: `{pf.nsrc(cur)[:60]}` is not in the table of delimiter-removing operations')
            cur = cur.func.value
            continue
        raise AnalysisError(f'{where}: `{pf.nsrc(cur)[:60]}` is not `node.text` under slice / strip / removeprefix / removesuffix operations')


def _single_return(m: pf.Module, meth: ast.FunctionDef, where: str) -> Tuple[ast.AST, str]:
    """(returned expression with single-assignment locals substituted, name of the node parameter) of a visit method that is straight-line
    code ending in one return."""
    params = [a.arg for a in meth.args.args]
    if len(params) != 3 or meth.args.vararg or meth.args.kwarg or meth.decorator_list:
        raise AnalysisError(f'{where}: signature is not (self, node, visited_children)')
    ret = None
    for st in meth.body:
        if isinstance(st, ast.Expr) and isinstance(st.value, ast.Constant):
            continue
        if isinstance(st, ast.Assign) and len(st.targets) == 1 and isinstance(st.targets[0], ast.Name) and st.targets[0].id not in params \
                and pf.single_def(meth, st.targets[0].id) is st.value and ret is None:
            continue
        if isinstance(st, ast.Return) and st.value is not None and ret is None:
            ret = st
            continue
        raise AnalysisError(f'{where}: not straight-line code ending in one `return` (`{pf.nsrc(st)[:50]}`)')
    if ret is None:
        raise AnalysisError(f'{where}: no return')
    return pf.expand_locals(meth, ret.value), params[1]


def check_identifier_visitors(ctx: Ctx, mg: pf.Module, vis: ast.ClassDef, esc: Escaper, delim: str, mirror_ok: bool) -> None:
    """visit_escaped_identifier must hand unescape_parsable exactly the text between the two delimiters, for every name escape_parsable prints
    between delimiters; visit_simple_identifier must return every bare name unchanged.  Both are decided in the domain of NAMES: an
    end-trimming operation goes wrong exactly for the names whose first / last character is emitted as text that begins / ends with a
    trimmed character - a regular set of names, whose shortest member is the witness."""
    D = R.CharSet.of(delim)
    anyc = R.star(R.anychar())

    def printed(name: str) -> str:
        for b_ in esc.escaped:
            if R.accepts(b_.guard, name):
                return delim + encode_with(split_by_width(b_.units), name) + delim
        return name

    # ---- escaped identifiers
    cons = f'{F_GRAMMAR}::{vis.name}.visit_escaped_identifier'
    vm = _method(vis, 'visit_escaped_identifier')
    ctx.need(vm is not None, f'{F_GRAMMAR}: visit_escaped_identifier vanished')
    e, node_param = _single_return(mg, vm, cons)  # type: ignore[arg-type]
    unescapes = isinstance(e, ast.Call) and pf.dotted(e.func) == 'unescape_parsable' and len(e.args) == 1 and not e.keywords
    if isinstance(e, ast.Call) and not unescapes and not (isinstance(e.func, ast.Attribute)):
        raise AnalysisError(f'{cons}: `{pf.nsrc(e)[:60]}` is neither unescape_parsable(...) nor an operation on node.text')
    ops = _removal_ops(e.args[0] if unescapes else e, node_param, cons)  # type: ignore[union-attr]
    problems: List[str] = []

    def witness(names: R.Lang) -> Optional[str]:
        return R.shortest(names)

    for b_ in esc.escaped:
        reach = b_.guard
        units = b_.units
        # what happens at each end: ('drop', k) | ('run', CharSet) | ('affix', text); None = nothing removed there
        left: List[tuple] = []
        right: List[tuple] = []
        globals_: List[tuple] = []
        for op in ops:
            if op[0] == 'slice':
                lo, hi = op[1], op[2]
                if (lo is not None and lo < 0) or (hi is not None and hi >= 0):
                    raise AnalysisError(f'{cons}: slice [{lo}:{hi}] counts from the other end; not modelled')
                if lo:
                    left.append(('drop', lo))
                if hi:
                    right.append(('drop', -hi))
            elif op[0] in ('strip', 'lstrip', 'rstrip'):
                cs = R.pred('str.isspace') if op[1] is None else R.CharSet.of(op[1])
                if op[0] != 'rstrip':
                    left.append(('run', cs))
                if op[0] != 'lstrip':
                    right.append(('run', cs))
            elif op[0] == 'removeprefix':
                left.append(('affix', op[1]))
            elif op[0] == 'removesuffix':
                right.append(('affix', op[1]))
            else:
                globals_.append(op)
        if globals_ and (left or right or len(globals_) > 1):
            raise AnalysisError(f'{cons}: `{pf.nsrc(e)[:60]}` combines a whole-string operation with end trimming; not modelled')
        if len(left) > 1 or len(right) > 1:
            raise AnalysisError(f'{cons}: `{pf.nsrc(e)[:60]}` trims the same end more than once; not modelled')
        shown = pf.nsrc(e)
        if globals_:
            g = globals_[0]
            if g[0] == 'replace' and g[1] == delim and g[2] == '':
                inner = _unit_edge_chars(units, D, 'any')
                w = witness(reach & _contains(inner)) if inner else None
                if w is not None:
                    problems.append(f'`{shown}` removes every {delim!r}, also the escaped ones inside the name: the field name {ascii(w)} is printed as '
                                    f'{ascii(printed(w))} and read back without its {delim!r}')
                continue
            raise AnalysisError(f'{cons}: `{shown[:60]}` is not a delimiter-removing operation of the table')
        for side, acts in (('first', left), ('last', right)):
            end = 'leading' if side == 'first' else 'trailing'
            some = witness(reach & R.lang(R.seq(R.anychar(), anyc), 'non-empty'))
            if not acts:
                w = witness(reach)
                if w is not None:
                    problems.append(f'`{shown}` leaves the {end} delimiter in place: the field name {ascii(w)} is printed as {ascii(printed(w))} and read back with a {delim!r}')
                continue
            act = acts[0]
            if act[0] == 'drop':
                if act[1] != len(delim) and some is not None:
                    problems.append(f'`{shown}` drops {act[1]} {end} character(s), the delimiter is {len(delim)}: the field name {ascii(some)} is printed as '
                                    f'{ascii(printed(some))} and read back as a different name')
            elif act[0] == 'affix':
                if act[1] != delim:
                    raise AnalysisError(f'{cons}: removeprefix / removesuffix of {act[1]!r}, which is not the delimiter; not modelled')
            else:
                cs = act[1]
                if not D.issubset(cs):
                    w = witness(reach)
                    if w is not None:
                        problems.append(f'`{shown}` does not strip the {end} delimiter {delim!r}: the field name {ascii(w)} is printed as {ascii(printed(w))} and read back with it')
                    continue
                edge = _unit_edge_chars(units, cs, side)
                if edge:
                    names = R.lang(R.seq(R.chars(edge), anyc) if side == 'first' else R.seq(anyc, R.chars(edge)), 'edge')
                    w = witness(reach & names)
                    if w is not None:
                        body = printed(w)[len(delim):-len(delim)]
                        problems.append(f'`{shown}` strips a RUN of {cs.describe()} at the {end} end, not just the delimiter: the field name {ascii(w)} is printed as '
                                        f'{ascii(printed(w))}, whose text between the delimiters ({ascii(body)}) {"begins" if side == "first" else "ends"} with a stripped '
                                        f'character, so the visitor hands on a truncated text and the name does not come back')
        if not unescapes and not problems:
            rewritten = R.CharSet([(u.lo, u.hi) for u in units if not (len(u.parts) == 1 and u.parts[0][0] == 'self')])
            w = witness(reach & _contains(rewritten)) if rewritten else None
            if w is not None:
                problems.append(f'`{shown}` returns the text between the delimiters without unescape_parsable: the field name {ascii(w)} is printed as '
                                f'{ascii(printed(w))} and read back with its escapes')
    if any(op[0] in ('lower', 'upper', 'casefold') for op in ops):
        raise AnalysisError(f'{cons}: case mapping of an escaped identifier; not modelled')
    ctx.check(not problems, 'R3', cons, '; '.join(dict.fromkeys(problems)) + ('' if mirror_ok else ' (and unescape_parsable is not the mirror of escape_parsable, see above)'),
              mg.path, vm.lineno if vm else 0, detail={'operations': [list(map(str, o)) for o in ops], 'unescape': bool(unescapes)})  # type: ignore[union-attr]

    # ---- simple identifiers: the bare names must come back unchanged
    cons = f'{F_GRAMMAR}::{vis.name}.visit_simple_identifier'
    vs = _method(vis, 'visit_simple_identifier')
    ctx.need(vs is not None, f'{F_GRAMMAR}: visit_simple_identifier vanished')
    e, node_param = _single_return(mg, vs, cons)  # type: ignore[arg-type]
    ops = _removal_ops(e, node_param, cons)
    problem = None
    shown = pf.nsrc(e)
    for op in ops:
        if problem:
            break
        if op[0] == 'slice':
            lo, hi = op[1], op[2]
            if lo or hi is not None:
                w = witness(esc.bare)
                problem = f'`{shown}` cuts the matched text: the bare field name {ascii(w)} comes back shortened' if w is not None else None
        elif op[0] in ('strip', 'lstrip', 'rstrip'):
            cs = R.pred('str.isspace') if op[1] is None else R.CharSet.of(op[1])
            first = R.lang(R.seq(R.chars(cs), anyc), 'begins')
            last = R.lang(R.seq(anyc, R.chars(cs)), 'ends')
            hit = (first | last) if op[0] == 'strip' else first if op[0] == 'lstrip' else last
            w = witness(esc.bare & hit)
            if w is not None:
                problem = f'`{shown}` strips {cs.describe()} from a bare name: {ascii(w)} is printed as it is and comes back without it'
        elif op[0] in ('lower', 'upper', 'casefold'):
            w = witness(esc.bare & _contains(~sp.fixed_points(op[0])))
            if w is not None:
                problem = f'`{shown}` changes the letter case of a bare name: {ascii(w)} comes back as {ascii(getattr(w, op[0])())}'
        elif op[0] in ('removeprefix', 'removesuffix'):
            lit_ = R.lit(op[1])
            w = witness(esc.bare & R.lang(R.seq(lit_, anyc) if op[0] == 'removeprefix' else R.seq(anyc, lit_), 'affix')) if op[1] else None
            if w is not None:
                problem = f'`{shown}` removes {op[1]!r} from a bare name: {ascii(w)} comes back without it'
        elif op[0] == 'replace':
            if op[1] != op[2] and op[1]:
                w = witness(esc.bare & R.lang(R.seq(anyc, R.lit(op[1]), anyc), 'contains'))
                if w is not None:
                    problem = f'`{shown}` rewrites {op[1]!r} inside a bare name: {ascii(w)} comes back changed'
    ctx.check(problem is None, 'R3', cons, problem or '', mg.path, vs.lineno if vs else 0)  # type: ignore[union-attr]



def run(ctx: Ctx) -> None:
    ctx.explanation = ('Escapers are turned into unit tables (code-point range -> emitted text) and compared, as regular languages over all '
                       'Unicode code points, with the Python grammar terminals and with the engine lexer read from Parser.scala; printed '
                       'forms are parsed with our own PEG interpreter of the grammar text; hl.dtype is analysed by abstract data flow (what it returns '
                       'is the parse of its own argument; memo keys from a closed table); the visitor is checked as a data path and the printer templates '
                       'are matched symbolically against the arm scripts extracted from IRParser.type_expr. No repository code is run.')
    ctx.rule('R1', 'names emitted bare are simple_identifier of the type grammar and JavaTokenParsers.ident of the engine lexer '
                   ' (ASCII names and all names)', 5)
    # minimum counts of R2 / R5 are per unit KIND; they leave room for an encoder that merges kinds (e.g. one numeric form instead of three)
    ctx.rule('R2', 'every escape unit the Python side can emit between delimiters - on every exit of the escapers, fast paths included - is accepted by '
                   'the engine lexer quotedLiteral / by the grammar escaped_identifier (prefix-free)', 40)
    ctx.rule('R3', 'unescape_parsable gives back the character from the text escape_parsable prints for it, for every unit kind and whatever follows '
                   '(decoder read as symbolic transducers); its early exits take no text with an escape; the visitor hands it the text between the '
                   'delimiters; struct field and reference genome names are printed through escape_parsable', 17)
    ctx.rule('R4', 'every HailType __str__ form parses back through the grammar rule whose visitor builds that class; visitor arity; every '
                   'alternative of `type` has a visitor; the same for the `_pretty` builders read as templates', 61)
    ctx.rule('R5', 'unescapeString maps every accepted escape unit back to the same UTF-16 code units', 28)
    ctx.rule('R6', 'the keyword of every _parsable_string form has an arm in IRParser.type_expr that consumes the punctuation printed', 18)
    ctx.rule('R7', 'what hl.dtype returns is the parse of ITS OWN argument: every return is visit(parse(arg)) or a memo entry whose key is an injective '
                   '(parse-preserving) function of the argument - decided from a closed table of key shapes and from the grammar - and that is only written '
                   'with the value parsed from the same text; the visitor keeps no state; printers do not remember text computed from attributes that '
                   'change after construction', 22)
    ctx.rule('R8', 'the visitor hands every value-carrying member of a grammar rule to the constructor unaltered (no reordering, truncation, filtering or '
                   'string normalisation), uses every such member, and passes them in reading order; __str__ shows the constructor parameters in '
                   'parameter order', 22)
    ctx.rule('R9', 'sibling agreement, constructor by constructor: the _parsable_string template is consumed token by token by the script of its arm in '
                   'IRParser.type_expr; __str__ and _parsable_string show the same members in the same order; the arm passes what it reads to the '
                   'engine constructor in reading order', 37)
    deferred: List[str] = []
    st: Dict[str, Any] = {}

    def section(fn) -> None:
        try:
            fn()
        except AnalysisError as e:
            deferred.append(str(e))

    section(lambda: _run_lexical(ctx, st))
    section(lambda: _run_semantic(ctx, st))
    if deferred:
        raise AnalysisError(' | '.join(deferred))


def _grammar(ctx: Ctx, mg: pf.Module) -> P.Grammar:
    grammar_text = sp.const_string(mg, None, ast.Name(id='type_grammar_str', ctx=ast.Load()))
    tg = sp.module_const(mg, 'type_grammar')
    ctx.need(isinstance(tg, ast.Call) and pf.dotted(tg.func) == 'Grammar' and [pf.nsrc(a) for a in tg.args] == ['type_grammar_str'],
             f'{F_GRAMMAR}: type_grammar is not Grammar(type_grammar_str)')
    return P.parse_grammar(grammar_text, f'{F_GRAMMAR}::type_grammar_str')


def _run_semantic(ctx: Ctx, st: Dict[str, Any]) -> None:
    mt, mg = pf.load(F_TYPES), pf.load(F_GRAMMAR)
    G = st.get('G') or _grammar(ctx, mg)
    classes = _hail_classes(ctx, mt)
    deferred: List[str] = []
    box: Dict[str, Any] = {}

    def r7() -> None:
        check_parse_flow(ctx, mt, G)

    def r7p() -> None:
        check_printer_memo(ctx, mt, classes)

    def r8() -> None:
        check_visitor_flow(ctx, mg, G, flat_class(mg, mg.cls('TypeConstructor')))

    def r8p() -> None:
        sk = Skeleton(mt, Templates(ctx, mt, ['int32'], ['a']))
        box['str_templates'] = check_printer_param_order(ctx, mt, classes, sk)

    def r9() -> None:
        arms = EngineArms(ctx, S.irlexer_token_order(), S.irparser_type_cases())
        sk2 = Skeleton(mt, Templates(ctx, mt, ['Int32'], ['a']))
        check_engine_templates(ctx, mt, classes, sk2, box.get('str_templates', {}), arms)

    for f in (r7p, r7, r8, r8p, r9):
        try:
            f()
        except AnalysisError as e:
            deferred.append(str(e))
    if deferred:
        raise AnalysisError(' | '.join(deferred))

def _run_lexical(ctx: Ctx, state: Dict[str, Any]) -> None:
    ctx.assume('regex terminals of type_grammar follow stdlib `re` semantics (parsimonious >= 0.10 uses the third-party `regex` module, whose \\w '
               'differs for a few code points such as U+00B2; not installed here)')
    ctx.assume('JavaTokenParsers.ident = rep1(acceptIf(Character.isJavaIdentifierStart), elem(Character.isJavaIdentifierPart)) on UTF-16 chars '
               '(scala-parser-combinators), and is tried after skipping \\s+')
    ctx.assume('str.encode(\'unicode_escape\') encodes character by character (the table is cut out of the encoding of the string of all code points)')
    ctx.assume('parsimonious passes one visited child per member of a sequence rule, in order, and NodeVisitor.visit calls visit_<rule name> (else generic_visit) '
               'bottom-up; a rule without a visit method yields no value')
    mj, mm, mt, mg = pf.load(F_JAVA), pf.load(F_MISC), pf.load(F_TYPES), pf.load(F_GRAMMAR)
    ctx.unit('files', 6)
    deferred_lex: List[str] = []   # parts that could not be decided; the rest of the section still runs, the run ends as an analysis error

    # ------------------------------------------------------------------ extraction
    identity_table = [Unit(0, R.MAXCP, [('self',)])]

    def is_param(e: Optional[ast.AST], escaper: Escaper) -> bool:
        return isinstance(e, ast.Name) and e.id == escaper.param

    def finish(escaper: Escaper) -> Branch:
        """Restrict every escaping exit's table to the characters of the names that reach it; choose the general exit (the one that rewrites
        characters; the last one when that does not single one out), whose constructs keep their plain keys."""
        for b_ in escaper.escaped:
            b_.chars = occurring_chars(b_.guard)
            b_.units = restrict_units(b_.units, b_.chars)
        rew = [b_ for b_ in escaper.escaped if b_.transform != 'identity']
        primary = rew[0] if len(rew) == 1 else escaper.escaped[-1]
        for b_ in escaper.escaped:
            b_.label = '' if b_ is primary else f' [when {b_.when()}]'
        ctx.need(len({b_.label for b_ in escaper.escaped}) == len(escaper.escaped), f'{escaper.m.rel}::{escaper.name}: two exits under the same condition')
        return primary

    esc = Escaper(ctx, mj, 'escape_parsable')
    delim = esc.escaped[0].delim
    pipelines: Dict[int, List[tuple]] = {}
    for b_ in esc.escaped:
        if is_param(b_.inner, esc):
            b_.transform, b_.units = 'identity', list(identity_table)
            pipelines[id(b_)] = []
            continue
        try:
            ops_b = _pipeline(ctx, mj, esc.fn, b_.inner, esc.param)  # type: ignore[arg-type]
        except AnalysisError as first_:
            # not a chain of codec steps: a hand-written per-character encoder?
            try:
                b_.units = handwritten_encoder(mj, esc.fn, b_.inner, esc.param)  # type: ignore[arg-type]
            except AnalysisError as second_:
                raise AnalysisError(f'{first_} | {second_}')
            b_.transform = 'hand-written per-character encoder'
            pipelines[id(b_)] = []
            continue
        ctx.need(ops_b[:1] == [('encode', 'unicodeescape')], f'{F_JAVA}::escape_parsable: the first step is not .encode(\'unicode_escape\') ({ops_b})')
        tab = unicode_escape_units()
        for op in ops_b[1:]:
            if op[0] == 'decode' and op[1] in ('utf8', 'ascii', 'latin1'):
                continue
            if op[0] == 'replace':
                tab = apply_replace(tab, op[1], op[2], f'{F_JAVA}::escape_parsable')
                continue
            raise AnalysisError(f'{F_JAVA}::escape_parsable: step {op} is not modelled')
        b_.transform, b_.units = f'pipeline {ops_b}', tab
        pipelines[id(b_)] = ops_b
    esc_primary = finish(esc)
    units_p = esc_primary.units
    ctx.unit('code_points_tabulated', R.MAXCP + 1)

    eid = Escaper(ctx, mm, 'escape_id')
    delim_id = eid.escaped[0].delim
    es = EscapeStr(ctx, mm)
    es_tables: Dict[bool, List[Unit]] = {}
    expanded: List[Branch] = []

    def escape_str_branches(flag: bool, base: Optional[Branch]) -> List[Branch]:
        """escape_str(s, flag) as a decision list: one Branch per exit (an early `return s` in front of the loop emits the string as it is),
        restricted to the names that reach `base` (None: every string)."""
        if flag not in es_tables:
            es_tables[flag] = es.units(flag)
        res: List[Branch] = []
        for g, kind, path_, line_ in es.exits(flag):
            guard = base.guard if g is None and base is not None else (R.everything() if g is None else g if base is None else base.guard & g)
            if R.shortest(guard) is None:
                continue
            nb = Branch(guard, base.value if base is not None else ast.Constant(value=None), line_ if kind == 'identity' or base is None else base.line,
                        (list(base.path) if base is not None else []) + [f'escape_str: {x}' for x in path_])
            nb.kind, nb.delim, nb.inner = 'escaped', (base.delim if base is not None else '"'), (base.inner if base is not None else None)
            if kind == 'identity':
                nb.transform, nb.units = 'identity', list(identity_table)
            else:
                nb.transform, nb.units = f'escape_str(backticked={flag})', list(es_tables[flag])
            res.append(nb)
        return res

    for b_ in eid.escaped:
        inner_id = b_.inner
        if is_param(inner_id, eid):
            b_.transform, b_.units = 'identity', list(identity_table)
            expanded.append(b_)
            continue
        flag: Optional[bool] = None
        if isinstance(inner_id, ast.Call) and pf.dotted(inner_id.func) == 'escape_str' and 1 <= len(inner_id.args) + len(inner_id.keywords) <= 2 \
                and inner_id.args and is_param(inner_id.args[0], eid):
            extra_ = [a_ for a_ in inner_id.args[1:]] + [k.value for k in inner_id.keywords if k.arg == 'backticked']
            if len(inner_id.args) + len(inner_id.keywords) == 1:
                flag = False
            elif len(extra_) == 1 and isinstance(extra_[0], ast.Constant) and isinstance(extra_[0].value, bool):
                flag = extra_[0].value
        ctx.need(flag is not None, f'{F_MISC}::escape_id: escaped form is not `escape_str(s, backticked=True)` ({pf.nsrc(inner_id)})')
        expanded += escape_str_branches(flag, b_)  # type: ignore[arg-type]
    eid.escaped = expanded
    ctx.need(sp.module_bindings(mm, 'escape_str') and len(sp.module_bindings(mm, 'escape_str')) == 1, f'{F_MISC}: escape_str is not bound exactly once')
    eid_primary = finish(eid)
    units_id = eid_primary.units
    # parsable_strings: every string goes through escape_str(s) (backticked=False)
    str_branches = escape_str_branches(False, None)
    for b_ in str_branches:
        b_.chars = occurring_chars(b_.guard)
        b_.units = restrict_units(b_.units, b_.chars)
    str_rew = [b_ for b_ in str_branches if b_.transform != 'identity']
    ctx.need(len(str_rew) == 1, f'{F_MISC}::escape_str: no string reaches the character loop')
    str_primary = str_rew[0]
    for b_ in str_branches:
        b_.label = '' if b_ is str_primary else f' [when {b_.when()}]'
    units_str = str_primary.units
    # parsable_strings: '"' + escape_str(s) + '"'
    ps = mm.func('parsable_strings')
    ps_ok = any(isinstance(n, ast.JoinedStr) and len(n.values) == 3 and pf.const_str(n.values[0]) == '"' and pf.const_str(n.values[2]) == '"'
                and isinstance(n.values[1], ast.FormattedValue) and pf.nsrc(n.values[1].value) == 'escape_str(s)' for n in ast.walk(ps))
    ctx.need(ps_ok, f'{F_MISC}::parsable_strings: elements are not rendered as "{{escape_str(s)}}"')

    G = _grammar(ctx, mg)
    state['G'] = G
    ctx.unit('grammar_rules', len(G.order))

    lex = S.irlexer_quoted_literal()
    ident = S.irlexer_identifier()
    tokens = S.irlexer_token_order()
    arms = S.unescape_string_arms()
    ctx.need(lex['decoder'] == 'unescapeString', f'{F_PARSER}: quotedLiteral decodes with {lex["decoder"]}, not unescapeString')
    ctx.unit('scala_extractors', 5)

    # ------------------------------------------------------------------ R1
    pat_simple, L_simple = G.regex_language('simple_identifier')
    L_java, java_origin = java_ident_language(ctx)
    ctx.need(ident['alternatives'] == ['backtickLiteral', 'ident'] or set(ident['alternatives']) == {'backtickLiteral', 'ident'},
             f'{F_PARSER}::IRLexer.identifier alternatives changed: {ident["alternatives"]}')
    ctx.need('identifier' in tokens, f'{F_PARSER}::IRLexer.token: no identifier alternative ({tokens})')
    w = R.included(esc.bare, L_simple)
    ctx.check(w is None, 'R1', f'{F_JAVA}::escape_parsable::bare names are simple_identifier',
              f'escape_parsable emits {_show(w)} without back-ticks ({esc.why}), but the type grammar\'s '
              f'simple_identifier {pat_simple!r} does not match it in full: the printed type does not parse back', mj.path, esc.test_line)
    ascii_only = R.lang(R.star(R.chars(R.pred('str.isascii'))), 'ASCII*')
    for e_, file_, m_ in ((esc, F_JAVA, mj), (eid, F_MISC, mm)):
        # (a) over ASCII names (the engine and Python agree on ASCII letters/digits: any difference here is a plain grammar mismatch)
        w = R.included(e_.bare & ascii_only, L_java)
        ctx.check(w is None, 'R1', f'{file_}::{e_.name}::bare ASCII names are JavaTokenParsers.ident',
                  f'{e_.name} emits the name {_show(w)} without back-ticks ({e_.why}), but that is not a Java identifier: '
                  f'IRLexer.ident does not read it as one identifier token', m_.path, e_.test_line)
        # (b) over all names
        w = R.included(e_.bare, L_java)
        ctx.check(w is None, 'R1', f'{file_}::{e_.name}::bare names are JavaTokenParsers.ident',
                  f'{e_.name} emits the name {_show(w)} without back-ticks ({e_.why}; Python\'s \\w accepts every '
                  f'str.isalnum() character), but U+{ord(w[-1]) if w else 0:04X} is not a Java identifier part ({java_origin}), so IRLexer.ident stops '
                  f'before it and the engine does not read the same name', m_.path, e_.test_line, detail={'java_tables': java_origin})

    # ------------------------------------------------------------------ R2
    L_backtick = scala_quoted_language(ident.get('backtick_delim', '`'), lex['escape_chars'], 'IRLexer.backtickLiteral')
    ctx.need(delim == ident.get('backtick_delim') and delim_id == delim, f'delimiters differ: python {delim!r}/{delim_id!r}, engine {ident.get("backtick_delim")!r}')
    acc_of: Dict[int, Dict[str, bool]] = {}
    for b_ in esc.escaped:
        acc_of[id(b_)] = check_units_against(ctx, 'R2', f'{F_JAVA}::escape_parsable{b_.label} -> IRLexer.backtickLiteral', b_.units, delim, L_backtick,
                                             f'IRLexer.quotedLiteral (escapeChars {lex["literal"]}, Parser.scala:{lex["line"]})', b_.guard, mj.path,
                                             esc.test_line if b_ is esc_primary else b_.line, 'escape_parsable' if b_ is esc_primary else f'escape_parsable ({b_.transform}, when {b_.when()})')
    acc_p = acc_of[id(esc_primary)]
    state['units_p'], state['acc_p'] = units_p, acc_p
    pat_esc, L_esc = G.regex_language('escaped_identifier')
    pfree = R.prefix_free(L_esc)
    ctx.check(pfree is None, 'R2', f'{F_GRAMMAR}::escaped_identifier::prefix-free',
              f'escaped_identifier {pat_esc!r} matches both {_show(pfree[0]) if pfree else ""} and its extension {_show(pfree[1]) if pfree else ""}: the PEG '
              'terminal may stop early or late', mg.path, 0)
    for b_ in esc.escaped:
        check_units_against(ctx, 'R2', f'{F_JAVA}::escape_parsable{b_.label} -> type_grammar.escaped_identifier', b_.units, delim, L_esc,
                            f'the grammar terminal escaped_identifier {pat_esc!r}', b_.guard, mj.path, esc.test_line if b_ is esc_primary else b_.line,
                            'escape_parsable' if b_ is esc_primary else f'escape_parsable ({b_.transform}, when {b_.when()})')
    for b_ in eid.escaped:
        acc_of[id(b_)] = check_units_against(ctx, 'R2', f'{F_MISC}::escape_id{b_.label} -> IRLexer.backtickLiteral', b_.units, delim_id, L_backtick,
                                             f'IRLexer.quotedLiteral (escapeChars {lex["literal"]})', b_.guard, mm.path, eid.test_line if b_ is eid_primary else b_.line,
                                             'escape_id (escape_str, backticked=True)' if b_ is eid_primary else f'escape_id ({b_.transform}, when {b_.when()})')
    acc_id = acc_of[id(eid_primary)]
    L_dq = scala_quoted_language('"', lex['escape_chars'], 'IRLexer.stringLiteral')
    for b_ in str_branches:
        acc_of[id(b_)] = check_units_against(ctx, 'R2', f'{F_MISC}::parsable_strings{b_.label} -> IRLexer.stringLiteral', b_.units, '"', L_dq,
                                             f'IRLexer.quotedLiteral(\'"\') (escapeChars {lex["literal"]})', None if not es.pre else b_.guard, mm.path,
                                             ps.lineno if b_ is str_primary else b_.line,
                                             'parsable_strings (escape_str)' if b_ is str_primary else f'parsable_strings (escape_str: {b_.transform}, when {b_.when()})')
    acc_str = acc_of[id(str_primary)]

    # whole languages (all combinations of accepted units; exact for an exit that emits the name as it is: delimiter + its guard + delimiter)
    def whole(b_: Optional[Branch], units: List[Unit], dl: str, acc: Dict[str, bool], label: str) -> R.Lang:
        good = [u for u in split_by_width(units) if acc.get(u.kind(), False)]
        if b_ is not None and b_.transform == 'identity':
            ok_chars = R.CharSet([(u.lo, u.hi) for u in good])
            return R.concat(R.lang(R.lit(dl), 'delimiter'), b_.guard & R.lang(R.star(R.chars(ok_chars)), 'accepted characters'), R.lang(R.lit(dl), 'delimiter'))
        return emitted_language(good, dl, label) if good else R.nothing()
    for b_ in eid.escaped:
        w = R.included(whole(b_, b_.units, delim_id, acc_of[id(b_)], 'escape_id'), L_backtick)
        ctx.check(w is None, 'R2', f'{F_MISC}::escape_id{b_.label}::all combinations of accepted units',
                  f'units are accepted one by one but the combination {_show(w)} is not', mm.path, 0)
    for b_ in str_branches:
        w = R.included(whole(b_ if es.pre else None, b_.units, '"', acc_of[id(b_)], 'parsable_strings'), L_dq)
        ctx.check(w is None, 'R2', f'{F_MISC}::parsable_strings{b_.label}::all combinations of accepted units',
                  f'units are accepted one by one but the combination {_show(w)} is not', mm.path, 0)
    for b_ in esc.escaped:
        w = R.included(whole(b_, b_.units, delim, acc_of[id(b_)], 'escape_parsable'), L_backtick)
        ctx.check(w is None, 'R2', f'{F_JAVA}::escape_parsable{b_.label}::all combinations of accepted units',
                  f'units are accepted one by one but the combination {_show(w)} is not', mj.path, 0)

    # ------------------------------------------------------------------ R5
    def decode_check(label: str, file_: str, path_: str, line_: int, units: List[Unit], dl: str, acc: Dict[str, bool]) -> None:
        by_kind: Dict[str, List[Unit]] = {}
        for u in split_by_width(units):
            by_kind.setdefault(u.kind(), []).append(u)
        for kind, us in by_kind.items():
            if not acc.get(kind, False):
                continue  # not accepted by the lexer at all: reported under R2
            bad = None
            cand = [(cp, u) for u in us for cp in u.examples()]
            cand += [(c0, u) for u in us for c0 in (0x5C, ord(dl)) if u.lo <= c0 <= u.hi and any(p[0] == 'self' for p in u.parts)]
            for cp, u in sorted(cand, key=lambda t: (t[0] not in (0xE9, 0x1F600, 0x4E2D), t[0])):
                got = scala_decode(u.output(cp), arms)
                if got != utf16(cp):
                    bad = (cp, u.output(cp), got)
                    break
            cons = f'{file_}::{label}::unit {kind} decodes to the same character'
            if bad is None:
                ctx.ok('R5', cons, {'code_points': sum(u.hi - u.lo + 1 for u in us)})
            else:
                cp, text, got = bad
                gs = 'an error' if got is None else 'nothing (the escape is incomplete and swallows what follows)' if not got else 'the UTF-16 units ' + ' '.join(f'U+{x:04X}' for x in got) + f' ({ascii("".join(chr(x) for x in got))})'
                ctx.bad('R5', cons, f'{label} renders U+{cp:04X} as {ascii(text)}; the lexer accepts it but StringEscapeUtils.unescapeString '
                        f'(\\{arms["unicode_intro"]} reads exactly {arms["unicode_width"]} hex digits) decodes it to {gs} instead of '
                        f'U+{cp:04X} (UTF-16 ' + ' '.join(f'U+{x:04X}' for x in utf16(cp)) + '): the engine sees a different name', path_, line_)
    for b_ in esc.escaped:
        decode_check('escape_parsable' + b_.label, F_JAVA, mj.path, esc.test_line if b_ is esc_primary else b_.line, b_.units, delim, acc_of[id(b_)])
    for b_ in eid.escaped:
        decode_check('escape_id' + b_.label, F_MISC, mm.path, es.loop.lineno if b_ is eid_primary else b_.line, b_.units, delim_id, acc_of[id(b_)])
    for b_ in str_branches:
        decode_check('parsable_strings' + b_.label, F_MISC, mm.path, es.loop.lineno if b_ is str_primary else b_.line, b_.units, '"', acc_of[id(b_)])

    # ------------------------------------------------------------------ R3
    # unescape_parsable must give back every character from the text escape_parsable prints for it, whatever follows: decided unit kind by
    # unit kind on the decoder read as a chain of symbolic transducers (engines/c31decode.py; ordered regex matching and the replacement
    # function are evaluated on symbolic unit texts with explicit case splits, the unicode_escape codec is modelled natively)
    une = mj.func('unescape_parsable')
    mirror_ok = True
    undecided: List[str] = []
    try:
        early: List[ast.If] = []
        stages, usummary = D.decoder_stages(mj, une, early)
        ctx.unit('decoder_stages', len(stages))
        # early exits `if <test on the text>: return <the text>`: exact languages of the texts (between the delimiters) that take them
        uparam = une.args.args[0].arg
        fall = R.everything()
        exits_u: List[Tuple[R.Lang, ast.If]] = []
        for st_ in early:
            T_ = _Cond(mj, une, uparam).cond(pf.expand_locals(une, st_.test))
            exits_u.append((fall & T_, st_))
            fall = fall & ~T_
        for b_ in esc.escaped:
            flat_b = split_by_width(b_.units)
            # a text returned as it is must not contain a rewritten character
            rewritten_u = [u for u in flat_b if not (len(u.parts) == 1 and u.parts[0][0] == 'self')]
            for reach_, st_ in exits_u:
                cons = f'{F_JAVA}::unescape_parsable{b_.label}::early exit `{pf.nsrc(st_.test)[:60]}` returns only texts without escapes'
                if not rewritten_u:
                    ctx.ok('R3', cons, 'this exit of escape_parsable rewrites nothing', nontrivial=False)
                    continue
                allu = R.alt(*[u.regex() for u in flat_b])
                with_esc = R.lang(R.seq(R.star(allu), R.alt(*[u.regex() for u in rewritten_u]), R.star(allu)), 'printed texts that contain an escape')
                hit = None
                for w_ in R.enumerate_shortest(reach_ & with_esc, 24):
                    nm_ = decode_with(flat_b, w_)
                    if nm_ is not None and nm_ != w_ and R.accepts(b_.guard, nm_):
                        hit = (nm_, w_)
                        break
                if hit is None and R.shortest(reach_ & with_esc) is not None:
                    undecided.append(f'{cons}: texts such as {ascii(R.shortest(reach_ & with_esc))} take the exit but no printed name was found that produces one')
                    continue
                ctx.check(hit is None, 'R3', cons, f'unescape_parsable returns the text unchanged when `{pf.nsrc(st_.test)[:80]}`, but escape_parsable prints the name '
                          f'{ascii(hit[0]) if hit else ""} as {ascii(delim + (hit[1] if hit else "") + delim)}, whose text between the delimiters takes that exit although it '
                          f'contains an escape: the name comes back as {ascii(hit[1]) if hit else ""}, so parsing the printed type yields a different type', mj.path, st_.lineno)
            dunits = [D.UnitText(u.lo, u.hi, u.parts, u.kind()) for u in flat_b]
            an = D.Analysis(dunits, stages)
            kinds: Dict[str, List[Any]] = {}
            for u, du in zip(flat_b, dunits):
                kinds.setdefault(u.kind(), []).append((u, du))
            for kind, pairs in kinds.items():
                cons = f'{F_JAVA}::unescape_parsable{b_.label}::unit {kind} comes back as the same character'
                worst = None
                n_cases = 0
                for u, du in pairs:
                    v = an.verdict(du)
                    n_cases += v.cases
                    if v.status == 'bad' or (v.status == 'unknown' and worst is None):
                        worst = (u, du, v)
                        if v.status == 'bad':
                            break
                if worst is None:
                    ctx.ok('R3', cons, {'code_points': sum(u.hi - u.lo + 1 for u, _du in pairs), 'cases': n_cases, 'decoder': [list(map(str, o)) for o in usummary]})
                    continue
                u, du, v = worst
                if v.status == 'unknown':
                    undecided.append(f'{cons}: {v.message}')
                    continue
                mirror_ok = False
                piece = chr(v.cp) + v.follow  # type: ignore[arg-type]
                nm = R.shortest(b_.guard & R.lang(R.seq(R.star(R.anychar()), R.lit(piece), R.star(R.anychar())), 'contains the witness'))
                if nm is not None and exits_u and not R.accepts(fall, encode_with(flat_b, nm)):
                    # the witness must reach the decoding chain, not an early exit
                    nm = None
                    for cand_ in R.enumerate_shortest(b_.guard & R.lang(R.seq(R.star(R.anychar()), R.lit(piece), R.star(R.anychar())), 'contains the witness'), 40):
                        if R.accepts(fall, encode_with(flat_b, cand_)):
                            nm = cand_
                            break
                if nm is None:
                    undecided.append(f'{cons}: no printed name that reaches the decoding chain contains the witness {ascii(piece)}')
                    continue
                printed_nm = delim + encode_with(flat_b, nm) + delim
                eaten = v.follow[:v.swallowed]
                back = 'an exception is raised' if v.got is None else (f'{ascii(du.text_of(v.cp) + encode_with(flat_b, eaten))} is read back as {ascii(v.got)}, '  # type: ignore[arg-type]
                                                                       f'not {ascii(chr(v.cp) + eaten)}')  # type: ignore[arg-type]
                ctx.bad('R3', cons, f'escape_parsable prints U+{v.cp:04X} as {ascii(du.text_of(v.cp))} ({u.hi - u.lo + 1} code point(s) U+{u.lo:04X}..U+{u.hi:04X} are printed as {kind!r}), '  # type: ignore[arg-type]
                                    f'but unescape_parsable does not undo it: {v.message}; {back}. The name {ascii(nm)} is printed as {ascii(printed_nm)} and does not come back '
                                    f'unchanged, so parsing the printed type yields a different type', mj.path, une.lineno,
                        extra={'decoder': [list(map(str, o)) for o in usummary], 'witness_code_point': v.cp, 'follow': v.follow})
        for stg in stages:
            for note in getattr(stg, 'notes', []):
                if note == 'unknown escape kept':
                    ctx.info(f'unescape_parsable: {stg.desc} meets an escape the unicode_escape codec does not know (kept as it is, DeprecationWarning "invalid escape '
                             'sequence"); the round trip is decided with that behaviour')
    except AnalysisError as e:
        undecided.append(str(e))
    if undecided:
        deferred_lex.append(' | '.join(undecided))
    # the visitor strips exactly the delimiters (decided on the language of the printed names, see check_identifier_visitors)
    vis = flat_class(mg, mg.cls('TypeConstructor'))
    check_identifier_visitors(ctx, mg, vis, esc, delim, mirror_ok)
    ctx.need(sp.imports_of(mg).get('unescape_parsable', '').endswith('utils.java.unescape_parsable'), f'{F_GRAMMAR}: unescape_parsable is not imported from hail.utils.java')
    ctx.need(sp.imports_of(mt).get('escape_parsable', '').endswith('utils.java.escape_parsable'), f'{F_TYPES}: escape_parsable is not imported from utils.java')
    # every name printed goes through escape_parsable
    classes = _hail_classes(ctx, mt)
    par = mt.parents()
    for cname, attr_desc in (('tstruct', 'field name'), ('tlocus', 'reference genome name')):
        c = classes.get(cname)
        ctx.need(c is not None, f'{F_TYPES}: class {cname} vanished')
        for mname in ('__str__', '_parsable_string', '_pretty'):
            meth = _method(c, mname)  # type: ignore[arg-type]
            ctx.need(meth is not None, f'{F_TYPES}::{cname}.{mname} vanished')
            uses: List[ast.AST] = []
            if cname == 'tstruct':
                # loop variables bound to field names: first element of the target of an iteration over self.items()
                fvars = set()
                for n in ast.walk(meth):  # type: ignore[arg-type]
                    it, tgt = None, None
                    if isinstance(n, ast.comprehension):
                        it, tgt = n.iter, n.target
                    elif isinstance(n, ast.For):
                        it, tgt = n.iter, n.target
                    if it is None:
                        continue
                    src = pf.nsrc(it)
                    if src == 'self.items()' and isinstance(tgt, ast.Tuple) and isinstance(tgt.elts[0], ast.Name):
                        fvars.add(tgt.elts[0].id)
                    elif src == 'enumerate(self.items())' and isinstance(tgt, ast.Tuple) and len(tgt.elts) == 2 and isinstance(tgt.elts[1], ast.Tuple) \
                            and isinstance(tgt.elts[1].elts[0], ast.Name):
                        fvars.add(tgt.elts[1].elts[0].id)
                    elif 'self.items()' in src or 'self._fields' in src or 'self.fields' in src or 'self._field_types' in src:
                        raise AnalysisError(f'{F_TYPES}::{cname}.{mname}: iteration `{src}` over the fields not recognised')
                uses = [n for n in ast.walk(meth) if isinstance(n, ast.Name) and n.id in fvars and isinstance(n.ctx, ast.Load)]  # type: ignore[arg-type]
                if not fvars and mname != '_pretty' or (mname == '_pretty' and not fvars):
                    ctx.need(bool(fvars), f'{F_TYPES}::{cname}.{mname}: no iteration over self.items() found')
            else:
                uses = [n for n in ast.walk(meth) if isinstance(n, ast.Attribute) and isinstance(n.value, ast.Name) and n.value.id == 'self'  # type: ignore[arg-type]
                        and n.attr in ('reference_genome', '_rg')]
                ctx.need(bool(uses), f'{F_TYPES}::{cname}.{mname}: does not mention the reference genome')
            raw = []
            for u in uses:
                cur: Optional[ast.AST] = u
                wrapped = False
                while cur is not None and cur is not meth:
                    p = par.get(cur)
                    if isinstance(p, ast.Call) and pf.dotted(p.func) == 'escape_parsable' and cur in p.args:
                        wrapped = True
                        break
                    cur = p
                if not wrapped:
                    # only a use that flows into the printed text is a violation; anything else is a shape we do not know
                    cur2: Optional[ast.AST] = u
                    printing = False
                    while cur2 is not None and cur2 is not meth:
                        p2 = par.get(cur2)
                        if isinstance(p2, ast.Attribute) or (isinstance(p2, ast.Call) and pf.dotted(p2.func) == 'str' and cur2 in p2.args):
                            cur2 = p2
                            continue
                        printing = isinstance(p2, (ast.FormattedValue, ast.JoinedStr)) or (isinstance(p2, ast.BinOp) and isinstance(p2.op, ast.Add)) or \
                            (isinstance(p2, ast.Call) and isinstance(p2.func, ast.Attribute) and p2.func.attr in ('format', 'append', 'join', 'write') and cur2 in p2.args)
                        break
                    ctx.need(printing, f'{F_TYPES}::{cname}.{mname}: use of `{pf.nsrc(u)}` (line {getattr(u, "lineno", 0)}) is neither wrapped in '
                                       f'escape_parsable nor a recognised printing context')
                    raw.append(u)
            ctx.check(not raw, 'R3', f'{F_TYPES}::{cname}.{mname}::{attr_desc} printed through escape_parsable',
                      f'{cname}.{mname} prints the {attr_desc} `{pf.nsrc(raw[0]) if raw else ""}` without escape_parsable (line {getattr(raw[0], "lineno", 0) if raw else 0}): '
                      f'a name such as \'a b\' or \'x`y\' is printed raw and the result does not parse back', mt.path, meth.lineno if meth else 0,
                      detail={'uses': len(uses)})

    # ------------------------------------------------------------------ R4
    bare_dfa = R.to_dfa(esc.bare, R.alphabet_for([esc.bare]))
    flat_p = split_by_width(units_p)
    names = ['a', 'x_1', 'a b', '`', '\\', 'é', '1a', '', '\n', '\U0001f600', 'int32', 'a:b', '}', "it's", 'tab\there']
    ident_samples = [n if bare_dfa.accepts(n) else delim + encode_with(flat_p, n) + delim for n in names]
    type_samples = ['int32', 'struct{`a b`: str}', 'array<float64>']
    T = Templates(ctx, mt, type_samples, ident_samples)
    type_rule = G.rules.get('type')
    ctx.need(type_rule is not None and type_rule[0] == 'seq' and any(x[0] == 'alt' for x in type_rule[1]), f'{F_GRAMMAR}: rule `type` is not `_ ( alternatives ) _`')
    alternatives = [x[1] for x in [y for y in type_rule[1] if y[0] == 'alt'][0][1] if x[0] == 'ref']  # type: ignore[index]
    visitors = {st.name[len('visit_'):]: st for st in vis.body if isinstance(st, ast.FunctionDef) and st.name.startswith('visit_')}
    rule_class: Dict[str, Optional[str]] = {}
    for alt in alternatives:
        vmeth = visitors.get(alt)
        ctx.check(vmeth is not None, 'R4', f'{F_GRAMMAR}::type alternative {alt} has a visitor',
                  f'`type` lists the alternative {alt} but TypeConstructor has no visit_{alt}: generic_visit would return a list instead of a type', mg.path, 0)
        if vmeth is not None:
            rule_class[alt] = _visitor_class(ctx, mg, mt, classes, vmeth)
    # arity of tuple-unpacking visitors
    for rname, vmeth in visitors.items():
        if rname not in G.rules:
            ctx.bad('R4', f'{F_GRAMMAR}::visit_{rname}::rule exists', f'visit_{rname} has no rule `{rname}` in type_grammar_str (dead visitor: renamed rule?)',
                    mg.path, vmeth.lineno)
            continue
        ar = P.top_sequence_arity(G, rname)
        for st in vmeth.body:
            if isinstance(st, ast.Assign) and pf.nsrc(st.value) == 'visited_children' and isinstance(st.targets[0], (ast.Tuple, ast.List)):
                n_t = len(st.targets[0].elts)
                ctx.check(ar is not None and n_t == ar, 'R4', f'{F_GRAMMAR}::visit_{rname}::arity',
                          f'visit_{rname} unpacks visited_children into {n_t} names but rule `{rname}` has {ar} members: ValueError at parse time',
                          mg.path, st.lineno)
    # printed forms
    n_samples = 0
    for cname, c in classes.items():
        meth = _method(c, '__str__')
        if meth is None:
            continue
        cons = f'{F_TYPES}::{cname}.__str__::parses back as {cname}'
        try:
            samples = T.samples(meth)
        except AnalysisError as e:
            if cname in ('tvariable',):
                ctx.info(f'{cname}.__str__ is not a single template; not covered ({e})')
                continue
            raise
        wrong = None
        for text in samples:
            n_samples += 1
            try:
                node = G.parse(text)
            except P.ParseFailure as e:
                wrong = f'the printed form {ascii(text)} does not parse with type_grammar ({e})'
                break
            chosen = node.first_rule_below()
            rname = chosen.label if chosen is not None else None
            built = rule_class.get(rname or '')
            if built is None:
                raise AnalysisError(f'{F_GRAMMAR}::visit_{rname}: its returns are not all `types.X` / `types.X(...)`; the class it builds is not decided')
            if built != cname:
                wrong = (f'the printed form {ascii(text)} is parsed by the alternative `{rname}`, whose visitor builds '
                         f'{built}, not {cname} (ordered choice commits to the first alternative that matches)')
                break
        ctx.check(wrong is None, 'R4', cons, wrong or '', mt.path, meth.lineno, detail={'samples': len(samples)})
    # pretty(): the `_pretty` builders, read as templates (pieces appended in order; loops with a separator are joins), instantiated and parsed alike
    sk_pretty = Skeleton(mt, T)
    for cname, c in classes.items():
        meth = _method(c, '_pretty')
        if meth is None:
            continue
        cons = f'{F_TYPES}::{cname}._pretty::parses back as {cname}'
        wrong = None
        n_forms = 0
        for parts in sk_pretty.of_pretty(cname, meth):
            for text0 in instantiate(parts, type_samples, ident_samples):
                for text in (text0, '  ' + text0):
                    n_samples += 1
                    n_forms += 1
                    try:
                        node = G.parse(text)
                    except P.ParseFailure as e:
                        wrong = f'the pretty form {ascii(text)} does not parse with type_grammar ({e})'
                        break
                    chosen = node.first_rule_below()
                    rname = chosen.label if chosen is not None else None
                    built = rule_class.get(rname or '')
                    if built is None:
                        raise AnalysisError(f'{F_GRAMMAR}::visit_{rname}: its returns are not all `types.X` / `types.X(...)`; the class it builds is not decided')
                    if built != cname:
                        wrong = f'the pretty form {ascii(text)} is parsed by the alternative `{rname}`, whose visitor builds {built}, not {cname}'
                        break
                if wrong:
                    break
            if wrong:
                break
        ctx.check(wrong is None, 'R4', cons, wrong or '', mt.path, meth.lineno, detail={'forms': n_forms})
    ctx.unit('printed_forms_parsed', n_samples)

    # ------------------------------------------------------------------ R6
    cases = S.irparser_type_cases()
    psrc = S.load(F_PARSER)
    pspan = psrc.find_object('IRParser')
    def_names = set(re.findall(r'\bdef\s+(\w+)', psrc.code[pspan[0]:pspan[1]])) - {'type_expr', 'ptype_expr', 'identifier', 'punctuation', 'error'}

    def arm_closure(text: str, depth: int = 3) -> str:
        """The arm plus the bodies of the IRParser helper defs it mentions (transitively, bounded), type_expr itself excluded."""
        seen: set = set()
        out = [text]
        frontier = [text]
        for _ in range(depth):
            nxt = []
            for t in frontier:
                for w in set(re.findall(r'\b[A-Za-z_][A-Za-z_0-9]*\b', t)) & def_names - seen:
                    seen.add(w)
                    for _st, lo, hi, _sig in psrc.find_defs(w, pspan):
                        body = psrc.norm(lo, hi)
                        out.append(body)
                        nxt.append(body)
            frontier = nxt
        return ' '.join(out)
    punct_pat = [t for t in tokens if t.endswith('.r')]
    ctx.need(len(punct_pat) == 1, f'{F_PARSER}::IRLexer.token: punctuation alternative not found')
    punct_class = R.from_regex(S.scala_string_value(punct_pat[0][:-2], F_PARSER), 0, 'fullmatch')
    T2 = Templates(ctx, mt, ['Int32'], ['a', '`a b`'])
    for cname, c in classes.items():
        meth = _method(c, '_parsable_string')
        if meth is None:
            continue
        body = [s for s in meth.body if not (isinstance(s, ast.Expr) and isinstance(s.value, ast.Constant))]
        if len(body) == 1 and isinstance(body[0], ast.Raise):
            continue
        cons = f'{F_TYPES}::{cname}._parsable_string::engine syntax'
        samples = T2.samples(meth)
        text = max(samples, key=len)
        if text.startswith('+') and 'case x: PunctuationToken if x.value == "+" => punctuation(it, "+")' in psrc.norm(*psrc.find_def('type_expr', pspan, signature_contains='it: TokenIterator')[1:3]):
            text = text[1:]  # type_expr skips a leading requiredness marker
        km = re.match(r'[A-Za-z_][A-Za-z_0-9]*', text)
        ctx.need(km is not None, f'{cname}._parsable_string: sample {text!r} does not start with a keyword')
        kw = km.group()  # type: ignore[union-attr]
        if kw not in cases:
            if cname == '_trngstate':
                ctx.info(f'{cname}._parsable_string() prints {kw!r}, which has no arm in IRParser.type_expr (scala.MatchError if such a type string is ever sent); '
                         'the statement only requires acceptance by the lexer, so this is reported as information')
                ctx.ok('R6', cons, 'keyword has no parser arm; lexically an identifier (see INFO)', nontrivial=False)
                continue
            ctx.bad('R6', cons, f'{cname}._parsable_string() prints the keyword {kw!r}, which IRParser.type_expr does not know ({sorted(cases)})', mt.path, meth.lineno)
            continue
        arm = arm_closure(cases[kw])
        # punctuation printed (outside names and child types): take it from the template with children removed
        skeleton = text
        for child in ('Int32', '`a b`', 'a'):
            skeleton = skeleton.replace(child, ' ')
        skeleton = skeleton.replace(kw, ' ', 1)
        puncts = [ch for ch in skeleton if not ch.isspace() and not ch.isalnum()]
        problems = []
        for ch in dict.fromkeys(puncts):
            if not R.accepts(punct_class, ch):
                problems.append(f'{ch!r} is not a punctuation token of IRLexer')
            elif f'punctuation(it, "{ch}")' not in arm and f'PunctuationToken("{ch}")' not in arm:
                problems.append(f'the arm `case "{kw}"` never consumes {ch!r}')
        ctx.check(not problems, 'R6', cons, f'{cname}._parsable_string() prints e.g. {text!r}: ' + '; '.join(problems), mt.path, meth.lineno,
                  detail={'keyword': kw, 'punctuation': ''.join(dict.fromkeys(puncts))})
    if deferred_lex:
        raise AnalysisError(' | '.join(deferred_lex))
